"""Shared plumbing for all checks: paths, souffle build, scratch dirs, evidence, findings."""
import fcntl
import hashlib
import json
import os
import shutil
import subprocess
import sys
import tempfile
import time

VERIF = os.path.dirname(os.path.dirname(os.path.abspath(__file__)))
REPO = os.environ.get("VERIF_REPO", "/repo")
BUILD = os.environ.get("VERIF_BUILD", os.path.join(VERIF, ".build"))
SOUFFLE = os.path.join(BUILD, "src", "souffle")
GUARD = "SOUFFLE_VERIF"
NCPU = int(os.environ.get("VERIF_JOBS", str(os.cpu_count() or 4)))


class EngineError(Exception):
    """Machinery failed or a solver gave no verdict: exit 2, never a VIOLATION."""


def log(*a):
    print(*a, flush=True)


def sh(cmd, timeout=None, cwd=None, env=None, input=None, check=False):
    """Run a command, return (rc, stdout, stderr); rc 124 on timeout."""
    e = dict(os.environ)
    if env:
        e.update(env)
    try:
        p = subprocess.run(cmd, cwd=cwd, env=e, input=input, stdout=subprocess.PIPE, stderr=subprocess.PIPE,
                           timeout=timeout, text=True, shell=isinstance(cmd, str), errors="replace")
        rc, out, err = p.returncode, p.stdout, p.stderr
    except subprocess.TimeoutExpired as ex:
        def _s(b):
            if b is None:
                return ""
            return b if isinstance(b, str) else b.decode(errors="replace")
        rc, out, err = 124, _s(ex.stdout), _s(ex.stderr)
    if check and rc != 0:
        raise EngineError("command failed rc=%d: %s\n%s\n%s" % (rc, cmd, out[-2000:], err[-2000:]))
    return rc, out, err


def scratch_dir(tag):
    base = os.environ.get("VERIF_SCRATCH", "/var/tmp")
    os.makedirs(base, exist_ok=True)
    return tempfile.mkdtemp(prefix="verif-%s-" % tag, dir=base)


def rm_rf(p):
    shutil.rmtree(p, ignore_errors=True)


def file_sha(path):
    try:
        with open(path, "rb") as f:
            return hashlib.sha256(f.read()).hexdigest()[:16]
    except OSError:
        return None


def repo_file(rel):
    return os.path.join(REPO, rel)


def read_repo(rel):
    with open(repo_file(rel), encoding="utf-8", errors="replace") as f:
        return f.read()


# ----------------------------------------------------------------------------------------
# souffle build (incremental, from /repo's working tree, hooks on)
# ----------------------------------------------------------------------------------------
_CMAKE_ARGS = [
    "-G", "Ninja", "-S", REPO, "-B", BUILD, "-DCMAKE_BUILD_TYPE=Release",
    "-DCMAKE_CXX_FLAGS=-O1 -D%s -Wno-error" % GUARD, "-DCMAKE_CXX_FLAGS_RELEASE=",
    "-DSOUFFLE_ENABLE_TESTING=OFF", "-DSOUFFLE_GIT=OFF",
]


def ensure_souffle(quiet=True):
    """Bring BUILD/src/souffle up to date with /repo's working tree (ninja is incremental)."""
    os.makedirs(BUILD, exist_ok=True)
    lock = open(os.path.join(BUILD, ".verif.lock"), "w")
    fcntl.flock(lock, fcntl.LOCK_EX)
    try:
        t = time.time()
        if not os.path.exists(os.path.join(BUILD, "build.ninja")):
            args = list(_CMAKE_ARGS)
            if shutil.which("ccache"):
                args.append("-DCMAKE_CXX_COMPILER_LAUNCHER=ccache")
            rc, out, err = sh(["cmake"] + args, timeout=600)
            if rc != 0:
                raise EngineError("cmake configure failed:\n" + out[-3000:] + err[-3000:])
        rc, out, err = sh(["ninja", "-C", BUILD, "souffle"], timeout=3600)
        if rc != 0:
            raise EngineError("souffle build failed (the tree does not compile?):\n" + out[-4000:] + err[-2000:])
        if not quiet:
            log("[build] souffle up to date (%.1fs)" % (time.time() - t))
    finally:
        fcntl.flock(lock, fcntl.LOCK_UN)
        lock.close()
    return SOUFFLE


# ----------------------------------------------------------------------------------------
# known findings
# ----------------------------------------------------------------------------------------
def load_findings():
    """known-findings.txt lines:
         finding: property=<id> key=<key> <free text>
         fixed: property=<id> <commit> <free text>
       Only 'finding:' lines suppress (exact key match); 'fixed:' lines suppress nothing."""
    res = {}
    path = os.path.join(VERIF, "known-findings.txt")
    if not os.path.exists(path):
        return res
    for line in open(path):
        line = line.strip()
        if not line.startswith("finding:"):
            continue
        parts = line.split()
        pid = key = None
        for p in parts[1:3]:
            if p.startswith("property="):
                pid = p[len("property="):]
            if p.startswith("key="):
                key = p[len("key="):]
        if pid and key:
            res.setdefault(pid, {})[key] = " ".join(parts[3:])
    return res


class Result:
    """What a check module returns to main."""

    def __init__(self, pid, level):
        self.pid = pid
        self.level = level
        self.violations = []     # dicts: key, what, replay
        self.inconclusive = []   # strings
        self.coverage = {}
        self.assumptions = []
        self.notes = []

    def violation(self, key, what, replay):
        self.violations.append({"key": key, "what": what, "replay": replay})

    def inconc(self, what):
        self.inconclusive.append(what)


def write_evidence(res, tier, seed, wall, n_viol):
    os.makedirs(os.path.join(VERIF, "evidence"), exist_ok=True)
    ev = {
        "property_id": res.pid,
        "tier": tier,
        "seed": seed,
        "level": res.level,
        "coverage": res.coverage,
        "assumptions": res.assumptions,
        "wall_s": round(wall, 2),
        "violations": n_viol,
    }
    if res.inconclusive:
        ev["coverage"]["inconclusive"] = res.inconclusive[:50]
    path = os.path.join(VERIF, "evidence", res.pid + ".json")
    tmp = path + ".tmp"
    with open(tmp, "w") as f:
        json.dump(ev, f, indent=1, sort_keys=True, default=str)
        f.write("\n")
    os.replace(tmp, path)
    return path

"""./check <id> [--tier quick|thorough] — dispatch, evidence, exit code protocol.

exit 0: property held on everything explored (KNOWN-FINDING lines may be printed)
exit 1: at least one VIOLATION line (replayed against the real code)
exit 2: engine error / inconclusive solver verdict (never hides a counterexample)
"""
import argparse
import importlib
import os
import sys
import time
import traceback

from . import common
from .common import EngineError, log

CHECKS = {
    # property id -> module (module exposes run(tier, seed) -> common.Result)
    "C01": "engine_r.checks.c01", "C03": "engine_r.checks.c03", "C04": "engine_r.checks.c04",
    "C05": "engine_r.checks.c05", "C06": "engine_r.checks.c06", "C07": "engine_r.checks.c07",
    "C08": "engine_r.checks.c08", "C09": "engine_r.checks.c09", "C10": "engine_r.checks.c10",
    "C11": "engine_r.checks.c11", "C12": "engine_r.checks.c12", "C15": "engine_r.checks.c15",
    "C16": "engine_r.checks.c16", "C19": "engine_r.checks.c19", "C20": "engine_r.checks.c20",
    "C23": "engine_r.checks.c23",
    "C02": "engine_k.c02", "C17": "engine_k.c17", "C18": "engine_k.c18", "C22": "engine_k.c22",
    "C24": "engine_k.c24", "C29": "engine_k.c29", "C30": "engine_k.c30", "C31": "engine_k.c31",
}


def generic_replay(path):
    """Re-run a saved counterexample against the current tree.  R replays: facts/ + out/prog.dl + expected.txt;
    K replays: the README carries the rebuild/run command line."""
    import re
    import subprocess
    readme = os.path.join(path, "README")
    if os.path.exists(readme):
        log(open(readme).read())
    prog = os.path.join(path, "out", "prog.dl")
    if os.path.exists(prog) and os.path.isdir(os.path.join(path, "facts")):
        common.ensure_souffle()
        out = os.path.join(path, "rerun")
        os.makedirs(out, exist_ok=True)
        flags = []
        m = re.search(r"^replay: souffle -w -F facts -D out (.*) out/prog.dl$", open(readme).read(), re.M) if os.path.exists(readme) else None
        if m:
            flags = m.group(1).split()
        rc = subprocess.call([common.SOUFFLE, "-w", "-F", os.path.join(path, "facts"), "-D", out] + flags + [prog])
        exp = os.path.join(path, "expected.txt")
        bad = rc != 0
        if os.path.exists(exp):
            cur, want = None, {}
            for line in open(exp):
                line = line.rstrip("\n")
                if line.endswith(":") and "\t" not in line:
                    cur = line[:-1]
                    want[cur] = set()
                elif cur is not None and line != "":
                    want[cur].add(line)
            for rel, lines in want.items():
                f = os.path.join(out, rel + ".csv")
                got = set(l.rstrip("\n") for l in open(f) if l.strip()) if os.path.exists(f) else set()
                if got != lines:
                    bad = True
                    log("relation %s differs: missing %s unexpected %s" % (rel, sorted(lines - got)[:5], sorted(got - lines)[:5]))
        log("REPLAY: %s" % ("violation reproduced" if bad else "outputs match the expected least model on the current tree"))
        return 1 if bad else 0
    m = re.search(r"^rebuild: (.*)$", open(readme).read(), re.M) if os.path.exists(readme) else None
    if m:
        rc = subprocess.call(m.group(1), shell=True, cwd=path)
        log("REPLAY: command exited with %d" % rc)
        return 1 if rc != 0 else 0
    log("REPLAY: nothing executable in %s (see README)" % path)
    return 2


def main():
    ap = argparse.ArgumentParser()
    ap.add_argument("pid")
    ap.add_argument("--tier", default=os.environ.get("VERIF_TIER", "quick"), choices=["quick", "thorough"])
    ap.add_argument("--replay", default=None)
    ap.add_argument("--only", default=None, help="restrict to sub-obligations whose name contains this")
    args = ap.parse_args()
    try:
        seed = int(os.environ.get("VERIF_SEED", "0"))
    except ValueError:
        seed = 0
    pid = args.pid
    if pid not in CHECKS:
        log("unknown property", pid)
        sys.exit(2)
    t0 = time.time()
    try:
        mod = importlib.import_module(CHECKS[pid])
        if args.replay:
            sys.exit(getattr(mod, "replay", generic_replay)(args.replay))
        kw = {}
        if args.only:
            kw["only"] = args.only
        res = mod.run(args.tier, seed, **kw)
    except EngineError as e:
        log("ENGINE-ERROR property=%s: %s" % (pid, e))
        sys.exit(2)
    except Exception:
        traceback.print_exc()
        log("ENGINE-ERROR property=%s: internal exception" % pid)
        sys.exit(2)
    known = common.load_findings().get(pid, {})
    n_new = 0
    seen_known = set()
    for v in res.violations:
        if v["key"] in known:
            if v["key"] not in seen_known:
                seen_known.add(v["key"])
                log("KNOWN-FINDING: property=%s %s [%s]" % (pid, known[v["key"]] or v["what"], v["key"]))
        else:
            n_new += 1
            log("VIOLATION property=%s replay=%s" % (pid, v["replay"]))
            log("  what: %s (key=%s)" % (v["what"], v["key"]))
    res.coverage.setdefault("known_findings_hit", sorted(seen_known))
    wall = time.time() - t0
    path = common.write_evidence(res, args.tier, seed, wall, n_new)
    for n in res.notes:
        log("note:", n)
    if n_new:
        log("RESULT property=%s: %d violation(s); evidence %s" % (pid, n_new, path))
        sys.exit(1)
    if res.inconclusive:
        for i in res.inconclusive[:20]:
            log("INCONCLUSIVE property=%s: %s" % (pid, i))
        log("RESULT property=%s: inconclusive (%d); evidence %s" % (pid, len(res.inconclusive), path))
        sys.exit(2)
    log("RESULT property=%s: held on everything explored (%.1fs); evidence %s" % (pid, wall, path))
    sys.exit(0)


if __name__ == "__main__":
    main()

"""Engine K plumbing: real C++ -> clang IR -> C (ir2c) -> CBMC, with differential validation,
witness twins and replay helpers.  See DESIGN.md section 1."""
import concurrent.futures as cf
import os
import re
import resource
import shutil
import subprocess
import sys
import time

from vlib import common
from vlib.common import EngineError, sh, log, REPO

HERE = os.path.dirname(os.path.abspath(__file__))
IR2C = os.path.join(HERE, "ir2c.py")
RT_H = os.path.join(HERE, "verif_rt.h")
PY = sys.executable

CLANG_FLAGS = ["-std=c++17", "-O1", "-fno-vectorize", "-fno-slp-vectorize", "-fno-unroll-loops",
               "-S", "-emit-llvm", "-I", os.path.join(REPO, "src", "include"), "-I", os.path.join(REPO, "src"),
               "-Wno-everything"]

CBMC_BASE = ["--unwinding-assertions", "--drop-unused-functions", "--signed-overflow-check",
             "--undefined-shift-check", "--no-malloc-may-fail"]


def lower(cpp, ll, extra=()):
    """clang++-14 real C++ wrapper TU -> textual LLVM IR."""
    rc, out, err = sh(["clang++-14"] + CLANG_FLAGS + list(extra) + [cpp, "-o", ll], timeout=300)
    if rc != 0:
        raise EngineError("clang lowering failed for %s:\n%s" % (cpp, err[-3000:]))
    return ll


def translate(ll, cfile, yield_mode=False, seq=None):
    """LLVM IR -> C through our translator."""
    cmd = [PY, IR2C, ll]
    if yield_mode:
        cmd.append("--yield")
    if seq:
        cmd.append("--seq=" + seq)
    rc, out, err = sh(cmd, timeout=300)
    if rc != 0:
        raise EngineError("ir2c failed for %s:\n%s" % (ll, err[-3000:]))
    with open(cfile, "w") as f:
        f.write(out)
    shutil.copy(RT_H, os.path.join(os.path.dirname(cfile), "verif_rt.h"))
    return cfile


def differential(workdir, drv_c, gen_c, wrapper_cpp, extra_cxx=(), extra_c=(), runs=((),), timeout=120):
    """Validate the translation: gcc(drv + generated C) vs g++(drv + real wrapper) must print the same.
    drv_c is plain C calling the extern "C" kernels and printing results."""
    a = os.path.join(workdir, "diff_gen")
    b = os.path.join(workdir, "diff_real")
    rc, out, err = sh(["gcc", "-O1", "-w", "-I", HERE, "-I", workdir] + list(extra_c) + [drv_c, gen_c, "-o", a, "-lm"],
                      timeout=timeout)
    if rc != 0:
        raise EngineError("gcc build of generated C failed:\n" + err[-3000:])
    o = os.path.join(workdir, "diff_drv.o")
    rc, out, err = sh(["gcc", "-O1", "-w", "-I", HERE, "-I", workdir, "-c", drv_c, "-o", o] + list(extra_c), timeout=timeout)
    if rc != 0:
        raise EngineError("gcc build of driver failed:\n" + err[-3000:])
    rc, out, err = sh(["g++", "-std=c++17", "-O1", "-w", "-I", os.path.join(REPO, "src", "include"), "-I",
                       os.path.join(REPO, "src")] + list(extra_cxx) + [o, wrapper_cpp, "-o", b, "-lm", "-lpthread"],
                      timeout=timeout)
    if rc != 0:
        raise EngineError("g++ build of real wrapper failed:\n" + err[-3000:])
    n = 0
    for args in runs:
        ra = sh([a] + list(args), timeout=timeout)
        rb = sh([b] + list(args), timeout=timeout)
        if ra[0] != rb[0] or ra[1] != rb[1]:
            raise EngineError("translation validation failed (generated C vs real C++ differ) args=%s\n--- gen rc=%d\n%s\n--- real rc=%d\n%s"
                              % (args, ra[0], ra[1][-1500:], rb[0], rb[1][-1500:]))
        n += len(ra[1].splitlines())
    return n


class CbmcResult:
    def __init__(self):
        self.status = "error"     # success | failed | timeout | error | oom
        self.failed = []          # list of (property name, description)
        self.n_props = 0
        self.time = 0.0
        self.rss_mb = 0
        self.out = ""
        self.cmd = ""

    def trace_values(self, names):
        """Last assignment of each named variable in the printed counterexample trace."""
        vals = {}
        for nm in names:
            ms = re.findall(r"^\s*%s=(-?[0-9A-Za-z_.+'\\]+|'.*?')\s*(?:\(([01 ]+)\))?" % re.escape(nm), self.out, re.M)
            if ms:
                vals[nm] = ms[-1]
        return vals


def _limit(mem_gb):
    def f():
        b = int(mem_gb * (1 << 30))
        resource.setrlimit(resource.RLIMIT_AS, (b, b))
        os.setsid()
    return f


def cbmc(files, defines=(), unwind=None, unwindset=None, timeout=300, extra=(), mem_gb=12, trace=True, cwd=None,
         includes=()):
    """One CBMC query.  Always time- and memory-capped; a capped run is never success."""
    # caps are calibrated on an idle machine; VERIF_TIMEOUT_SCALE stretches them when the machine is shared
    timeout = int(timeout * float(os.environ.get("VERIF_TIMEOUT_SCALE", "3")))
    cmd = ["cbmc"] + list(files) + ["-I", HERE] + [x for i in includes for x in ("-I", i)]
    for d in defines:
        cmd += ["-D", d]
    if unwind is not None:
        cmd += ["--unwind", str(unwind)]
    if unwindset:
        cmd += ["--unwindset", ",".join("%s:%d" % kv for kv in unwindset.items())]
    cmd += CBMC_BASE + list(extra)
    if trace:
        cmd.append("--trace")
    r = CbmcResult()
    r.cmd = " ".join(cmd)
    t = time.time()
    try:
        p = subprocess.Popen(cmd, stdout=subprocess.PIPE, stderr=subprocess.STDOUT, text=True, errors="replace",
                             cwd=cwd, preexec_fn=_limit(mem_gb))
        try:
            out, _ = p.communicate(timeout=timeout)
        except subprocess.TimeoutExpired:
            try:
                os.killpg(p.pid, 9)
            except OSError:
                p.kill()
            out, _ = p.communicate()
            r.status = "timeout"
            r.out = out or ""
            r.time = time.time() - t
            return r
    except OSError as e:
        raise EngineError("cannot run cbmc: %s" % e)
    r.time = time.time() - t
    r.out = out
    props = re.findall(r"^\[([^\]]+)\] (.*): (SUCCESS|FAILURE)$", out, re.M)
    r.n_props = len(props)
    r.failed = [(n, d) for n, d, s in props if s == "FAILURE"]
    if "VERIFICATION SUCCESSFUL" in out:
        r.status = "success"
    elif "VERIFICATION FAILED" in out:
        r.status = "failed"
    elif "bad_alloc" in out or "Out of memory" in out or p.returncode in (-9, 137):
        r.status = "oom"
    else:
        r.status = "error"
    return r


class Obligation:
    """A harness + its -DWITNESS twin.  verdict: 'holds' | 'violated' | 'inconclusive'."""

    def __init__(self, name, files, defines=(), unwind=None, unwindset=None, timeout=300, extra=(), mem_gb=12,
                 witness=True, cwd=None, includes=(), meta=None, witness_marker="witness"):
        self.name = name
        self.files = files
        self.defines = list(defines)
        self.unwind = unwind
        self.unwindset = unwindset
        self.timeout = timeout
        self.extra = list(extra)
        self.mem_gb = mem_gb
        self.witness = witness
        self.cwd = cwd
        self.includes = includes
        self.meta = meta or {}
        self.witness_marker = witness_marker
        self.verdict = None
        self.res = None
        self.wres = None
        self.why = ""

    def run(self):
        kw = dict(defines=self.defines, unwind=self.unwind, unwindset=self.unwindset, timeout=self.timeout,
                  extra=self.extra, mem_gb=self.mem_gb, cwd=self.cwd, includes=self.includes)
        self.res = cbmc(self.files, **kw)
        if self.res.status == "failed":
            self.verdict = "violated"
            return self
        if self.res.status != "success":
            self.verdict = "inconclusive"
            self.why = "cbmc %s after %.0fs: %s" % (self.res.status, self.res.time, self.res.out[-400:].replace("\n", " | "))
            return self
        if self.witness:
            kw["defines"] = self.defines + ["WITNESS"]
            kw["trace"] = False
            self.wres = cbmc(self.files, **kw)
            wf = [n for n, d in self.wres.failed if self.witness_marker in d]
            if self.wres.status != "failed" or not wf or len(wf) != len(self.wres.failed):
                self.verdict = "inconclusive"
                self.why = "witness twin not reachable / not clean (status %s, failed %s): harness may be vacuous" % (
                    self.wres.status, self.wres.failed[:3])
                return self
        self.verdict = "holds"
        return self

    def sample(self):
        d = {"obligation": self.name, "verdict": self.verdict, "cbmc_s": round(self.res.time, 2) if self.res else None,
             "properties_checked": self.res.n_props if self.res else 0}
        if self.unwind is not None:
            d["unwind"] = self.unwind
        if self.unwindset:
            d["unwindset"] = self.unwindset
        if self.wres is not None:
            d["witness_reached"] = self.wres.status == "failed"
        d.update(self.meta)
        return d


def run_all(obls, jobs=None):
    jobs = jobs or max(1, common.NCPU - 1)
    with cf.ThreadPoolExecutor(max_workers=jobs) as ex:
        list(ex.map(lambda o: o.run(), obls))
    return obls


def extract_between(text, start_pat, end_pat, what):
    """Verbatim source slice [start, end) by regex anchors; failing to find them is an engine error."""
    m = re.search(start_pat, text, re.S)
    if not m:
        raise EngineError("slice anchor not found (%s): %s" % (what, start_pat))
    m2 = re.compile(end_pat, re.S).search(text, m.end())
    if not m2:
        raise EngineError("slice end anchor not found (%s): %s" % (what, end_pat))
    return text[m.start():m2.start()], m.start(), m2.end()


def extract_braced(text, start_pat, what):
    """From the match of start_pat, take text up to the matching closing brace of the first '{' after it."""
    m = re.search(start_pat, text, re.S)
    if not m:
        raise EngineError("function anchor not found (%s): %s" % (what, start_pat))
    i = text.index("{", m.end() - 1) if text[m.end() - 1] != "{" else m.end() - 1
    depth = 0
    j = i
    in_str = None
    while j < len(text):
        c = text[j]
        if in_str:
            if c == "\\":
                j += 1
            elif c == in_str:
                in_str = None
        elif c in "\"'":
            in_str = c
        elif c == "/" and text[j:j + 2] == "//":
            j = text.index("\n", j)
        elif c == "/" and text[j:j + 2] == "/*":
            j = text.index("*/", j) + 1
        elif c == "{":
            depth += 1
        elif c == "}":
            depth -= 1
            if depth == 0:
                return text[m.start():j + 1]
        j += 1
    raise EngineError("unbalanced braces (%s)" % what)


def save_replay(pid, name, files_dict):
    d = os.path.join(common.VERIF, "replays", pid, re.sub(r"[^A-Za-z0-9_.-]", "_", name))
    os.makedirs(d, exist_ok=True)
    for fn, content in files_dict.items():
        with open(os.path.join(d, fn), "w") as f:
            f.write(content)
    return d


def schedule_from_trace(out):
    """Thread id of every atomic step, in execution order, from a CBMC --trace of a -DVERIF_SCHEDLOG run
    (each atomic step stores to verif_step; the State header names the executing thread)."""
    sched = []
    cur = None
    for line in out.splitlines():
        m = re.match(r"^State \d+ .*thread (\d+)", line)
        if m:
            cur = m.group(1)
            continue
        if re.match(r"^\s*verif_step=1\b", line) and cur is not None:
            sched.append(cur)
    return "".join(sched)

"""C29 — lock-free union-find (engine K).

Real code: souffle::DisjointSet::{findNode, updateRoot, unionNodes, sameSet, makeNode} from
src/include/souffle/datastructure/UnionFind.h with the real PiggyList::get / createNode inlined
(src/include/souffle/datastructure/PiggyList.h), parallel variants (-D_OPENMP), lowered by clang, translated to C.

(a) seq   : one operation from EVERY valid forest over N nodes (symbolic blocks): exact partition update,
            invariant preserved, find = root, sameSet = partition.
(b) rg    : (thorough) the same operation with <= E environment interferences between its atomic steps
            (rely/guarantee); every own CAS must satisfy the guarantee.
(c) thr   : (thorough) 2 CBMC threads x 1 operation each, all interleavings, roles enumerated outside.
"""
import itertools
import os
import re
import time

from vlib import common
from vlib.common import EngineError, log, sh
from . import kcommon as K

PID = "C29"
SRC_UF = "src/include/souffle/datastructure/UnionFind.h"
SRC_PL = "src/include/souffle/datastructure/PiggyList.h"

WRAPPER = r'''
#define _OPENMP 201511
#include "souffle/datastructure/UnionFind.h"
using namespace souffle;
extern "C" {
__attribute__((noinline)) void ds_init(DisjointSet* d){ new (d) DisjointSet(); }
__attribute__((noinline)) uint64_t ds_make(DisjointSet* d){ return DisjointSet::b2p(d->makeNode()); }
__attribute__((noinline)) uint64_t ds_block(DisjointSet* d, uint64_t x){ return d->get(x).load(); }
__attribute__((noinline)) void ds_set(DisjointSet* d, uint64_t x, uint64_t v){ d->get(x).store(v); }
__attribute__((noinline,flatten)) uint64_t ds_find(DisjointSet* d, uint64_t x){ return d->findNode(x); }
__attribute__((noinline,flatten)) void ds_union(DisjointSet* d, uint64_t x, uint64_t y){ d->unionNodes(x,y); }
__attribute__((noinline,flatten)) bool ds_same(DisjointSet* d, uint64_t x, uint64_t y){ return d->sameSet(x,y); }
}
'''

# Shared specification text (plain C; used by the CBMC harnesses AND by the native replays of the real C++).
SPEC = r'''
#define P(b) ((b)>>8)
#define R(b) ((uint8_t)((b)&255))
#ifndef RMAX
#define RMAX 200
#endif
static int rbound(const uint64_t* b){ for (int i=0;i<NN;i++) if (R(b[i])>RMAX) return 0; return 1; }
static int wf(const uint64_t* b){ for (int i=0;i<NN;i++) if (P(b[i])>=NN) return 0; return 1; }
static uint64_t rootof(const uint64_t* b, uint64_t x){ for (int k=0;k<NN;k++){ if (P(b[x])==x) return x; x=P(b[x]); } return x; }
/* observable: parent links form a forest (no cycle other than a root's self loop) */
static int acyclic(const uint64_t* b){ if (!wf(b)) return 0; for (int i=0;i<NN;i++){ uint64_t r=rootof(b,i); if (P(b[r])!=r) return 0; } return 1; }
/* Forest invariant with ghost "true rank" t[i] = rank the node had when it stopped being a root (the real unionNodes
   overwrites the rank field of the linked node with the rank it read for the new parent, so the field of a non-root is
   only an upper bound): roots: t == rank field; non-root x with parent p: t[x] <= field[x] and (t[p],p) > (t[x],x)
   lexicographically.  The strict order along parent links implies acyclicity. */
static int inv(const uint64_t* b, const uint8_t* t){ for (int i=0;i<NN;i++){ uint64_t p=P(b[i]); if (p>=NN) return 0;
  if (p==(uint64_t)i){ if (t[i]!=R(b[i])) return 0; }
  else {
#if MODEL_LINK_RANK == 1
    if (t[i]>R(b[i])) return 0;      /* the link overwrites the rank field with the rank read for the new parent: field is an upper bound */
#else
    if (t[i]!=R(b[i])) return 0;     /* the link keeps the node's own rank: field == true rank */
#endif
    if (!(t[p]>t[i] || (t[p]==t[i] && p>(uint64_t)i))) return 0; } } return 1; }
/* ghost update across one CAS or one whole sequential operation */
static void ghost_step(const uint64_t* o, const uint64_t* n, const uint8_t* t, uint8_t* t2){
  for (int i=0;i<NN;i++) t2[i] = P(n[i])==(uint64_t)i ? R(n[i]) : (P(o[i])==(uint64_t)i ? R(o[i]) : t[i]); }
/* rely = guarantee (reflexive, transitive, ghost free): classes are never split; a non-root never becomes a root again and
   keeps its rank field; the rank of a root never decreases */
static int rely(const uint64_t* o, const uint64_t* n){
  if (!wf(n)) return 0;
  for (int i=0;i<NN;i++){
    if (P(o[i])!=(uint64_t)i){ if (P(n[i])==(uint64_t)i) return 0; if (R(n[i])!=R(o[i])) return 0; }
    else if (R(n[i])<R(o[i])) return 0; }      /* the rank field of a root never decreases, not even by the CAS that links it */
  uint64_t ro[NN], rn[NN]; for (int i=0;i<NN;i++){ ro[i]=rootof(o,i); rn[i]=rootof(n,i); }
  for (int i=0;i<NN;i++) for (int j=0;j<NN;j++) if (ro[i]==ro[j] && rn[i]!=rn[j]) return 0;
  return 1; }
/* reference model of the SEQUENTIAL operations on a plain array (used as "a complete operation of another thread";
   proved equal to the real kernel from every valid state in the seq obligations) */
static uint64_t m_find(uint64_t* b, uint64_t x){ for (int k=0;k<NN;k++){ if (P(b[x])==x) return x; uint64_t xs=b[x]; uint64_t np=P(b[P(xs)]); b[x]=(np<<8)|R(xs); x=np; } return x; }
static void m_union(uint64_t* b, uint64_t x, uint64_t y){
  x=m_find(b,x); y=m_find(b,y); if (x==y) return;
  uint8_t xr=R(b[x]), yr=R(b[y]);
  if (xr>yr || (xr==yr && x>y)) { uint64_t tx=x; x=y; y=tx; uint8_t tr=xr; xr=yr; yr=tr; }
#if MODEL_LINK_RANK == 1
  b[x]=(y<<8)|yr;   /* the linked node's rank field is overwritten with the rank read for its new parent */
#else
  b[x]=(y<<8)|xr;   /* the linked node keeps its own rank */
#endif
  if (xr==yr) b[y]=(y<<8)|(uint8_t)(yr+1);
}
static int m_same(uint64_t* b, uint64_t x, uint64_t y){ x=m_find(b,x); y=m_find(b,y); return x==y; }
static void merge_cls(int* cls, uint64_t a, uint64_t b){ int ca=cls[a], cb=cls[b]; for (int i=0;i<NN;i++) if (cls[i]==cb) cls[i]=ca; }
'''
GEN_NATIVE = r'''
/* native build of the IR-derived C for the differential run: operator new[] -> calloc */
#include <stdlib.h>
#include <stdint.h>
#define VERIF_NO_EXTERN_DECLS
uint8_t* _Znam(uint64_t n){ return (uint8_t*)calloc(n, 1); }
#include <sched.h>
#define sched_yield verif_sched_yield_
static uint32_t verif_sched_yield_(void){ return 0; }
#define __dso_handle verif_dso_handle_
#include "uf_k.c"
'''

DRIVER = r'''
#include <stdio.h>
#include <stdint.h>
#include <stdlib.h>
void ds_init(void*); uint64_t ds_make(void*); uint64_t ds_block(void*, uint64_t); void ds_set(void*, uint64_t, uint64_t);
uint64_t ds_find(void*, uint64_t); void ds_union(void*, uint64_t, uint64_t); uint8_t ds_same(void*, uint64_t, uint64_t);
int main(int argc, char** argv){
  unsigned s = argc > 1 ? (unsigned)atoi(argv[1]) : 1; int n = argc > 2 ? atoi(argv[2]) : 12;
  void* d = calloc(1, 4096);
  ds_init(d);
  for (int i = 0; i < n; i++) printf("make %llu\n", (unsigned long long)ds_make(d));
  for (int k = 0; k < 600; k++) {
    s = s * 1103515245u + 12345u; unsigned op = (s >> 16) % 3;
    s = s * 1103515245u + 12345u; unsigned x = (s >> 16) % n;
    s = s * 1103515245u + 12345u; unsigned y = (s >> 16) % n;
    if (op == 0) { ds_union(d, x, y); printf("u %u %u\n", x, y); }
    else if (op == 1) printf("s %u %u %d\n", x, y, ds_same(d, x, y));
    else printf("f %u %llu\n", x, (unsigned long long)ds_find(d, x));
    if (k % 16 == 0) { for (int i = 0; i < n; i++) printf(" %llx", (unsigned long long)ds_block(d, i)); printf("\n"); }
  }
  for (int i = 0; i < n; i++) printf(" %llx", (unsigned long long)ds_block(d, i)); printf("\n");
  return 0;
}
'''

COMMON_HEAD = r'''
#define VERIF_NO_EXTERN_DECLS
#include <stdint.h>
#include <stdlib.h>
#include "verif_rt.h"
uint32_t sched_yield(void){ __CPROVER_assume(0); return 0; }
/* operator new[] -> one small typed static pool (first PiggyList block); bounds checks stay on */
static uint64_t pool[8]; int pool_used = 0;
uint8_t* _Znam(uint64_t n){ __CPROVER_assert(!pool_used, "single allocation"); pool_used = 1; return (uint8_t*)pool; }
uint64_t nondet_u64(void); uint8_t nondet_u8(void);
/* the -DWITNESS twin checks reachability of the end of the harness only */
#ifdef WITNESS
#define VASSERT(c, m) ((void)0)
#else
#define VASSERT(c, m) __CPROVER_assert(c, m)
#endif
/* llvm.ctlz.i64 in PiggyList::get: all indices stay inside the first block (65536 + index, index < 8), where the result is 47;
   the precondition is asserted at every use, so the shortcut is checked, not assumed */
static inline unsigned c29_ctlz64(uint64_t x){ __CPROVER_assert(x >= 65536ul && x < 65536ul + 8ul, "block index inside the first PiggyList block (ctlz shortcut precondition)"); return 47u; }
#define verif_ctlz64(x) c29_ctlz64(x)
'''

# (a) one operation from an arbitrary valid forest ------------------------------------------------------------
H_SEQ = COMMON_HEAD + r'''
#include "uf_k.c"
''' + SPEC + r'''
struct S__class_souffle__DisjointSet_ D;
uint64_t in_b0, in_b1, in_b2, in_b3, in_x, in_y; uint8_t in_t0, in_t1, in_t2, in_t3;
int main(){
  ds_init(&D);
  for (int i=0;i<NN;i++) ds_make(&D);
  uint64_t s0[4] = {0,0,0,0}; uint8_t t0[4] = {0,0,0,0}; for (int i=0;i<NN;i++){ s0[i]=nondet_u64(); t0[i]=nondet_u8(); }
  __CPROVER_assume(inv(s0,t0) && rbound(s0)); for (int i=0;i<NN;i++) pool[i]=s0[i];
  uint64_t x=nondet_u64(), y=nondet_u64(); __CPROVER_assume(x<NN && y<NN);
  in_b0 = s0[0]; in_b1 = s0[1]; in_b2 = s0[2]; in_b3 = s0[3]; in_x = x; in_y = y;
  in_t0 = t0[0]; in_t1 = t0[1]; in_t2 = t0[2]; in_t3 = t0[3];
  uint64_t r0[NN]; for (int i=0;i<NN;i++) r0[i]=rootof(s0,i);
  uint64_t mb[NN]; for (int i=0;i<NN;i++) mb[i]=s0[i];
#if OP==0
  ds_union(&D,x,y); m_union(mb,x,y);
#elif OP==1
  uint8_t r = ds_same(&D,x,y);
  __CPROVER_assert(r == (r0[x]==r0[y]), "sameSet agrees with partition");
  __CPROVER_assert((r!=0) == (m_same(mb,x,y)!=0), "real kernel = sequential reference model (result)");
#else
  uint64_t f = ds_find(&D,x);
  __CPROVER_assert(f == r0[x], "find returns the root");
  __CPROVER_assert(f == m_find(mb,x), "real kernel = sequential reference model (result)");
#endif
  uint64_t s1[NN]; uint8_t t1[NN]; for (int i=0;i<NN;i++) s1[i]=pool[i];
  for (int i=0;i<NN;i++) __CPROVER_assert(s1[i]==mb[i], "real kernel = sequential reference model (blocks)");
  __CPROVER_assert(acyclic(s1), "parent links form no cycle other than a root's self loop");
  if (acyclic(s1)) {
  ghost_step(s0,s1,t0,t1);
  __CPROVER_assert(inv(s1,t1), "forest invariant (rank/id order on true ranks) preserved");
  __CPROVER_assert(rely(s0,s1), "ranks never decrease, non-roots stay non-roots, classes are not split");
  uint64_t r1[NN]; for (int i=0;i<NN;i++) r1[i]=rootof(s1,i);
  for (int i=0;i<NN;i++) for (int j=0;j<NN;j++) {
    int before = (r0[i]==r0[j]);
#if OP==0
    int expect = before || ((r0[i]==r0[x]||r0[i]==r0[y]) && (r0[j]==r0[x]||r0[j]==r0[y]));
#else
    int expect = before;
#endif
    __CPROVER_assert((r1[i]==r1[j]) == expect, "partition updated exactly as specified");
  }
  }
#ifdef WITNESS
  __CPROVER_assert(0, "witness");
#endif
  return 0; }
'''

# native replay of (a) against the REAL C++ (g++ build of the wrapper with the real headers)
REPLAY_SEQ = WRAPPER + r'''
#include <cstdio>
#include <cstdlib>
#ifndef NN
#error NN
#endif
''' + SPEC + r'''
#define CHECK(c, msg) do { if (!(c)) { printf("ASSERTION-FAILED: %s\n", msg); fflush(stdout); fails++; } } while (0)
int main(int argc, char** argv){
  /* argv: op x y b0 .. b(NN-1) t0 .. t(NN-1) */
  int fails = 0;
  int op = atoi(argv[1]); uint64_t x = strtoull(argv[2],0,0), y = strtoull(argv[3],0,0);
  uint64_t s0[NN], s1[NN], r0[NN]; uint8_t t0[NN], t1[NN];
  for (int i=0;i<NN;i++) s0[i] = strtoull(argv[4+i],0,0);
  for (int i=0;i<NN;i++) t0[i] = (uint8_t)strtoull(argv[4+NN+i],0,0);
  if (!inv(s0,t0) || !rbound(s0) || x>=NN || y>=NN) { printf("precondition does not hold\n"); return 4; }
  static DisjointSet D;
  for (int i=0;i<NN;i++) D.makeNode();
  for (int i=0;i<NN;i++) ds_set(&D, i, s0[i]);
  for (int i=0;i<NN;i++) r0[i]=rootof(s0,i);
  if (op==0) ds_union(&D,x,y);
  else if (op==1) { bool r = ds_same(&D,x,y); CHECK(r == (r0[x]==r0[y]), "sameSet agrees with partition"); }
  else { uint64_t f = ds_find(&D,x); CHECK(f == r0[x], "find returns the root"); }
  for (int i=0;i<NN;i++) s1[i]=ds_block(&D,i);
  CHECK(acyclic(s1), "parent links form no cycle other than a root's self loop");
  if (acyclic(s1)) {
    ghost_step(s0,s1,t0,t1);
    CHECK(inv(s1,t1), "forest invariant (rank/id order on true ranks) preserved");
    CHECK(rely(s0,s1), "ranks never decrease, non-roots stay non-roots, classes are not split");
    for (int i=0;i<NN;i++) for (int j=0;j<NN;j++) {
      int before = (r0[i]==r0[j]);
      int expect = op==0 ? (before || ((r0[i]==r0[x]||r0[i]==r0[y]) && (r0[j]==r0[x]||r0[j]==r0[y]))) : before;
      CHECK((rootof(s1,i)==rootof(s1,j)) == expect, "partition updated exactly as specified");
    }
  }
  printf("before:"); for (int i=0;i<NN;i++) printf(" %llx", (unsigned long long)s0[i]);
  printf(" after:"); for (int i=0;i<NN;i++) printf(" %llx", (unsigned long long)s1[i]); printf("\n");
  if (fails) return 3;
  printf("replay finished without assertion failure\n");
  return 0;
}
'''

# (b1) context-bounded interference by REAL operations ------------------------------------------------------------
# The operation under test runs from the --yield translation (VERIF_YIELD() before each of its atomic block accesses).
# At <= ENV of those points another thread's complete operation (the same real kernel, non-yield translation, renamed
# env_*) runs with symbolic arguments.  Observable assertions only (cycle, class split, closure, answers).
CONC_COMMON = r'''
struct S__class_souffle__DisjointSet_ D;
int started = 0; int budget = ENV; int ycount = 0;
uint64_t ghost_prev[NN];   /* shared blocks after the last step (own CAS or environment) */
uint8_t gt[NN];            /* ghost true ranks */
uint64_t init[NN]; uint8_t tinit[NN];
int cls[NN];               /* specification: closure of the initial partition and all requested unions */
uint64_t gx, gy;
int stale_rank_used = 0;   /* the operation linked x under a node using a rank larger than that node's true rank */
uint64_t in_b0, in_b1, in_b2, in_b3, in_x, in_y; uint8_t in_t0, in_t1, in_t2, in_t3;
int env_at0 = -1, env_at1 = -1; uint64_t env_u0, env_v0, env_u1, env_v1;
uint64_t env_b00, env_b01, env_b02, env_b03, env_b10, env_b11, env_b12, env_b13;
static uint64_t cur_[4], rp_[4], rc_[4]; static uint8_t t2_[4];
void own_step(void){
  if (!started) return;
  for (int i=0;i<NN;i++) cur_[i]=pool[i];
  /* known class: stale rank field used as the rank of the link target */
  for (int i=0;i<NN;i++) if (P(ghost_prev[i])==(uint64_t)i && P(cur_[i])!=(uint64_t)i && P(cur_[i])<NN) {
    if (R(cur_[i]) > gt[P(cur_[i])]) stale_rank_used = 1;
  }
#ifdef EXCL_KNOWN
  __CPROVER_assume(!stale_rank_used);
#endif
  int ac = acyclic(cur_);
  __CPROVER_assert(ac, "own CAS: parent links form no cycle other than a root's self loop");
  if (ac) {
    int g = 1, mg = 1;
    for (int i=0;i<NN;i++){ rp_[i]=rootof(ghost_prev,i); rc_[i]=rootof(cur_,i); }
    for (int i=0;i<NN;i++){
      if (P(ghost_prev[i])!=(uint64_t)i){ if (P(cur_[i])==(uint64_t)i) g=0; if (R(cur_[i])!=R(ghost_prev[i])) g=0; }
      else if (R(cur_[i])<R(ghost_prev[i])) g=0; }
    for (int i=0;i<NN;i++) for (int j=0;j<NN;j++) {
      int before = rp_[i]==rp_[j], after = rc_[i]==rc_[j];
      if (before && !after) g=0;
#if OP==0
      uint64_t rx = rp_[gx], ry = rp_[gy], ri = rp_[i], rj = rp_[j];
      if (!(after == before || (!before && after && (ri==rx||ri==ry) && (rj==rx||rj==ry)))) mg=0;
#else
      if (after != before) mg=0;
#endif
    }
    __CPROVER_assert(g, "own CAS satisfies the guarantee (no class split, non-roots stay non-roots with frozen rank, no rank ever decreases)");
#if OP==0
    __CPROVER_assert(mg, "own CAS merges only the classes of x and y");
#else
    __CPROVER_assert(mg, "find/sameSet never change the partition");
#endif
    ghost_step(ghost_prev,cur_,gt,t2_);
#ifdef GHOSTINV
    __CPROVER_assert(inv(cur_,t2_), "own CAS preserves the forest invariant (rank/id order on true ranks)");
#endif
    for (int i=0;i<NN;i++) gt[i]=t2_[i];
  }
  for (int i=0;i<NN;i++) ghost_prev[i]=cur_[i];
}
static void setup(void){
  ds_init(&D);
  for (int i=0;i<NN;i++) ds_make(&D);
  for (int i=0;i<NN;i++){ init[i]=nondet_u64(); tinit[i]=nondet_u8(); }
  __CPROVER_assume(inv(init,tinit) && rbound(init)); for (int i=0;i<NN;i++){ pool[i]=init[i]; ghost_prev[i]=init[i]; gt[i]=tinit[i]; cls[i]=(int)rootof(init,i); }
  gx=nondet_u64(); gy=nondet_u64(); __CPROVER_assume(gx<NN && gy<NN);
  uint64_t pad[4] = {0,0,0,0}; uint8_t tpad[4] = {0,0,0,0}; for (int i=0;i<NN;i++){ pad[i]=init[i]; tpad[i]=tinit[i]; }
  in_b0=pad[0]; in_b1=pad[1]; in_b2=pad[2]; in_b3=pad[3]; in_t0=tpad[0]; in_t1=tpad[1]; in_t2=tpad[2]; in_t3=tpad[3]; in_x=gx; in_y=gy;
}
static void run_op(void){
  uint64_t x = gx, y = gy;
  started = 1;
#if OP==0
  merge_cls(cls, x, y);
  ds_union(&D,x,y);
  started = 0;
  __CPROVER_assert(rootof(ghost_prev,x)==rootof(ghost_prev,y), "after union x~y");
#elif OP==1
  uint8_t r = ds_same(&D,x,y);
  started = 0;
  if (r) __CPROVER_assert(rootof(ghost_prev,x)==rootof(ghost_prev,y), "sameSet true => related at return");
  else __CPROVER_assert(rootof(init,x)!=rootof(init,y), "sameSet false => unrelated at some instant of the call (partition only coarsens: at its start)");
#else
  uint64_t f = ds_find(&D,x);
  started = 0;
  __CPROVER_assert(f<NN && rootof(ghost_prev,f)==rootof(ghost_prev,x), "find returns a member of x's class");
#endif
  for (int i=0;i<NN;i++) __CPROVER_assert(pool[i]==ghost_prev[i], "ghost state tracks the shared blocks");
}
'''

H_PRE = COMMON_HEAD + r'''
void env_step(void);
void own_step(void);
/* every atomic block access of the kernels is preceded by VERIF_YIELD_AT(k), k = static site number;
   -DSITE=k restricts the interference to that site (all its dynamic occurrences) */
extern int started; extern int ycount;   /* dynamic index of the atomic block access (all sites), as counted by the native replay hook */
#if defined(SITE_LO)
#define VERIF_YIELD_AT(k) { if (started) ycount++; if ((k) >= SITE_LO && (k) <= SITE_HI) env_step(); }
#elif defined(SITE)
#define VERIF_YIELD_AT(k) { if (started) ycount++; if ((k) == SITE) env_step(); }
#else
#define VERIF_YIELD_AT(k) { if (started) ycount++; env_step(); }
#endif
#undef VERIF_CMPXCHG
#define VERIF_CMPXCHG(T, dst, p, e, n) { T _o = *(p); (dst).f0 = _o; if (_o == (e)) { *(p) = (n); (dst).f1 = 1; own_step(); } else (dst).f1 = 0; }
#include "uf_ys.c"
''' + SPEC + CONC_COMMON + r'''
void env_step(void){
  if (!started) return;
  if (budget>0 && nondet_u8()){
    int e = ENV - budget; budget--; started = 0;
    uint64_t u=nondet_u64(), v=nondet_u64(); __CPROVER_assume(u<NN && v<NN);
    uint64_t* cur = cur_; uint8_t* t2 = t2_; for (int i=0;i<NN;i++) cur[i]=pool[i];
#if EOP==0
    m_union(cur,u,v); merge_cls(cls,u,v);
#else
    m_find(cur,u); v = 0;
#endif
    for (int i=0;i<NN;i++) pool[i]=cur[i];
    ghost_step(ghost_prev,cur,gt,t2);
    for (int i=0;i<NN;i++){ ghost_prev[i]=cur[i]; gt[i]=t2[i]; }
    if (e==0){ env_at0=ycount; env_u0=u; env_v0=v; env_b00=cur[0]; env_b01=cur[1]; env_b02=cur[2]; env_b03=cur[3]; }
    else { env_at1=ycount; env_u1=u; env_v1=v; env_b10=cur[0]; env_b11=cur[1]; env_b12=cur[2]; env_b13=cur[3]; }
    started = 1;
  }
}
int main(){
  setup();
  run_op();
  __CPROVER_assert(acyclic(ghost_prev), "final parent links form no cycle");
  if (acyclic(ghost_prev)) { for (int i=0;i<NN;i++) rc_[i]=rootof(ghost_prev,i); for (int i=0;i<NN;i++) for (int j=0;j<NN;j++)
    __CPROVER_assert((rc_[i]==rc_[j]) == (cls[i]==cls[j]), "final partition is exactly the closure of the requested unions"); }
#ifdef WITNESS
  __CPROVER_assert(budget != 0, "witness");
#endif
  return 0;
}
'''

# (b2) rely/guarantee with an ABSTRACT environment: <= ENV arbitrary state changes satisfying inv and rely ----------
H_RG = COMMON_HEAD + r'''
void env_step(void);
void own_step(void);
/* every atomic block access of the kernels is preceded by VERIF_YIELD_AT(k), k = static site number;
   -DSITE=k restricts the interference to that site (all its dynamic occurrences) */
extern int started; extern int ycount;   /* dynamic index of the atomic block access (all sites), as counted by the native replay hook */
#if defined(SITE_LO)
#define VERIF_YIELD_AT(k) { if (started) ycount++; if ((k) >= SITE_LO && (k) <= SITE_HI) env_step(); }
#elif defined(SITE)
#define VERIF_YIELD_AT(k) { if (started) ycount++; if ((k) == SITE) env_step(); }
#else
#define VERIF_YIELD_AT(k) { if (started) ycount++; env_step(); }
#endif
#undef VERIF_CMPXCHG
#define VERIF_CMPXCHG(T, dst, p, e, n) { T _o = *(p); (dst).f0 = _o; if (_o == (e)) { *(p) = (n); (dst).f1 = 1; own_step(); } else (dst).f1 = 0; }
#include "uf_ys.c"
#define GHOSTINV 1
''' + SPEC + CONC_COMMON + r'''
int env_taken = 0;
void env_step(void){
  if (!started) return;
  if (budget>0 && nondet_u8()){ budget--; env_taken++;
    uint64_t* n = cur_; uint8_t* t2 = t2_; for (int i=0;i<NN;i++){ n[i]=nondet_u64(); t2[i]=nondet_u8(); }
    __CPROVER_assume(inv(n,t2) && rbound(n) && rely(ghost_prev,n));
    /* ghost relation of environment steps: non-roots keep their true rank; a root that was linked got a true rank >= its old rank */
    for (int i=0;i<NN;i++){ if (P(ghost_prev[i])!=(uint64_t)i) __CPROVER_assume(t2[i]==gt[i]); else __CPROVER_assume(t2[i]>=R(ghost_prev[i])); }
    for (int i=0;i<NN;i++){ pool[i]=n[i]; ghost_prev[i]=n[i]; gt[i]=t2[i]; } }
}
int main(){
  setup();
  run_op();
#ifdef WITNESS
  __CPROVER_assert(env_taken != ENV, "witness");
#endif
  return 0;
}
'''

# (c) two native CBMC threads, one operation each, all interleavings (SC) -----------------------------------------
H_THR = COMMON_HEAD + r'''
#include "uf_k.c"
''' + SPEC + r'''
struct S__class_souffle__DisjointSet_ D;
uint64_t a1,b1,a2,b2; uint8_t s1, s2; uint64_t f1, f2;
uint64_t in_b0, in_b1, in_b2, in_b3; uint8_t in_t0, in_t1, in_t2, in_t3;
int done1 = 0;
/* CBMC's concurrency mode rejects dereferences of pointers with several possible targets: after the spawn the
   specification works on two fixed global arrays (A0 initial, A1 final) without pointer parameters */
uint64_t A0[4], A1[4], RT0[4], RT1[4]; int cls[4], cls0[4];
static uint64_t root0(uint64_t x){ for (int k=0;k<NN;k++){ if (P(A0[x])==x) return x; x=P(A0[x]); } return x; }
static uint64_t root1(uint64_t x){ for (int k=0;k<NN;k++){ if (P(A1[x])==x) return x; x=P(A1[x]); } return x; }
static void merge_g(uint64_t a, uint64_t b){ int ca=cls[a], cb=cls[b]; for (int i=0;i<NN;i++) if (cls[i]==cb) cls[i]=ca; }
#define OPX(role, a, b, s, f) do { if ((role)==0) ds_union(&D,a,b); else if ((role)==1) s = ds_same(&D,a,b); else f = ds_find(&D,a); } while (0)
void t1(void){ OPX(R1,a1,b1,s1,f1); __CPROVER_atomic_begin(); done1 = 1; __CPROVER_atomic_end(); }
int main(){
  ds_init(&D);
  for (int i=0;i<NN;i++) ds_make(&D);
  static uint64_t s0[4] = {0,0,0,0}; static uint8_t t0[4] = {0,0,0,0};   /* static: no __CPROVER_dead_object update at scope exit */
#ifdef FRESH
  for (int i=0;i<NN;i++) s0[i]=pool[i];
#else
  for (int i=0;i<NN;i++){ s0[i]=nondet_u64(); t0[i]=nondet_u8(); }
  __CPROVER_assume(inv(s0,t0) && rbound(s0)); for (int i=0;i<NN;i++) pool[i]=s0[i];
#endif
  in_b0=s0[0]; in_b1=s0[1]; in_b2=s0[2]; in_b3=s0[3]; in_t0=t0[0]; in_t1=t0[1]; in_t2=t0[2]; in_t3=t0[3];
  A0[0]=s0[0]; A0[1]=s0[1]; A0[2]=s0[2]; A0[3]=s0[3];
  a1=nondet_u64(); b1=nondet_u64(); a2=nondet_u64(); b2=nondet_u64();
  __CPROVER_assume(a1<NN && b1<NN && a2<NN && b2<NN);
  __CPROVER_ASYNC_1: t1();
  OPX(R2,a2,b2,s2,f2);
  __CPROVER_assume(done1 == 1);
  for (int i=0;i<NN;i++) A1[i]=pool[i];
  int wf1 = 1; for (int i=0;i<NN;i++) if (P(A1[i])>=NN) wf1 = 0;
  int ac = wf1;
  if (wf1) for (int i=0;i<NN;i++){ RT1[i]=root1(i); if (P(A1[RT1[i]])!=RT1[i]) ac = 0; }
  __CPROVER_assert(ac, "final parent links form no cycle");
  for (int i=0;i<NN;i++){ RT0[i]=root0(i); cls[i]=(int)RT0[i]; cls0[i]=cls[i]; }
  if (R1==0) merge_g(a1,b1);
  if (R2==0) merge_g(a2,b2);
  if (ac) {
    int g = 1;
    for (int i=0;i<NN;i++){
      if (P(A0[i])!=(uint64_t)i){ if (P(A1[i])==(uint64_t)i) g=0; if (R(A1[i])!=R(A0[i])) g=0; }
      else if (R(A1[i])<R(A0[i])) g=0; }
    for (int i=0;i<NN;i++) for (int j=0;j<NN;j++) if (RT0[i]==RT0[j] && RT1[i]!=RT1[j]) g=0;
    __CPROVER_assert(g, "no class split, non-roots stay non-roots with frozen rank, root ranks monotone");
    for (int i=0;i<NN;i++) for (int j=0;j<NN;j++)
      __CPROVER_assert((RT1[i]==RT1[j]) == (cls[i]==cls[j]), "final partition is exactly the closure of the requested unions");
  }
  if (R1==1){ if (s1) __CPROVER_assert(cls[a1]==cls[b1], "sameSet true => related at return"); else __CPROVER_assert(cls0[a1]!=cls0[b1], "sameSet false => unrelated at some instant of the call (partition only coarsens: at its start)"); }
  if (R2==1){ if (s2) __CPROVER_assert(cls[a2]==cls[b2], "sameSet true => related at return"); else __CPROVER_assert(cls0[a2]!=cls0[b2], "sameSet false => unrelated at some instant of the call (partition only coarsens: at its start)"); }
  if (R1==2) __CPROVER_assert(f1<NN && cls[f1]==cls[a1], "find returns a member of x's class");
  if (R2==2) __CPROVER_assert(f2<NN && cls[f2]==cls[a2], "find returns a member of x's class");
#ifdef WITNESS
  __CPROVER_assert(0, "witness");
#endif
  return 0;
}
'''

# native replay of concurrent counterexamples on the REAL C++: std::atomic is shimmed (hooked_atomic) so that the real
# source text of UnionFind.h/PiggyList.h runs natively with a hook before every atomic block access; at the recorded
# access index the other thread's complete REAL operation is executed (a genuine SC interleaving of the real code).
REPLAY_CONC = r'''
#include <atomic>
#include <cstdint>
#include <cstdio>
#include <cstdlib>
#include <cstring>
#include <memory>
#include <mutex>
#include <thread>
#include <condition_variable>
#include <functional>
#include <string>
#include <iostream>
#include <sstream>
#include <map>
#include <set>
#include <vector>
#include <array>
#include <list>
#include <algorithm>
extern "C" void verif_hook_access(const void* addr);
extern "C" void verif_hook_cas_done(const void* addr, bool ok);
namespace std {
template <class T> struct hooked_atomic {
  atomic<T> a;
  hooked_atomic() noexcept = default;
  constexpr hooked_atomic(T v) noexcept : a(v) {}
  hooked_atomic(const hooked_atomic&) = delete;
  hooked_atomic& operator=(const hooked_atomic&) = delete;
  operator T() const noexcept { return load(); }
  T operator=(T v) noexcept { store(v); return v; }
  T load(memory_order m = memory_order_seq_cst) const noexcept { verif_hook_access(this); return a.load(m); }
  void store(T v, memory_order m = memory_order_seq_cst) noexcept { verif_hook_access(this); a.store(v, m); }
  bool compare_exchange_strong(T& e, T d, memory_order m = memory_order_seq_cst) noexcept { verif_hook_access(this); bool ok = a.compare_exchange_strong(e, d, m); verif_hook_cas_done(this, ok); return ok; }
  bool compare_exchange_strong(T& e, T d, memory_order s, memory_order f) noexcept { verif_hook_access(this); bool ok = a.compare_exchange_strong(e, d, s, f); verif_hook_cas_done(this, ok); return ok; }
  bool compare_exchange_weak(T& e, T d, memory_order m = memory_order_seq_cst) noexcept { return compare_exchange_strong(e, d, m); }
  bool compare_exchange_weak(T& e, T d, memory_order s, memory_order f) noexcept { return compare_exchange_strong(e, d, s, f); }
  T fetch_add(T v, memory_order m = memory_order_seq_cst) noexcept { return a.fetch_add(v, m); }
  T fetch_sub(T v, memory_order m = memory_order_seq_cst) noexcept { return a.fetch_sub(v, m); }
  T fetch_or(T v, memory_order m = memory_order_seq_cst) noexcept { return a.fetch_or(v, m); }
  T fetch_and(T v, memory_order m = memory_order_seq_cst) noexcept { return a.fetch_and(v, m); }
  T fetch_xor(T v, memory_order m = memory_order_seq_cst) noexcept { return a.fetch_xor(v, m); }
  T exchange(T v, memory_order m = memory_order_seq_cst) noexcept { return a.exchange(v, m); }
  T operator+=(T v) noexcept { return a += v; }
  T operator-=(T v) noexcept { return a -= v; }
  T operator++() noexcept { return ++a; }
  T operator++(int) noexcept { return a++; }
  T operator--() noexcept { return --a; }
  T operator--(int) noexcept { return a--; }
};
}
#define atomic hooked_atomic
#define _OPENMP 201511
#include "souffle/datastructure/UnionFind.h"
#undef atomic
using namespace souffle;
#ifndef NN
#error NN
#endif
''' + SPEC + r'''
#define CHECK(c, msg) do { if (!(c)) { printf("ASSERTION-FAILED: %s\n", msg); fflush(stdout); fails++; } } while (0)
static DisjointSet D;
static int hook_on = 0, ycount = 0, fails = 0, nenv = 0, OPK = 0;
struct Env { int at, kind; uint64_t u, v; int done; } envs[8];
static uint64_t ghost_prev[NN], init_[NN]; static int cls[NN]; static uint64_t gx, gy;
static bool is_block(const void* a){ for (int i=0;i<NN;i++) if (a == (const void*)&D.get(i)) return true; return false; }
static void snapshot(uint64_t* b){ int h = hook_on; hook_on = 0; for (int i=0;i<NN;i++) b[i] = D.get(i).load(); hook_on = h; }
static void show(const char* tag, const uint64_t* b){ printf("%s:", tag); for (int i=0;i<NN;i++) printf(" %llx", (unsigned long long)b[i]); printf("\n"); }
extern "C" void verif_hook_access(const void* a){
  if (!hook_on || !is_block(a)) return;
  ycount++;
  for (int e=0;e<nenv;e++) if (!envs[e].done && envs[e].at == ycount) {
    envs[e].done = 1; hook_on = 0;
    if (envs[e].kind == 0) { D.unionNodes(envs[e].u, envs[e].v); merge_cls(cls, envs[e].u, envs[e].v); printf("other thread: union(%llu,%llu) runs completely before access #%d of the operation\n", (unsigned long long)envs[e].u, (unsigned long long)envs[e].v, ycount); }
    else if (envs[e].kind == 1) { bool r = D.sameSet(envs[e].u, envs[e].v); printf("other thread: sameSet(%llu,%llu)=%d before access #%d\n", (unsigned long long)envs[e].u, (unsigned long long)envs[e].v, (int)r, ycount);
      uint64_t c[NN]; snapshot(c); if (acyclic(c)) { if (r) CHECK(rootof(c,envs[e].u)==rootof(c,envs[e].v), "sameSet true => related at return"); else CHECK(rootof(ghost_prev,envs[e].u)!=rootof(ghost_prev,envs[e].v), "sameSet false => unrelated at some instant of the call (partition only coarsens: at its start)"); } }
    else { uint64_t f = D.findNode(envs[e].u); printf("other thread: find(%llu)=%llu before access #%d\n", (unsigned long long)envs[e].u, (unsigned long long)f, ycount); }
    snapshot(ghost_prev); show(" blocks", ghost_prev);
    hook_on = 1;
  }
}
extern "C" void verif_hook_cas_done(const void* a, bool ok){
  if (!hook_on || !ok || !is_block(a)) return;
  uint64_t cur[NN]; snapshot(cur);
  printf("own CAS after access #%d\n", ycount); show(" blocks", cur);
  CHECK(acyclic(cur), "own CAS: parent links form no cycle other than a root's self loop");
  if (acyclic(cur) && acyclic(ghost_prev)) {
    CHECK(rely(ghost_prev,cur), "own CAS satisfies the guarantee (no class split, non-roots stay non-roots with frozen rank, no rank ever decreases)");
    for (int i=0;i<NN;i++) for (int j=0;j<NN;j++) {
      int before = rootof(ghost_prev,i)==rootof(ghost_prev,j), after = rootof(cur,i)==rootof(cur,j);
      if (OPK==0) { uint64_t rx = rootof(ghost_prev,gx), ry = rootof(ghost_prev,gy), ri = rootof(ghost_prev,i), rj = rootof(ghost_prev,j);
        CHECK(after == before || (!before && after && (ri==rx||ri==ry) && (rj==rx||rj==ry)), "own CAS merges only the classes of x and y"); }
      else CHECK(after == before, "find/sameSet never change the partition");
    }
  }
  for (int i=0;i<NN;i++) ghost_prev[i]=cur[i];
}
int main(int argc, char** argv){
  /* argv: op x y b0..b(NN-1) { at kind u v }*   (kind: 0 union, 1 sameSet, 2 find) */
  OPK = atoi(argv[1]); gx = strtoull(argv[2],0,0); gy = strtoull(argv[3],0,0);
  for (int i=0;i<NN;i++) init_[i] = strtoull(argv[4+i],0,0);
  for (int k=4+NN; k+3 < argc && nenv < 8; k+=4) { envs[nenv].at = atoi(argv[k]); envs[nenv].kind = atoi(argv[k+1]); envs[nenv].u = strtoull(argv[k+2],0,0); envs[nenv].v = strtoull(argv[k+3],0,0); envs[nenv].done = 0; nenv++; }
  if (!acyclic(init_) || gx>=NN || gy>=NN) { printf("precondition does not hold\n"); return 4; }
  for (int e=0;e<nenv;e++) if (envs[e].u>=NN || envs[e].v>=NN) { printf("precondition does not hold\n"); return 4; }
  for (int i=0;i<NN;i++) D.makeNode();
  for (int i=0;i<NN;i++) D.get(i).store(init_[i]);
  for (int i=0;i<NN;i++) { ghost_prev[i]=init_[i]; cls[i]=(int)rootof(init_,i); }
  show("initial blocks (parent<<8|rank)", init_);
  hook_on = 1;
  if (OPK==0) { merge_cls(cls,gx,gy); D.unionNodes(gx,gy); hook_on = 0; uint64_t c[NN]; snapshot(c); if (acyclic(c)) CHECK(rootof(c,gx)==rootof(c,gy), "after union x~y"); }
  else if (OPK==1) { bool r = D.sameSet(gx,gy); hook_on = 0; uint64_t c[NN]; snapshot(c); printf("sameSet=%d\n", (int)r);
    if (acyclic(c)) { if (r) CHECK(rootof(c,gx)==rootof(c,gy), "sameSet true => related at return"); else CHECK(rootof(init_,gx)!=rootof(init_,gy), "sameSet false => unrelated at some instant of the call (partition only coarsens: at its start)"); } }
  else { uint64_t f = D.findNode(gx); hook_on = 0; uint64_t c[NN]; snapshot(c); printf("find=%llu\n", (unsigned long long)f); if (acyclic(c)) CHECK(f<NN && rootof(c,f)==rootof(c,gx), "find returns a member of x's class"); }
  uint64_t fin[NN]; snapshot(fin); show("final blocks", fin);
  printf("atomic block accesses of the operation: %d; interferences applied: ", ycount); { int n=0; for (int e=0;e<nenv;e++) n+=envs[e].done; printf("%d of %d\n", n, nenv); }
  CHECK(acyclic(fin), "final parent links form no cycle");
  if (acyclic(fin)) for (int i=0;i<NN;i++) for (int j=0;j<NN;j++)
    CHECK((rootof(fin,i)==rootof(fin,j)) == (cls[i]==cls[j]), "final partition is exactly the closure of the requested unions");
  if (fails) return 3;
  printf("replay finished without assertion failure\n");
  return 0;
}
'''


def _vassert(txt):
    """all specification assertions of a harness go through VASSERT (compiled out in the witness twin)"""
    head, sep, tail = txt.partition("#define verif_ctlz64(x) c29_ctlz64(x)")
    tail = re.sub(r'__CPROVER_assert\((?![^;]*"witness"\))', "VASSERT(", tail)
    return head + sep + tail


H_SEQ, H_PRE, H_RG, H_THR = (_vassert(h) for h in (H_SEQ, H_PRE, H_RG, H_THR))

OPS = ["union", "sameSet", "find"]
KFN = ["ds_union", "ds_same", "ds_find"]
K29 = {}
IN_NAMES = ["in_b0", "in_b1", "in_b2", "in_b3", "in_t0", "in_t1", "in_t2", "in_t3", "in_x", "in_y"]


def _prepare(work):
    for rel in (SRC_UF, SRC_PL):
        if not os.path.exists(common.repo_file(rel)):
            raise EngineError("source file missing: " + rel)
    uf = common.read_repo(SRC_UF)
    for anchor in ("parent_t findNode(parent_t x)", "bool updateRoot(", "bool sameSet(parent_t x, parent_t y)",
                   "void unionNodes(parent_t x, parent_t y)", "compare_exchange_strong"):
        if anchor not in uf:
            raise EngineError("anchor not found in UnionFind.h: " + anchor)
    m = re.search(r"updateRoot\(x,\s*xrank,\s*y,\s*(xrank|yrank)\)", uf)
    if not m:
        raise EngineError("link call updateRoot(x, xrank, y, <rank>) not found in unionNodes: the sequential reference model cannot be selected")
    K29["model_link_rank"] = 1 if m.group(1) == "yrank" else 0
    cpp = os.path.join(work, "uf_k.cpp")
    open(cpp, "w").write(WRAPPER)
    ll = K.lower(cpp, os.path.join(work, "uf_k.ll"), extra=["-fno-exceptions"])
    c = K.translate(ll, os.path.join(work, "uf_k.c"))
    K.translate(ll, os.path.join(work, "uf_y.c"), yield_mode=True)
    src = open(c).read()
    fdefs = re.findall(r"^(?:\w[\w\s\*]*?)\b(\w+)\((?:[^;{}]*)\) \{$", src, re.M)
    for f in ("ds_find", "ds_union", "ds_same"):
        if f not in fdefs:
            raise EngineError("kernel %s missing from translated C" % f)
    ncas = len(re.findall(r"VERIF_CMPXCHG\(", src))
    if ncas < 3:
        raise EngineError("compare-exchange sites missing in the translated kernel (%d): the CAS protocol was not lowered" % ncas)
    ysrc = open(os.path.join(work, "uf_y.c")).read()
    cnt = [0]

    def _num(m):
        cnt[0] += 1
        return "VERIF_YIELD_AT(%d);" % cnt[0]
    ysrc = re.sub(r"VERIF_YIELD\(\);", _num, ysrc)
    open(os.path.join(work, "uf_ys.c"), "w").write(ysrc)
    starts = [(m.start(), m.group(1)) for m in re.finditer(r"^(?:\w[\w\s\*]*?)\b(\w+)\((?:[^;{}]*)\) \{$", ysrc, re.M)]
    sites = {}
    for m in re.finditer(r"VERIF_YIELD_AT\((\d+)\);", ysrc):
        fn = [f for st, f in starts if st < m.start()][-1]
        sites.setdefault(fn, []).append(int(m.group(1)))
    for f in ("ds_find", "ds_union", "ds_same"):
        if len(sites.get(f, [])) < 4:
            raise EngineError("atomic access sites of %s not found in the yield translation" % f)
    gen = os.path.join(work, "uf_gen_native.c")
    open(gen, "w").write(GEN_NATIVE)
    drv = os.path.join(work, "drv.c")
    open(drv, "w").write(DRIVER)
    nlines = K.differential(work, drv, gen, cpp, extra_cxx=["-fno-exceptions"],
                            runs=[("1", "12"), ("7", "5"), ("99", "3"), ("5", "40")])
    for nm, txt in (("uf_seq.c", H_SEQ), ("uf_pre.c", H_PRE), ("uf_rg.c", H_RG), ("uf_thr.c", H_THR)):
        open(os.path.join(work, nm), "w").write(txt)
    # loop ids of the yield-mode kernels: the last loop of union/sameSet is the retry loop, the others are findNode loops
    rc, out, err = sh(["cbmc", os.path.join(work, "uf_pre.c"), "--show-loops", "-I", K.HERE, "-I", work, "-DNN=3", "-DOP=0", "-DEOP=0", "-DENV=1", "-DMODEL_LINK_RANK=1"], timeout=120)
    loops = {}
    for fn, idx in re.findall(r"^Loop (ds_find|ds_union|ds_same)\.(\d+):", out, re.M):
        loops.setdefault(fn, []).append(int(idx))
    for f in ("ds_find", "ds_union", "ds_same"):
        if not loops.get(f):
            raise EngineError("no loop found in translated kernel %s: %s" % (f, loops))
    K29["sites"] = sites
    K29["loops"] = loops
    return nlines, ncas


def _val(tv, name, signed=False):
    v = tv.get(name)
    if not v:
        return None
    val, bits = v
    if signed or not bits:
        try:
            return int(re.sub(r"[uUlL]+$", "", val))
        except ValueError:
            return None
    return int(bits.replace(" ", ""), 2)


def _build(work, name, text, n):
    cpp = os.path.join(work, name + ".cpp")
    exe = os.path.join(work, "%s_%d" % (name, n))
    if os.path.exists(exe):
        return exe, None
    open(cpp, "w").write(text)
    rc, out, err = sh(["g++", "-std=c++17", "-O1", "-w", "-DNN=%d" % n, "-DMODEL_LINK_RANK=%d" % K29.get("model_link_rank", 1), "-I", os.path.join(common.REPO, "src", "include"),
                       cpp, "-o", exe, "-lpthread"], timeout=300)
    if rc != 0:
        return None, "native replay build failed: " + err[-800:]
    return exe, None


def _native_fails(out):
    return sorted(set(re.findall(r"^ASSERTION-FAILED: (.*)$", out, re.M)))


def _replay_seq(work, o):
    """Run the solver's pre-state and arguments on the natively compiled REAL DisjointSet."""
    n = o.meta["N"]
    opi = o.meta["_op"]
    tv = o.res.trace_values(IN_NAMES)
    vals = [_val(tv, "in_b%d" % i) for i in range(n)]
    ts = [_val(tv, "in_t%d" % i) for i in range(n)]
    x, y = _val(tv, "in_x"), _val(tv, "in_y")
    if x is None or y is None or any(v is None for v in vals + ts):
        return None, "inputs not found in the trace", None, []
    exe, err = _build(work, "replay_seq", REPLAY_SEQ, n)
    if not exe:
        return None, err, None, []
    args = [str(opi), str(x), str(y)] + [hex(v) for v in vals] + [str(t) for t in ts]
    rc, out, err = sh([exe] + args, timeout=10)
    info = "op=%s N=%d x=%d y=%d blocks(parent<<8|rank)=%s true_ranks=%s rc=%d out=%s" % (
        OPS[opi], n, x, y, [hex(v) for v in vals], ts, rc, out.strip()[-400:])
    files = {"replay_seq.cpp": REPLAY_SEQ, "args.txt": " ".join(args) + "\n",
             "README": "g++ -std=c++17 -O1 -DNN=%d -I $REPO/src/include replay_seq.cpp -o r && ./r $(cat args.txt)\n%s\n" % (n, info)}
    if rc == 124:
        return True, "the real operation does not terminate (10 s) from a valid forest: " + info, files, ["does not terminate"]
    return (rc == 3 and "ASSERTION-FAILED" in out), info, files, _native_fails(out)


def _run_conc(exe, n, opi, x, y, blocks, envs):
    args = [str(opi), str(x), str(y)] + [hex(v) for v in blocks]
    for at, kind, u, v in envs:
        args += [str(at), str(kind), str(u), str(v)]
    rc, out, err = sh([exe] + args, timeout=10)
    return rc, out, args


def _conc_files(n, args, info):
    return {"replay_conc.cpp": REPLAY_CONC, "args.txt": " ".join(args) + "\n",
            "README": "Real UnionFind.h/PiggyList.h compiled natively with a hook on std::atomic; the other thread's complete real operation\n"
                      "runs before the recorded atomic access of the operation under test (a genuine SC interleaving).\n"
                      "g++ -std=c++17 -O1 -DNN=%d -I $REPO/src/include replay_conc.cpp -o r && ./r $(cat args.txt)\n"
                      "args: op x y blocks.. {access-index kind u v}*  (op/kind: 0 union, 1 sameSet, 2 find)\n%s\n" % (n, info)}


def _replay_pre(work, o):
    """(b1): interference by complete real operations at recorded access indices."""
    n, opi, eop = o.meta["N"], o.meta["_op"], o.meta["_eop"]
    tv = o.res.trace_values(IN_NAMES + ["env_at0", "env_at1", "env_u0", "env_v0", "env_u1", "env_v1", "stale_rank_used"])
    vals = [_val(tv, "in_b%d" % i) for i in range(n)]
    x, y = _val(tv, "in_x"), _val(tv, "in_y")
    if x is None or y is None or any(v is None for v in vals):
        return None, "inputs not found in the trace", None, []
    envs = []
    for e in (0, 1):
        at = _val(tv, "env_at%d" % e, signed=True)
        if at is not None and at > 0:
            envs.append((at, eop, _val(tv, "env_u%d" % e) or 0, _val(tv, "env_v%d" % e) or 0))
    exe, err = _build(work, "replay_conc", REPLAY_CONC, n)
    if not exe:
        return None, err, None, []
    rc, out, args = _run_conc(exe, n, opi, x, y, vals, envs)
    info = "op=%s(%d,%d) N=%d blocks(parent<<8|rank)=%s interference=%s rc=%d\n%s" % (
        OPS[opi], x, y, n, [hex(v) for v in vals], ["%s(%d,%d) before access #%d" % (OPS[k], u, v, at) for at, k, u, v in envs], rc, out.strip()[-1500:])
    if rc == 124:
        return True, "the real operation does not terminate (10 s): " + info, _conc_files(n, args, info), ["does not terminate"]
    return (rc == 3 and "ASSERTION-FAILED" in out), info, _conc_files(n, args, info), _native_fails(out)


def _replay_thr(work, o):
    """(c): search the one-preemption schedules of the two real operations natively for a reproduction."""
    n = o.meta["N"]
    r1, r2 = o.meta["_roles"]
    tv = o.res.trace_values(IN_NAMES + ["a1", "b1", "a2", "b2"])
    if o.meta["fresh"]:
        vals = [(i << 8) for i in range(n)]
    else:
        vals = [_val(tv, "in_b%d" % i) for i in range(n)]
    a1, b1, a2, b2 = (_val(tv, k) for k in ("a1", "b1", "a2", "b2"))
    if any(v is None for v in vals + [a1, b1, a2, b2]):
        return None, "inputs not found in the trace", None, []
    exe, err = _build(work, "replay_conc", REPLAY_CONC, n)
    if not exe:
        return None, err, None, []
    tried = 0
    for (ro, xo, yo), (re_, xe, ye) in (((r1, a1, b1), (r2, a2, b2)), ((r2, a2, b2), (r1, a1, b1))):
        for at in range(1, 60):
            rc, out, args = _run_conc(exe, n, ro, xo, yo, vals, [(at, re_, xe, ye)])
            tried += 1
            if "interferences applied: 0 of 1" in out:
                break
            if rc in (3, 124):
                info = "threads %s(%d,%d) | %s(%d,%d) N=%d blocks=%s: reproduced with the second operation running completely before access #%d of the first; rc=%d\n%s" % (
                    OPS[ro], xo, yo, OPS[re_], xe, ye, n, [hex(v) for v in vals], at, rc, out.strip()[-1500:])
                return True, info, _conc_files(n, args, info), (_native_fails(out) or ["does not terminate"])
    return False, "no one-preemption schedule of the two real operations reproduces it (%d schedules tried)" % tried, None, []


def _slug(s):
    return re.sub(r"[^a-z0-9]+", "-", s.lower()).strip("-")[:70]


def _conc_key(prefix, fails):
    if any("cycle" in f for f in fails):
        return prefix + ":cycle"
    return prefix + ":" + _slug(fails[0] if fails else "unknown")


def _only_unwinding(o):
    return bool(o.res.failed) and all("unwinding assertion" in d for _, d in o.res.failed)


def _unwindset(opi, n, e):
    """per-loop bounds of the kernel under test: findNode loops n+e, retry loop e+2 (checked by unwinding assertions)"""
    fn = KFN[opi]
    ids = sorted(K29["loops"][fn])
    us = {}
    expected = len(ids) == (1 if fn == "ds_find" else 3)   # findNode loop(s) [+ retry loop last]
    for k, i in enumerate(ids):
        outer = (fn != "ds_find") and k == len(ids) - 1
        us["%s.%d" % (fn, i)] = ((e + 2) if outer else (n + e)) if expected else max(e + 2, n + e)
    return us


def run(tier, seed, only=None):
    t0 = time.time()
    res = common.Result(PID, "other")
    work = common.scratch_dir("c29")
    thorough = tier == "thorough"
    try:
        nlines, ncas = _prepare(work)
        obls = []
        # (a)
        for n in ((4, 3, 2) if thorough else (4,)):   # a forest over < 4 nodes plus isolated nodes is a forest over 4 nodes
            for opi, opn in enumerate(OPS):
                obls.append(K.Obligation("seq:%s:N=%d" % (opn, n), [os.path.join(work, "uf_seq.c")], defines=["NN=%d" % n, "OP=%d" % opi, "MODEL_LINK_RANK=%d" % K29["model_link_rank"]],
                                         unwind=n + 2, timeout=240 if not thorough else 600, includes=[work], mem_gb=8,
                                         meta={"part": "a", "N": n, "op": opn, "_op": opi}))
        # (b1) one complete operation of another thread between two atomic accesses of the operation
        pre = os.path.join(work, "uf_pre.c")

        def pre_ob(n, e, opi, eop, excl, site, cap, opt):
            """site: None = every pause point, int = one static pause site, (lo, hi) = the static pause sites lo..hi"""
            if site is None:
                sname, sdefs = "allsites", []
            elif isinstance(site, tuple):
                sname, sdefs = "sites=%d-%d" % site, ["SITE_LO=%d" % site[0], "SITE_HI=%d" % site[1]]
            else:
                sname, sdefs = "site=%d" % site, ["SITE=%d" % site]
            name = "preempt%s:%s|%s:N=%d:E=%d:%s" % ("-excl" if excl else "", OPS[opi], OPS[eop], n, e, sname)
            defs = ["NN=%d" % n, "OP=%d" % opi, "EOP=%d" % eop, "ENV=%d" % e, "MODEL_LINK_RANK=%d" % K29["model_link_rank"]] + (["EXCL_KNOWN"] if excl else []) + sdefs
            return K.Obligation(name, [pre], defines=defs, unwind=n + 2, unwindset=_unwindset(opi, n, e), timeout=cap, includes=[work], mem_gb=10,
                                meta={"part": "b1", "N": n, "E": e, "op": OPS[opi], "env_op": OPS[eop], "excl_known": excl,
                                      "site": sname, "_site": site, "_op": opi, "_eop": eop, "_opt": opt})
        # N=2: all pause points in one query (the '-excl' twin is added in a second round only where the plain obligation is violated)
        obls.append(pre_ob(2, 1, 0, 0, False, None, 300, False))
        us = K29["sites"]["ds_union"]
        if not thorough:
            # N=3: one complete union of another thread (including its rank bump) at EVERY pause point between the operation's
            # rank reads and its link CAS: after the first rank read, before updateRoot's load, before the CAS
            # (stale-rank decisions, weakened updateRoot validation, lost update / missing retry)
            obls.append(pre_ob(3, 1, 0, 0, False, (us[-5], us[-3]), 300, False))
        if thorough:
            for opi in (0, 1, 2):
                for eop in (0, 2):
                    if (opi, eop) != (0, 0):
                        obls.append(pre_ob(2, 1, opi, eop, False, None, 400, True))
            # N=3, union interrupted by union: one query per static pause site from the rank reads to the end of unionNodes
            # (the pause sites inside the two findNode loops are covered at N=2 with all sites in one query)
            for site in us[-6:]:
                obls.append(pre_ob(3, 1, 0, 0, False, site, 400, True))
            # (b2) abstract environment (ghost invariant asserted on every own CAS)
            rg = os.path.join(work, "uf_rg.c")
            for n, e in ((2, 1),):
                for opi, opn in enumerate(OPS):
                    name = "rg:%s:N=%d:E=%d:allsites" % (opn, n, e)
                    obls.append(K.Obligation(name, [rg], defines=["NN=%d" % n, "OP=%d" % opi, "ENV=%d" % e, "MODEL_LINK_RANK=%d" % K29["model_link_rank"]],
                                             unwind=n + 2, unwindset=_unwindset(opi, n, e), timeout=400, includes=[work], mem_gb=10,
                                             meta={"part": "b2", "N": n, "E": e, "op": opn, "excl_known": False, "site": "all", "_op": opi, "_opt": True}))
            # (c) two native CBMC threads (measured: only find|find finishes; union|find is attempted under a short cap and dropped otherwise)
            for r1, r2 in ((2, 2), (0, 2)):
                name = "thr:%s|%s:N=2:anyforest" % (OPS[r1], OPS[r2])
                obls.append(K.Obligation(name, [os.path.join(work, "uf_thr.c")], defines=["NN=2", "R1=%d" % r1, "R2=%d" % r2, "MODEL_LINK_RANK=%d" % K29["model_link_rank"]],
                                         unwind=3, timeout=240, includes=[work], mem_gb=10,
                                         meta={"part": "c", "N": 2, "roles": [OPS[r1], OPS[r2]], "fresh": False, "_roles": (r1, r2), "_opt": True}))
        if only:
            obls = [o for o in obls if only in o.name]
        if not thorough:
            # quick tier: the -DWITNESS twins run in parallel with their obligations (shorter critical path); same acceptance rule as kcommon
            wit = []
            for o in obls:
                o.witness = False
                w = K.Obligation(o.name + ":witness", o.files, defines=o.defines + ["WITNESS"], unwind=o.unwind, unwindset=o.unwindset, timeout=o.timeout,
                                 includes=o.includes, mem_gb=o.mem_gb, witness=False, meta={"_of": o})
                wit.append(w)
            order = sorted(obls + wit, key=lambda x: (0 if "N=3" in x.name else 1 if "preempt" in x.name else 2 if "union" in x.name else 3))
            K.run_all(order, jobs=6)
            for w in wit:
                o = w.meta["_of"]
                o.wres = w.res
                wf = [n_ for n_, d in (w.res.failed if w.res else []) if "witness" in d]
                if o.verdict == "holds" and (w.res is None or w.res.status != "failed" or not wf or len(wf) != len(w.res.failed)):
                    o.verdict = "inconclusive"
                    o.why = "witness twin not reachable / not clean (status %s, failed %s): harness may be vacuous" % (
                        w.res.status if w.res else None, (w.res.failed[:3] if w.res else None))
        else:
            K.run_all(obls, jobs=6)
        nprops = 0
        dropped = []
        # second round: where the plain obligation is violated, exclude the known stale-rank class by assumption and re-prove the rest
        have = set(o.name for o in obls)
        twins = []
        for o in obls:
            if o.meta["part"] == "b1" and not o.meta["excl_known"] and o.verdict == "violated":
                t = pre_ob(o.meta["N"], o.meta["E"], o.meta["_op"], o.meta["_eop"], True, o.meta["_site"],
                           o.timeout, o.meta["_opt"])
                if t.name not in have:
                    twins.append(t)
        for o in obls:
            if o.meta["part"] == "b2" and not o.meta["excl_known"] and o.verdict == "violated":
                t = K.Obligation(o.name.replace("rg:", "rg-excl:"), o.files, defines=o.defines + ["EXCL_KNOWN"], unwind=o.unwind, unwindset=o.unwindset,
                                 timeout=o.timeout, includes=o.includes, mem_gb=o.mem_gb, meta=dict(o.meta, excl_known=True))
                twins.append(t)
        if twins:
            K.run_all(twins, jobs=6)
            obls += twins
        for o in obls:
            nprops += o.res.n_props if o.res else 0
            opt = o.meta.get("_opt")
            part = o.meta["part"]
            if o.verdict == "violated":
                failed = "; ".join(sorted(set(d for n_, d in o.res.failed)))
                if part == "a":
                    ok, info, files, nf = _replay_seq(work, o)
                    key = "seq:%s:%s" % (o.meta["op"], _slug(nf[0]) if nf else "")
                elif part == "b1":
                    ok, info, files, nf = _replay_pre(work, o)
                    key = _conc_key("conc-excl:" + o.meta["op"] if o.meta["excl_known"] else "conc", nf)
                elif part == "c":
                    ok, info, files, nf = _replay_thr(work, o)
                    key = _conc_key("conc", nf)
                else:
                    ok, info, files, nf = None, "abstract-environment counterexamples (ghost invariant) are not replayable on the real code", None, []
                if ok:
                    files["trace.txt"] = o.res.out[-30000:]
                    d = K.save_replay(PID, o.name, files)
                    res.violation(key, "union-find %s: solver counterexample reproduced on the real code: %s — %s" % (o.name, "; ".join(nf), info), d)
                elif _only_unwinding(o):
                    res.inconc("%s: only unwinding assertions failed (loop bound too small): %s" % (o.name, info))
                else:
                    d = K.save_replay(PID, o.name + ".unreplayed", {"trace.txt": o.res.out[-60000:], "README": "unreplayed solver counterexample: %s\n%s\n%s\n" % (o.name, failed, info)})
                    res.inconc("counterexample for %s (%s) did not reproduce on the real code: %s (trace kept in %s)" % (o.name, failed[:300], info[:600], d))
            elif o.verdict != "holds":
                if opt and o.res is not None and o.res.status in ("timeout", "oom"):
                    dropped.append("%s: no verdict (%s after %.0f s) — dropped from the claim" % (o.name, o.res.status, o.res.time))
                else:
                    res.inconc("%s: %s" % (o.name, o.why))
        for o in obls:
            for k in [k for k in o.meta if k.startswith("_")]:
                o.meta.pop(k)
        held = [o for o in obls if o.verdict == "holds"]
        parts = {p: [o for o in obls if o.meta["part"] == p] for p in ("a", "b1", "b2", "c")}
        res.coverage = {
            "explanation": "Engine K on the real DisjointSet (clang IR -> C -> CBMC). (a) one operation from EVERY valid forest state "
                           "over N nodes (symbolic parent/rank blocks + ghost true ranks under the rank/id ordering invariant), all arguments: "
                           "exact partition update, invariant (hence acyclicity) preserved, find = root, sameSet = partition. "
                           "(b1) the operation with <= E complete real operations of another thread (symbolic arguments) executed between any "
                           "two of its atomic block accesses (context-bounded interleavings, all pause points): no cycle, no class split, final "
                           "partition = closure, answers correct; run once as is and once with the known stale-rank class excluded by assumption. "
                           "Thorough adds (b2) an abstract environment (<= E arbitrary state changes satisfying invariant and rely) with every "
                           "own CAS checked against the guarantee and the ghost invariant, and (c) two CBMC threads x one operation over all "
                           "interleavings. Obligations that hit the cap are listed in 'dropped' and are NOT part of the claim.",
            "obligations": len(obls), "discharged": len(held),
            "states": nprops, "transitions": len(obls),
            "traces_validated_against_impl": nlines,
            "exhaustive": False,
            "functions_encoded": ["souffle::DisjointSet::findNode", "souffle::DisjointSet::updateRoot", "souffle::DisjointSet::unionNodes",
                                  "souffle::DisjointSet::sameSet", "souffle::DisjointSet::makeNode", "souffle::DisjointSet::get",
                                  "souffle::PiggyList::get", "souffle::PiggyList::createNode"],
            "compare_exchange_sites_in_kernel": ncas,
            "source": {SRC_UF: common.file_sha(common.repo_file(SRC_UF)), SRC_PL: common.file_sha(common.repo_file(SRC_PL))},
            "bounds": {"a_nodes": sorted(set(o.meta["N"] for o in parts["a"])), "rank_max": 200,
                       "b1_held": sorted(set((o.meta["N"], o.meta["E"]) for o in parts["b1"] if o.verdict == "holds")),
                       "b2_held": sorted(set((o.meta["N"], o.meta["E"]) for o in parts["b2"] if o.verdict == "holds")),
                       "c_held": [o.name for o in parts["c"] if o.verdict == "holds"]},
            "per_part": {p: {"obligations": len(v), "held": sum(1 for o in v if o.verdict == "holds"),
                             "violated": sum(1 for o in v if o.verdict == "violated")} for p, v in parts.items()},
            "dropped": dropped,
            "queries": sum(1 + (1 if o.wres else 0) for o in obls),
            "solver_time_s": round(sum((o.res.time if o.res else 0) + (o.wres.time if o.wres else 0) for o in obls), 1),
            "checker_cmd": obls[0].res.cmd if obls and obls[0].res else "",
            "samples": [o.sample() for p in ("a", "b1", "b2", "c") for o in parts[p][:4]],
            "states_note": "'states' = CBMC properties decided (assertions incl. bounds/unwinding/overflow); 'transitions' = obligations",
            "outside": ["interleavings beyond: one operation interrupted at <= E points by complete operations (b1), <= E abstract interferences (b2), 2 threads x 1 operation (c)",
                        "weak memory orderings", "PiggyList growth beyond the first block, clear(), iterators, SparseDisjointSet / EquivalenceRelation on top"],
        }
        res.assumptions = [
            "sequentially consistent memory",
            "operator new[] -> one 8-cell static pool (only the first PiggyList block is used; out-of-pool accesses are reported by bounds checks)",
            "ranks <= 200 in the pre-state (rank_t overflow at 255 needs 2^255 nodes)",
            "spin-wait (sched_yield in SpinLock) pruned with assume(0): the lock is only taken by makeNode during set-up",
            "translation clang IR -> C validated differentially against the g++ build of the real header on %d output lines" % nlines,
            "pre-states: every block array for which ghost true ranks exist with: roots t=rank; non-root x, parent p: t[x] <= rank field[x], (t[p],p) > (t[x],x)",
            "'-excl' obligations assume the operation never links a root under a node using a rank larger than that node's true rank (known stale-rank class)",
        ]
        for dmsg in dropped:
            res.notes.append(dmsg)
    finally:
        common.rm_rf(work)
    return res

"""C30 — optimistic read-write lock protocol (engine K, CBMC native threads, all interleavings).

Real code: souffle::OptimisticReadWriteLock (parallel variant) from src/include/souffle/utility/ParallelUtil.h,
lowered with clang, translated to C, three clients with fixed roles per query."""
import itertools
import os
import re
import time

from vlib import common
from vlib.common import EngineError, log, sh
from . import kcommon as K

PID = "C30"

WRAPPER = r'''
#define _OPENMP 201511
#include "souffle/utility/ParallelUtil.h"
using namespace souffle;
using L = OptimisticReadWriteLock;
extern "C" {
__attribute__((noinline)) void k_init(L* l){ new (l) L(); }
__attribute__((noinline)) int k_start_read(L* l){ auto le = l->start_read(); int v; __builtin_memcpy(&v, &le, sizeof(int)); return v; }
__attribute__((noinline)) bool k_validate(L* l, int v){ L::Lease le(v); return l->validate(le); }
__attribute__((noinline)) bool k_end_read(L* l, int v){ L::Lease le(v); return l->end_read(le); }
__attribute__((noinline)) void k_start_write(L* l){ l->start_write(); }
__attribute__((noinline)) bool k_try_start_write(L* l){ return l->try_start_write(); }
__attribute__((noinline)) bool k_try_upgrade(L* l, int v){ L::Lease le(v); return l->try_upgrade_to_write(le); }
__attribute__((noinline)) void k_abort_write(L* l){ l->abort_write(); }
__attribute__((noinline)) void k_end_write(L* l){ l->end_write(); }
__attribute__((noinline)) bool k_is_write_locked(L* l){ return l->is_write_locked(); }
}
'''

# Differential driver (single-threaded histories; validates the IR->C translation each run)
DRIVER = r'''
#include <stdio.h>
#include <stdint.h>
typedef struct { int v; } LK;
void k_init(void*); int k_start_read(void*); uint8_t k_validate(void*, int); uint8_t k_end_read(void*, int);
void k_start_write(void*); uint8_t k_try_start_write(void*); uint8_t k_try_upgrade(void*, int);
void k_abort_write(void*); void k_end_write(void*); uint8_t k_is_write_locked(void*);
int main(void){
  LK l; unsigned s = 12345; int lease = 0; int held = 0;
  k_init(&l);
  for (int i = 0; i < 4000; i++) {
    s = s * 1103515245u + 12345u; unsigned op = (s >> 16) % 7;
    if (!held) {
      switch (op) {
        case 0: lease = k_start_read(&l); printf("r %d\n", lease); break;
        case 1: printf("v %d\n", k_validate(&l, lease)); break;
        case 2: k_start_write(&l); held = 1; printf("w\n"); break;
        case 3: held = k_try_start_write(&l); printf("t %d\n", held); break;
        case 4: held = k_try_upgrade(&l, lease); printf("u %d\n", held); break;
        case 5: printf("e %d\n", k_end_read(&l, lease)); break;
        default: printf("q %d\n", k_is_write_locked(&l)); break;
      }
    } else {
      switch (op % 4) {
        case 0: k_end_write(&l); held = 0; printf("E\n"); break;
        case 1: k_abort_write(&l); held = 0; printf("A\n"); break;
        case 2: printf("T %d\n", k_try_start_write(&l)); break;
        default: printf("V %d q %d\n", k_validate(&l, lease), k_is_write_locked(&l)); break;
      }
    }
  }
  printf("final %d\n", l.v);
  return 0;
}
'''

ROLES = ["write", "trywrite", "upgrade", "abort", "read"]

HARNESS = r'''
#include "verif_rt.h"
#ifdef VERIF_REPLAY
#include <pthread.h>
extern __thread int verif_tid;
void verif_load_schedule(const char*);
#else
int verif_step;
#endif
/* spin-wait body: liveness obligation "nobody waits unless a writer is (about to be) active",
   then the spinning execution is pruned (its continuation is covered by a later first read) */
int w_intent = 0;   /* writer clients between announcing a write attempt and finishing it */
int w_done = 0;     /* finished write attempts */
#ifdef __CPROVER__
__CPROVER_thread_local int w_snap;
#else
__thread int w_snap;
#endif
/* sampled by each client before it calls a lock operation */
#define OP_BEGIN() VSTEP(w_snap = w_done)
#define WAIT_OK() (w_intent > 0 || w_done != w_snap)
#define VERIF_ASM() do { VERIF_ASSERT(WAIT_OK(), "wait body entered although no writer was active or pending during the operation"); __CPROVER_assume(0); } while (0)
#define sched_yield verif_sched_yield
#define pthread_yield verif_pthread_yield
#include "lock_k.c"
uint32_t sched_yield(void){ VERIF_ASSERT(WAIT_OK(), "wait body entered although no writer was active or pending during the operation"); __CPROVER_assume(0); return 0; }
uint32_t pthread_yield(void){ return sched_yield(); }

LOCK_T L;
int writers = 0;   /* clients inside a write phase */
int data = 0;      /* protected datum: even when stable */
int commits = 0;   /* completed (committed) write phases */
int events = 0;    /* every write-phase boundary */

static void enter_cs(void){ VSTEP(writers++; events++; VERIF_ASSERT(writers == 1, "at most one writer holds the lock")); }
static void leave_cs(void){ VSTEP(writers--; events++); }
static void crit(void){
  enter_cs();
  VSTEP(data++); VSTEP(data++);
  VSTEP(commits++);
  leave_cs();
}
void client(int role){
  if (role == 0) { VSTEP(w_intent++; w_snap = w_done); k_start_write(&L); crit(); k_end_write(&L); VSTEP(w_intent--; w_done++); }
  else if (role == 1) { VSTEP(w_intent++); if (k_try_start_write(&L)) { crit(); k_end_write(&L); } VSTEP(w_intent--; w_done++); }
  else if (role == 2) {
    OP_BEGIN();
    int l = k_start_read(&L); int d0, c0; VSTEP(d0 = data; c0 = commits);
    VSTEP(w_intent++);
    if (k_try_upgrade(&L, l)) {
      int d1, c1; VSTEP(d1 = data; c1 = commits);
      VERIF_ASSERT(d1 == d0 && c1 == c0, "granted upgrade implies no write since the lease");
      crit(); k_end_write(&L);
    }
    VSTEP(w_intent--; w_done++);
  }
  else if (role == 3) { VSTEP(w_intent++); if (k_try_start_write(&L)) { enter_cs(); leave_cs(); k_abort_write(&L); } VSTEP(w_intent--; w_done++); }
  else {
    int d1, c1, d2, e2, w2, c2, e3, w3, n2, n3, ok;
    VSTEP(c1 = commits; w_snap = w_done);   /* before the lease is taken */
    int l = k_start_read(&L);
    VSTEP(d1 = data);
    VSTEP(d2 = data);
    VSTEP(e2 = events; w2 = w_intent; c2 = commits; n2 = w_done);
    ok = k_validate(&L, l);
    VSTEP(e3 = events; w3 = w_intent; n3 = w_done);
    if (ok) VERIF_ASSERT(d1 == d2 && (d1 % 2) == 0, "validated read overlapped no write phase");
    /* aborted writes restore the version: if no write committed since the lease and nobody is in or entering
       a write phase around the validation, the lease must still be valid */
    if (c2 == c1 && w2 == 0 && w3 == 0 && n3 == n2 && e3 == e2) VERIF_ASSERT(ok, "lease invalid although every write since it was aborted");
  }
}
#ifdef VERIF_REPLAY
static void* th(void* a){ long x = (long)a; verif_tid = (int)(x >> 8); client((int)(x & 255)); return 0; }
int main(int argc, char** argv){
  pthread_t t1, t2; k_init(&L);
  verif_load_schedule(argc > 1 ? argv[1] : "");
  pthread_create(&t1, 0, th, (void*)(long)((1 << 8) | C1));
  pthread_create(&t2, 0, th, (void*)(long)((2 << 8) | C2));
  verif_tid = 0; client(C3);
  pthread_join(t1, 0); pthread_join(t2, 0);
  printf("replay finished without assertion failure\n");
  return 0;
}
#else
int main(void){
  k_init(&L);
  __CPROVER_ASYNC_1: client(C1);
  __CPROVER_ASYNC_2: client(C2);
  client(C3);
#ifdef WITNESS
  __CPROVER_assert(0, "witness");
#endif
  return 0;
}
#endif
'''


def _prepare(work):
    cpp = os.path.join(work, "lock_k.cpp")
    open(cpp, "w").write(WRAPPER)
    ll = K.lower(cpp, os.path.join(work, "lock_k.ll"), extra=["-fno-exceptions"])
    c = K.translate(ll, os.path.join(work, "lock_k.c"))
    src = open(c).read()
    m = re.search(r"(struct S__class_souffle__OptimisticReadWriteLock_\w*)", src)
    if not m:
        raise EngineError("lock struct not found in translated C")
    drv = os.path.join(work, "drv.c")
    open(drv, "w").write(DRIVER)
    nlines = K.differential(work, drv, c, cpp, extra_cxx=["-fno-exceptions"])
    h = os.path.join(work, "lock_h.c")
    open(h, "w").write(HARNESS.replace("LOCK_T", m.group(1)))
    funcs = re.findall(r"^\w[\w\s\*]*\b(k_\w+)\(", src, re.M)
    return h, nlines, sorted(set(funcs))


def _replay_native(work, h, roles, res):
    """Re-run with schedule logging, then force that schedule on the natively compiled IR-derived C."""
    defs = ["C1=%d" % roles[0], "C2=%d" % roles[1], "C3=%d" % roles[2], "VERIF_SCHEDLOG"]
    r = K.cbmc([h], defines=defs, unwind=3, timeout=300, includes=[work])
    if r.status != "failed":
        return None, "schedule-logging rerun did not fail (%s)" % r.status
    s = K.schedule_from_trace(r.out)
    exe = os.path.join(work, "replay_%d%d%d" % tuple(roles))
    rc, out, err = sh(["gcc", "-O0", "-w", "-DVERIF_REPLAY", "-DC1=%d" % roles[0], "-DC2=%d" % roles[1], "-DC3=%d" % roles[2],
                       "-I", K.HERE, "-I", work, h, os.path.join(K.HERE, "verif_replay.c"), "-o", exe, "-lpthread"], timeout=120)
    if rc != 0:
        return None, "native replay build failed: " + err[-500:]
    rc, out, err = sh([exe, s], timeout=20)
    return (rc == 3 and "ASSERTION-FAILED" in out), "schedule=%s rc=%d out=%s" % (s, rc, out.strip()[-200:])


def run(tier, seed, only=None):
    t0 = time.time()
    res = common.Result(PID, "model_checking")
    work = common.scratch_dir("c30")
    try:
        h, nlines, funcs = _prepare(work)
        if tier == "quick":
            triples = list(itertools.combinations_with_replacement(range(5), 3))
        else:
            triples = list(itertools.product(range(5), repeat=3))
        obls = []
        for tr in triples:
            name = "roles=" + "/".join(ROLES[i] for i in tr)
            if only and only not in name:
                continue
            obls.append(K.Obligation(name, [h], defines=["C1=%d" % tr[0], "C2=%d" % tr[1], "C3=%d" % tr[2]], unwind=3,
                                     timeout=120 if tier == "quick" else 600, includes=[work],
                                     meta={"roles": [ROLES[i] for i in tr], "_tr": tr}))
        K.run_all(obls)
        nprops = 0
        for o in obls:
            nprops += o.res.n_props if o.res else 0
            if o.verdict == "violated":
                tr = o.meta["_tr"]
                ok, info = _replay_native(work, h, tr, res)
                failed = "; ".join(sorted(set(d for n, d in o.res.failed)))
                if ok:
                    d = K.save_replay(PID, "roles_%d%d%d" % tuple(tr), {
                        "harness.c": open(h).read(), "lock_k.c": open(os.path.join(work, "lock_k.c")).read(),
                        "trace.txt": o.res.out[-20000:], "README": "roles %s\n%s\nreproduced natively: %s\n" % (o.name, failed, info)})
                    res.violation("%s:%s" % (o.name, failed[:80]), "lock protocol assertion fails: %s under %s" % (failed, o.name), d)
                else:
                    res.inconc("counterexample for %s (%s) did not reproduce natively: %s" % (o.name, failed, info))
            elif o.verdict != "holds":
                res.inconc("%s: %s" % (o.name, o.why))
        for o in obls:
            o.meta.pop("_tr", None)
        held = [o for o in obls if o.verdict == "holds"]
        res.coverage = {
            "explanation": "each role triple is one CBMC query over all interleavings of 3 clients (SC memory)",
            "states": nprops, "transitions": sum(1 for o in obls),
            "traces_validated_against_impl": nlines,
            "obligations": len(obls), "discharged": len(held),
            "exhaustive": tier == "thorough",
            "functions_encoded": ["souffle::OptimisticReadWriteLock::" + f[2:] for f in funcs],
            "source": {"src/include/souffle/utility/ParallelUtil.h": common.file_sha(common.repo_file("src/include/souffle/utility/ParallelUtil.h"))},
            "bounds": {"clients": 3, "lock_operation_sequences_per_client": 1, "unwind": 3,
                       "role_tuples": "multisets (35)" if tier == "quick" else "all ordered triples (125)"},
            "solver_time_s": round(sum((o.res.time if o.res else 0) + (o.wres.time if o.wres else 0) for o in obls), 1),
            "queries": sum(1 + (1 if o.wres else 0) for o in obls),
            "checker_cmd": obls[0].res.cmd if obls else "",
            "samples": [o.sample() for o in obls[:6]],
            "states_note": "'states' = number of CBMC properties (assertions incl. unwinding/overflow) decided over all interleavings; 'transitions' = role tuples",
        }
        res.assumptions = [
            "sequentially consistent memory (acquire/release/relaxed orderings not modelled)",
            "spin-wait executions pruned after asserting that a writer is active or pending (assume(0) in the wait body)",
            "3 clients, one operation sequence each; translation clang IR -> C validated differentially on %d output lines" % nlines,
        ]
    finally:
        common.rm_rf(work)
    return res

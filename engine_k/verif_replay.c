/* Schedule replay runtime (native): threads take atomic steps in the order recorded by CBMC. */
#define VERIF_REPLAY
#include "verif_rt.h"
#include <pthread.h>
#include <stdio.h>
#include <stdlib.h>
int verif_sched[VERIF_SCHED_MAX];
int verif_sched_n = 0;            /* number of scheduled steps */
static int verif_pos = 0;
static pthread_mutex_t mu = PTHREAD_MUTEX_INITIALIZER;
static pthread_cond_t cv = PTHREAD_COND_INITIALIZER;
__thread int verif_tid = 0;
void verif_wait_turn(void) {
  pthread_mutex_lock(&mu);
  /* while steps remain in the recorded schedule, wait for our turn; afterwards run free under the mutex */
  while (verif_pos < verif_sched_n && verif_sched[verif_pos] != verif_tid) pthread_cond_wait(&cv, &mu);
}
void verif_done_turn(void) {
  verif_pos++;
  pthread_cond_broadcast(&cv);
  pthread_mutex_unlock(&mu);
}
void verif_load_schedule(const char* s) {
  verif_sched_n = 0;
  while (*s && verif_sched_n < VERIF_SCHED_MAX) {
    if (*s >= '0' && *s <= '9') verif_sched[verif_sched_n++] = *s - '0';
    s++;
  }
}

"""C08, engine-K part — index lookup sentinel logic (eqrel and B-tree), interpreter and compiled code.

extend(res, tier, seed, only) ADDS to the Result of the engine-R part (engine_r/checks/c08.py).

(I)  interpreter, eqrel.  The whole chain that turns a RAM search pattern into a range of the eqrel index is the real text:
       NodeGenerator::getIndexSuperInstInfo (interpreter/Generator.cpp, verbatim)     RAM pattern -> SuperInstruction
       class SuperInstruction               (interpreter/Node.h, verbatim, std::vector -> bounded vstd::vector)
       TUPLE_COPY_FROM / CAL_SEARCH_BOUND   (interpreter/Engine.cpp, verbatim macros)  SuperInstruction -> low / high
       head of Engine::evalIndexScan        (interpreter/Engine.cpp, verbatim up to the loop over view->range(low, high))
       Index<2,0,.>::View::range / ::range  (interpreter/Index.h, included)            cmp(low, high), lower/upper_bound
       comparator                           (interpreter/Util.h, included)
       EquivalenceRelation::lower_bound / upper_bound (EquivalenceRelation.h, verbatim)
     Stubs: sds.nodeExists / sds.contains are unconstrained booleans; begin / end / anteriorIt / antpostit return tagged
     tokens, so the harness sees WHICH range was chosen: everything / all pairs (x,_) / the pair (x,y) / nothing.
     Obligation: for each bound/unbound pattern (none, first, second, both), each index order the pattern can be served
     by, and each way the RAM can give the bound value (constant, tuple element, general expression): for EVERY 32-bit
     value of the bound columns the chosen range is the one for THAT pattern.
(II) compiled code, eqrel.  `souffle -g` on a small program gives the call sites (which lowerUpperRange_* member, which
     bound tuples, verbatim); t_eqrel::lowerUpperRange_10/_01/_11, reorder, iterator_0/1 (EqRel.h, verbatim) and
     EquivalenceRelation::getBoundaries (verbatim) are compiled against the same token stubs.  Same obligations.
(IV) interpreter Relation.h (several indexes per relation, one per search order): insert, purge, erase, swap and
     EqrelRelation::extendAndInsert (RAM MERGE-EXTEND), cut verbatim, run over 1..3 recording fake indexes: every index receives
     the operation; for MERGE-EXTEND every index of the @new relation learns the implied pairs (it becomes @delta after SWAP).
(III) interpreter, B-tree indexes of arity 3: the same Generator/Engine/Index.h chain over an abstract ordered index
     (lower_bound = first element not less, upper_bound = first element greater, through the real comparator): for
     every stored tuple, it is inside [lower_bound(low), upper_bound(high)) iff it matches the bound columns, for
     equality prefixes followed by at most one inequality column, MIN/MAX padding elsewhere.

A counterexample is read from the CBMC trace, replayed on the g++ build of the same TU, and (interpreter eqrel) end to end
with the real interpreter on a generated .dl + .facts; each distinct (pattern, sentinel class) is one finding key, and the
pattern is re-proved with the found classes excluded by an assumption until it holds."""
import os
import re
import time

from vlib import common
from vlib.common import EngineError, log, sh
from . import kcommon as K
from . import c24

PID = "C08"
MIN, MAX = -2147483648, 2147483647
CMIN, CMAX = "(-2147483647-1)", "2147483647"
K_UNDEF, K_CONST, K_ELEM, K_EXPR = 0, 1, 2, 3
KIND_NAME = {K_CONST: "const", K_ELEM: "elem", K_EXPR: "expr"}
PERMS3 = [(0, 1, 2), (1, 2, 0), (2, 0, 1), (0, 2, 1), (1, 0, 2), (2, 1, 0)]

SRC_FILES = ("src/interpreter/Relation.h", "src/interpreter/Generator.cpp", "src/interpreter/Node.h", "src/interpreter/Engine.cpp", "src/interpreter/Index.h",
             "src/interpreter/Util.h", "src/include/souffle/datastructure/EquivalenceRelation.h", "src/include/souffle/datastructure/EqRel.h",
             "src/synthesiser/Relation.cpp", "src/synthesiser/Synthesiser.cpp", "src/include/souffle/RamTypes.h")

# program whose generated C++ gives the compiled call sites; rule -> (pattern, {source column: env0 element})
SYN_PROGRAM = """.decl in(x:number,y:number)
.input in
.decl q(x:number)
.input q
.decl q2(x:number,y:number)
.input q2
.decl eq(x:number,y:number) eqrel
eq(x,y) :- in(x,y).
.decl o_first(x:number,y:number)
.output o_first
o_first(x,y) :- q(x), eq(x,y).
.decl o_second(x:number,y:number)
.output o_second
o_second(x,y) :- q(y), eq(x,y).
.decl o_cnt(x:number,y:number,c:number)
.output o_cnt
o_cnt(x,y,c) :- q2(x,y), c = count : { eq(x,y) }.
.decl o_cnt1(x:number,c:number)
.output o_cnt1
o_cnt1(x,c) :- q(x), c = count : { eq(x,_) }.
.decl o_cnt2(x:number,c:number)
.output o_cnt2
o_cnt2(x,c) :- q(x), c = count : { eq(_,x) }.
.decl o_ex1(x:number)
.output o_ex1
o_ex1(x) :- q(x), eq(x,_).
.decl o_ex2(x:number)
.output o_ex2
o_ex2(x) :- q(x), eq(_,x).
"""
SYN_RULES = {"o_first": ("first-bound", {0: 0}), "o_second": ("second-bound", {1: 0}), "o_cnt": ("both-bound", {0: 0, 1: 1}),
             "o_cnt1": ("first-bound", {0: 0}), "o_cnt2": ("second-bound", {1: 0}), "o_ex1": ("first-bound", {0: 0}),
             "o_ex2": ("second-bound", {1: 0})}

TEMPLATE = r'''
#include "interpreter/Index.h"
#include "souffle/utility/Iteration.h"
#include <algorithm>
#include <array>
#include <cassert>
#include <cstddef>
#include <iostream>
#include <iterator>
#include <type_traits>
#include <utility>
extern "C" int verif_node_exists(int v);
extern "C" int verif_contains(int a, int b);
namespace vstd {
/* bounded replacement for std::vector inside the pasted SuperInstruction class only */
template <class T> struct vector {
    T d[4]; std::size_t n = 0;
    void resize(std::size_t k) { if (k > 4) __builtin_trap(); n = k; }
    std::size_t size() const { return n; }
    T& operator[](std::size_t i) { if (i >= n) __builtin_trap(); return d[i]; }
    const T& operator[](std::size_t i) const { if (i >= n) __builtin_trap(); return d[i]; }
    /* stores at constant offsets only (a block copy to d[n] with symbolic n is mis-simplified by CBMC 6.11) */
    void push_back(T&& x) { put(x); }
    void push_back(const T& x) { put(x); }
    void put(const T& x) { switch (n) { case 0: d[0] = x; break; case 1: d[1] = x; break; case 2: d[2] = x; break; case 3: d[3] = x; break; default: __builtin_trap(); } n++; }
    T* begin() { return d; } T* end() { return d + n; }
    const T* begin() const { return d; } const T* end() const { return d + n; }
    T& at(std::size_t i) { if (i >= n) __builtin_trap(); return d[i]; }
    const T& at(std::size_t i) const { if (i >= n) __builtin_trap(); return d[i]; }
    void swap(vector& o) { for (int i = 0; i < 4; i++) { T x = d[i]; d[i] = o.d[i]; o.d[i] = x; } std::size_t m = n; n = o.n; o.n = m; }
};
}
/* ------------------------------------------------------------------------------------------------ eqrel index stub */
namespace verif_eq {
using souffle::RamDomain; using souffle::MIN_RAM_SIGNED; using souffle::MAX_RAM_SIGNED; using souffle::range; using souffle::make_range;
enum { T_BEGIN = 1, T_END = 2, T_ANT = 3, T_PAIR = 4 };
struct Tok { int kind; RamDomain a, b;
    bool operator==(const Tok& o) const { return kind == o.kind && a == o.a && b == o.b; }
    bool operator!=(const Tok& o) const { return !(*this == o); }
    souffle::Tuple<RamDomain, 2> operator*() const { return souffle::Tuple<RamDomain, 2>{{a, b}}; }
    Tok& operator++() { kind = T_END; a = 0; b = 0; return *this; } };
struct Sds { bool nodeExists(RamDomain v) const { return verif_node_exists(v) != 0; }
             bool contains(RamDomain a, RamDomain b) const { return verif_contains(a, b) != 0; } };
struct StubBase {
    using TupleType = souffle::Tuple<RamDomain, 2>; using value_type = RamDomain; using iterator = Tok; struct operation_hints {};
    Sds sds;
    iterator begin() const { return Tok{T_BEGIN, 0, 0}; }
    iterator end() const { return Tok{T_END, 0, 0}; }
    iterator anteriorIt(value_type v) const { return Tok{T_ANT, v, 0}; }
    iterator antpostit(value_type a, value_type b) const { return Tok{T_PAIR, a, b}; }
};
template <std::size_t Arity, std::size_t Aux> struct StubEqrel : StubBase {
    /* ---- verbatim from EquivalenceRelation.h ---- */
    @LB@
    @UB@
};
using EqIndex = souffle::interpreter::Index<2, 0, StubEqrel>;
struct EqRel { static constexpr std::size_t Arity = 2; using View = EqIndex::View;
    static View* castView(souffle::interpreter::ViewWrapper* v) { return static_cast<View*>(v); }
    template <class R, class T> static void emit(int* out, const R& r, const T& low, const T& high) {
        out[0] = r.begin().kind; out[1] = r.begin().a; out[2] = r.begin().b; out[3] = r.end().kind; out[4] = r.end().a; out[5] = r.end().b;
        out[6] = low[0]; out[7] = low[1]; out[8] = high[0]; out[9] = high[1]; } };
}
/* ------------------------------------------------------------------------------------ abstract ordered (B-tree) index */
namespace verif_bt {
using souffle::RamDomain;
enum { K_BEGIN = 1, K_END = 2, K_LB = 3, K_UB = 4 };
template <std::size_t A> struct It { int kind; souffle::Tuple<RamDomain, A> key;
    bool operator==(const It& o) const { return kind == o.kind && key == o.key; }
    bool operator!=(const It& o) const { return !(*this == o); } };
template <std::size_t A, std::size_t X> struct StubBtree {
    using T = souffle::Tuple<RamDomain, A>; using iterator = It<A>; struct operation_hints {};
    iterator begin() const { return iterator{K_BEGIN, T{}}; }
    iterator end() const { return iterator{K_END, T{}}; }
    iterator lower_bound(const T& k, operation_hints&) const { return iterator{K_LB, k}; }
    iterator upper_bound(const T& k, operation_hints&) const { return iterator{K_UB, k}; }
    iterator lower_bound(const T& k) const { return iterator{K_LB, k}; }
    iterator upper_bound(const T& k) const { return iterator{K_UB, k}; }
};
/* is the stored tuple t inside [r.begin(), r.end()) ? positions are defined through the interpreter's real comparator */
template <std::size_t A> bool member(const souffle::Tuple<RamDomain, A>& t, const souffle::range<It<A>>& r) {
    souffle::interpreter::comparator<A> c; const auto& x = r.begin(); const auto& y = r.end();
    bool ge = x.kind == K_BEGIN ? true : x.kind == K_LB ? !c.less(t, x.key) : x.kind == K_UB ? c.less(x.key, t) : false;
    bool lt = y.kind == K_END ? true : y.kind == K_UB ? !c.less(y.key, t) : y.kind == K_LB ? c.less(t, y.key) : false;
    return ge && lt;
}
extern RamDomain cand[3];
RamDomain cand[3];
using BtIndex = souffle::interpreter::Index<3, 0, StubBtree>;
struct BtRel { static constexpr std::size_t Arity = 3; using View = BtIndex::View;
    static View* castView(souffle::interpreter::ViewWrapper* v) { return static_cast<View*>(v); }
    template <class R, class T> static void emit(int* out, const R& r, const T& low, const T& high) {
        out[0] = member<3>(souffle::Tuple<RamDomain, 3>{{cand[0], cand[1], cand[2]}}, r);
        for (int i = 0; i < 3; i++) { out[1 + i] = low[i]; out[4 + i] = high[i]; } } };
}
/* ---------------------------------------------------- interpreter Relation.h: every mutating operation reaches ALL indexes */
namespace verif_rel {
using souffle::RamDomain;
template <std::size_t, std::size_t> struct Eqrel {};
template <std::size_t, std::size_t> struct Btree {};
template <std::size_t, std::size_t> struct BtreeDelete {};
template <class T> struct Own { T* p = nullptr; T* get() const { return p; } T* operator->() const { return p; } T& operator*() const { return *p; } };
template <class T> using VecOwn = vstd::vector<Own<T>>;
/* recording fake index.  `content` abstracts the stored pairs: C_NEW explicit new knowledge, C_OLD old knowledge, C_IMPL the pairs
   implied by new and old together; has_t: the one tuple the harness inserts / erases is stored */
enum { C_NEW = 1, C_OLD = 2, C_IMPL = 4 };
template <std::size_t Arity, std::size_t Aux, template <std::size_t, std::size_t> typename Structure> struct Index {
    using Tuple = souffle::Tuple<RamDomain, Arity>;
    int content = 0; int has_t = 0; int n_ops = 0; int arg_ok = 1; RamDomain want[Arity];
    bool insert(const Tuple& t) { n_ops++; for (std::size_t i = 0; i < Arity; i++) if (t[i] != want[i]) arg_ok = 0; bool fresh = !has_t; has_t = 1; return fresh; }
    void insert(const Index& src) { n_ops++; content |= src.content; has_t |= src.has_t; }
    bool contains(const Tuple&) const { return has_t != 0; }
    std::size_t size() const { return (content != 0 || has_t) ? 1 : 0; }
    bool empty() const { return size() == 0; }
    void clear() { n_ops++; content = 0; has_t = 0; }
};
struct EqrelIndex : Index<2, 0, Eqrel> {
    /* this := this + pairs implied together with other's old knowledge;  other := other + this */
    void extendAndInsert(EqrelIndex* o) { n_ops++; if ((content & C_NEW) && (o->content & C_OLD)) content |= C_IMPL; o->content |= content; o->has_t |= has_t; }
};
template <std::size_t A, std::size_t X> struct BtreeDeleteIndex : Index<A, X, BtreeDelete> {
    using Tuple = souffle::Tuple<RamDomain, A>;
    bool erase(const Tuple& t) { this->n_ops++; for (std::size_t i = 0; i < A; i++) if (t[i] != this->want[i]) this->arg_ok = 0; bool had = this->has_t != 0; this->has_t = 0; return had; }
};
struct RelationWrapper { virtual ~RelationWrapper() = default; virtual void purge() = 0; virtual void insert(const RamDomain*) = 0; };
template <std::size_t _Arity, std::size_t _AuxiliaryArity, template <std::size_t, std::size_t> typename Structure>
class Relation : public RelationWrapper {
public:
    static constexpr std::size_t Arity = _Arity;
    static constexpr std::size_t AuxiliaryArity = _AuxiliaryArity;
    using Index = verif_rel::Index<Arity, AuxiliaryArity, Structure>;
    using Tuple = souffle::Tuple<RamDomain, Arity>;
    /* ---- verbatim member functions of souffle::interpreter::Relation (interpreter/Relation.h) ---- */
    @REL_MEMBERS@
    /* ---- the two data members, as declared in Relation.h ---- */
    VecOwn<Index> indexes;
    Index* main;
};
/* ---- verbatim from interpreter/Relation.h ---- */
@REL_BTREEDELETE@;
@REL_EQREL@;
static EqrelIndex EQI[2][3];
static BtreeDeleteIndex<2, 0> BDI[3];
static Index<2, 0, Btree> BTI[2][3];
template <class R, class I> void build(R& r, I* ix, int n, int content, int has_t, RamDomain a, RamDomain b) {
    for (int i = 0; i < 3; i++) { ix[i] = I(); ix[i].content = content; ix[i].has_t = has_t; ix[i].want[0] = a; ix[i].want[1] = b; }
    for (int i = 0; i < n; i++) { Own<typename R::Index> o; o.p = &ix[i]; r.indexes.push_back(o); }
    r.main = r.indexes[0].get();
}
template <class I> void report(int* out, const I* ix) { for (int i = 0; i < 3; i++) { out[4 * i] = ix[i].content; out[4 * i + 1] = ix[i].has_t; out[4 * i + 2] = ix[i].n_ops; out[4 * i + 3] = ix[i].arg_ok; } }
}
/* --------------------------------------------------------------------------- interpreter: Generator + Engine slices */
namespace verif_gen {
using souffle::RamDomain; using souffle::MIN_RAM_SIGNED; using souffle::MAX_RAM_SIGNED;
template <class T> struct Own { T* p = nullptr; T* get() const { return p; } };
namespace ram {
enum { K_UNDEF = 0, K_CONST = 1, K_ELEM = 2, K_EXPR = 3 };
struct Expression { int kind; RamDomain value; std::size_t tupleId, element; };
struct UndefValue : Expression {};
struct NumericConstant : Expression { RamDomain getConstant() const { return value; } };
struct TupleElement : Expression { std::size_t getTupleId() const { return tupleId; } std::size_t getElement() const { return element; } };
struct Pattern { const Expression* e[3]; const Expression* const& operator[](std::size_t i) const { if (i >= 3) __builtin_trap(); return e[i]; } };
struct IndexOperation { std::pair<Pattern, Pattern> pat; int getRelation() const { return 0; }
    std::pair<Pattern, Pattern> getRangePattern() const { return pat; } };
struct IndexScan : IndexOperation {};
}
template <class T> struct KindOf;
template <> struct KindOf<ram::UndefValue> { static constexpr int k = ram::K_UNDEF; };
template <> struct KindOf<ram::NumericConstant> { static constexpr int k = ram::K_CONST; };
template <> struct KindOf<ram::TupleElement> { static constexpr int k = ram::K_ELEM; };
template <class T> bool isA(const ram::Expression* e) { return e->kind == KindOf<T>::k; }
template <class T> const T* as(const ram::Expression* e) { return static_cast<const T*>(e); }
inline bool isUndefValue(const ram::Expression* e) { return isA<ram::UndefValue>(e); }
struct Node { const ram::Expression* src; };
struct OrderStub { std::size_t o[3]; std::size_t operator[](std::size_t i) const { if (i >= 3) __builtin_trap(); return o[i]; } };
struct RelHandle { OrderStub ord; OrderStub getIndexOrder(std::size_t) const { return ord; } };
struct OrderingContext { std::size_t mapOrder(std::size_t, std::size_t e) const { return e; } };
/* ---- verbatim from interpreter/Node.h (std::vector -> vstd::vector) ---- */
@SUPERCLASS@
class NodeGenerator {
public:
    RelHandle rel; RelHandle* relp = &rel; Node nodes[8]; std::size_t nn = 0; OrderingContext orderingContext; std::size_t arity = 2;
    std::size_t getArity(int) const { return arity; }
    std::size_t encodeRelation(int) { return 0; }
    std::size_t encodeIndexPos(const ram::IndexOperation&) { return 0; }
    RelHandle** getRelationHandle(std::size_t) { return &relp; }
    Own<Node> dispatch(const ram::Expression& e) { if (nn >= 8) __builtin_trap(); nodes[nn].src = &e; Own<Node> o; o.p = &nodes[nn++]; return o; }
    SuperInstruction getIndexSuperInstInfo(const ram::IndexOperation& ramIndex);
};
/* ---- verbatim from interpreter/Generator.cpp ---- */
@GETSUPER@
struct IndexScan { SuperInstruction superInst; std::size_t viewId = 0;
    IndexScan(SuperInstruction s) : superInst(std::move(s)) {}
    const SuperInstruction& getSuperInst() const { return superInst; } std::size_t getViewId() const { return viewId; } };
struct Context { const RamDomain* tuples[1]; souffle::interpreter::ViewWrapper* view;
    const RamDomain* operator[](std::size_t i) const { if (i >= 1) __builtin_trap(); return tuples[i]; }
    souffle::interpreter::ViewWrapper* getView(std::size_t) { return view; } };
/* ---- verbatim from interpreter/Engine.cpp ---- */
@MACROS@
class Engine {
public:
    int* out;
    RamDomain execute(const Node* n, Context&) { return n->src->value; }
    template <typename Rel> RamDomain evalIndexScan(const ram::IndexScan& cur, const IndexScan& shadow, Context& ctxt);
};
/* ---- verbatim head of Engine::evalIndexScan, up to the loop over view->range(low, high) ---- */
@SCANHEAD@
    auto verif_r = view->range(low, high);
    Rel::emit(out, verif_r, low, high);
    return true;
}
/* builds the RAM pattern (kinds/values: low columns, then high columns, in SOURCE column order), runs the two slices */
template <class Rel, class View, class Data> void scan(std::size_t arity, const std::size_t* ord, const int* kinds, const int* vals, int* out) {
    ram::Expression ex[6]; RamDomain env[6];
    for (std::size_t i = 0; i < 2 * arity; i++) { ex[i].kind = kinds[i]; ex[i].value = vals[i]; ex[i].tupleId = 0; ex[i].element = i; env[i] = vals[i]; }
    ram::IndexScan sc;
    for (std::size_t i = 0; i < arity; i++) { sc.pat.first.e[i] = &ex[i]; sc.pat.second.e[i] = &ex[arity + i]; }
    NodeGenerator g; g.arity = arity;
    for (std::size_t i = 0; i < arity; i++) g.rel.ord.o[i] = ord[i];
    IndexScan shadow(g.getIndexSuperInstInfo(sc));
    Data data; View view(data);
    Context ctxt; ctxt.tuples[0] = env; ctxt.view = &view;
    Engine e; e.out = out;
    e.evalIndexScan<Rel>(sc, shadow, ctxt);
}
}
/* ------------------------------------------------------------------------------------------- compiled code: t_eqrel */
namespace verif_syn {
using namespace souffle;
using verif_eq::Tok;
struct StubER : verif_eq::StubBase {
    /* ---- verbatim from EquivalenceRelation.h ---- */
    @GETBOUNDARIES@
};
struct t_eqrel {
    using t_tuple = Tuple<RamDomain, 2>;
    using t_ind = StubER;
    t_ind ind;
    /* ---- verbatim from EqRel.h (`class iterator_N {` -> `struct iterator_N {` so that the harness can read `nested`) ---- */
    @ITER0@;
    @ITER1@;
    using iterator = iterator_0;
    struct context { t_ind::operation_hints hints; };
    @LUR@
    @REORDER@
};
template <class R> void emit(int* out, const R& r) {
    out[0] = r.begin().nested.kind; out[1] = r.begin().nested.a; out[2] = r.begin().nested.b;
    out[3] = r.end().nested.kind; out[4] = r.end().nested.a; out[5] = r.end().nested.b;
    out[6] = (*r.begin())[0]; out[7] = (*r.begin())[1];
    out[8] = std::is_same<std::decay_t<decltype(r.begin())>, t_eqrel::iterator_1>::value ? 1 : 0;
}
}
#define READ_OP_CONTEXT(x) x
extern "C" {
__attribute__((noinline)) void k_eqi_scan(int ord0, const int* kinds, const int* vals, int* out) {
    std::size_t ord[2] = {ord0 ? 1u : 0u, ord0 ? 0u : 1u};
    verif_gen::scan<verif_eq::EqRel, verif_eq::EqIndex::View, verif_eq::StubEqrel<2, 0>>(2, ord, kinds, vals, out);
}
/* Index::range (behind partitionRange: parallel scans) on given bounds; must agree with View::range */
__attribute__((noinline)) void k_eqi_idxrange(int l0, int l1, int h0, int h1, int* out) {
    verif_eq::EqIndex idx{souffle::interpreter::Order()};
    souffle::Tuple<souffle::RamDomain, 2> low{{l0, l1}}, high{{h0, h1}};
    auto r = idx.range(low, high);
    verif_eq::EqRel::emit(out, r, low, high);
    verif_eq::StubEqrel<2, 0> data; verif_eq::EqIndex::View view(data);
    auto r2 = view.range(low, high);
    verif_eq::EqRel::emit(out + 10, r2, low, high);
}
__attribute__((noinline)) void k_bti_scan(int o0, int o1, int o2, const int* kinds, const int* vals, const int* t, int* out) {
    std::size_t ord[3] = {(std::size_t)o0, (std::size_t)o1, (std::size_t)o2};
    for (int i = 0; i < 3; i++) verif_bt::cand[i] = t[i];
    verif_gen::scan<verif_bt::BtRel, verif_bt::BtIndex::View, verif_bt::StubBtree<3, 0>>(3, ord, kinds, vals, out);
}
/* out: per index (3 slots) content, has_t, number of calls received, arguments-as-given; out[12] result; out[13..] second relation */
__attribute__((noinline)) void k_rel_insert(int n, int pre, int a, int b, int raw, int eq, int* out) {
    using namespace verif_rel;
    if (n < 1 || n > 3) __builtin_trap();
    souffle::RamDomain data[2] = {a, b};
    if (eq) { EqrelRelation r; build(r, EQI[0], n, 0, pre, a, b); if (raw) { r.insert(data); out[12] = -1; } else out[12] = r.insert(souffle::Tuple<souffle::RamDomain, 2>{{a, b}}); report(out, EQI[0]); }
    else { Relation<2, 0, Btree> r; build(r, BTI[0], n, 0, pre, a, b); if (raw) { r.insert(data); out[12] = -1; } else out[12] = r.insert(souffle::Tuple<souffle::RamDomain, 2>{{a, b}}); report(out, BTI[0]); }
}
__attribute__((noinline)) void k_rel_purge(int n, int virt, int eq, int* out) {
    using namespace verif_rel;
    if (n < 1 || n > 3) __builtin_trap();
    if (eq) { EqrelRelation r; build(r, EQI[0], n, C_NEW | C_OLD, 1, 0, 0); if (virt) r.purge(); else r.__purge(); report(out, EQI[0]); }
    else { Relation<2, 0, Btree> r; build(r, BTI[0], n, C_OLD, 1, 0, 0); if (virt) r.purge(); else r.__purge(); report(out, BTI[0]); }
}
/* RAM MERGE-EXTEND trg WITH src: Engine calls src.extendAndInsert(trg); src = @new (explicit new pairs), trg = the full relation */
__attribute__((noinline)) void k_rel_extend(int nsrc, int ntrg, int* out) {
    using namespace verif_rel;
    if (nsrc < 1 || nsrc > 3 || ntrg < 1 || ntrg > 3) __builtin_trap();
    EqrelRelation src, trg; build(src, EQI[0], nsrc, C_NEW, 0, 0, 0); build(trg, EQI[1], ntrg, C_OLD, 0, 0, 0);
    src.extendAndInsert(trg);
    report(out, EQI[0]); report(out + 13, EQI[1]);
}
__attribute__((noinline)) void k_rel_erase(int n, int pre, int a, int b, int* out) {
    using namespace verif_rel;
    if (n < 1 || n > 3) __builtin_trap();
    BtreeDeleteRelation<2, 0> r; build(r, BDI, n, 0, pre, a, b);
    out[12] = r.erase(souffle::Tuple<souffle::RamDomain, 2>{{a, b}});
    report(out, BDI);
}
/* Relation::swap (not used by the Engine, which swaps relation handles): the index sets are exchanged */
__attribute__((noinline)) void k_rel_swap(int n1, int n2, int* out) {
    using namespace verif_rel;
    if (n1 < 1 || n1 > 3 || n2 < 1 || n2 > 3) __builtin_trap();
    Relation<2, 0, Btree> r1, r2; build(r1, BTI[0], n1, C_NEW, 0, 0, 0); build(r2, BTI[1], n2, C_OLD, 0, 0, 0);
    r1.swap(r2);
    out[0] = (int)r1.indexes.size(); out[1] = (int)r2.indexes.size();
    int ok = 1;
    for (std::size_t i = 0; i < r1.indexes.size(); i++) if (r1.indexes[i].get() != &BTI[1][i]) ok = 0;
    for (std::size_t i = 0; i < r2.indexes.size(); i++) if (r2.indexes[i].get() != &BTI[0][i]) ok = 0;
    out[2] = ok;
    out[3] = (r1.main == r1.indexes[0].get()) && (r2.main == r2.indexes[0].get());
}
@SYNKERNELS@
}
'''

SYN_KERNEL = r'''__attribute__((noinline)) void k_eqc_@RULE@(int e0, int e1, int* out) {
    using namespace souffle; using namespace verif_syn;
    const Tuple<RamDomain, 2> env0{{e0, e1}};
    t_eqrel rel; t_eqrel* @REL@ = &rel; t_eqrel::context @REL@_op_ctxt;
    /* ---- verbatim: call emitted by the synthesiser for rule @RULE@ ---- */
    auto range = @CALL@;
    emit(out, range);
}'''


# ------------------------------------------------------------------------------------------------------------------
# slicing
# ------------------------------------------------------------------------------------------------------------------
def slice_sources(work):
    s = {}
    gen = common.read_repo("src/interpreter/Generator.cpp")
    eng = common.read_repo("src/interpreter/Engine.cpp")
    node = common.read_repo("src/interpreter/Node.h")
    eqh = common.read_repo("src/include/souffle/datastructure/EquivalenceRelation.h")
    eqr = common.read_repo("src/include/souffle/datastructure/EqRel.h")
    s["getsuper"] = K.extract_braced(gen, r"\nSuperInstruction NodeGenerator::getIndexSuperInstInfo\(const ram::IndexOperation& ramIndex\) \{",
                                     "NodeGenerator::getIndexSuperInstInfo").strip()
    for need in ("isUndefValue", "getRangePattern"):
        if need not in s["getsuper"]:
            raise EngineError("getIndexSuperInstInfo no longer mentions `%s`; the slice template is out of date" % need)
    s["superclass"] = K.extract_braced(node, r"\nclass SuperInstruction \{", "class SuperInstruction").strip().replace("std::vector", "vstd::vector") + ";"
    m = re.search(r"^#define TUPLE_COPY_FROM\(dst, src\)(?:.*\\\n)*.*\n(?:\s*\n)*#define CAL_SEARCH_BOUND\(superInfo, low, high\)(?:.*\\\n)*.*\n", eng, re.M)
    if not m:
        raise EngineError("slice anchor not found: TUPLE_COPY_FROM / CAL_SEARCH_BOUND macros in interpreter/Engine.cpp")
    s["macros"] = m.group(0)
    scan = K.extract_braced(eng, r"\ntemplate <typename Rel>\nRamDomain Engine::evalIndexScan\(const ram::IndexScan& cur, const IndexScan& shadow, Context& ctxt\) \{",
                            "Engine::evalIndexScan")
    loop = "for (const auto& tuple : view->range(low, high)) {"
    if loop not in scan or "CAL_SEARCH_BOUND(superInfo, low, high);" not in scan:
        raise EngineError("Engine::evalIndexScan no longer has the shape CAL_SEARCH_BOUND(..) + `%s`" % loop)
    s["scanhead"] = scan[:scan.index(loop)].rstrip()
    # every other index operation must build its bounds and query the index in the same way (counted for the evidence)
    s["n_cal"] = len(re.findall(r"^\s*CAL_SEARCH_BOUND\(superInfo, low, high\);", eng, re.M))
    s["n_range"] = len(re.findall(r"view->range\(low, high\)|partitionRange\(indexPos, low, high,|\.contains\(low, high\)|->contains\(low, high\)", eng))
    # every lower_bound / upper_bound overload of EquivalenceRelation is pasted (a repair that adds an overload, e.g. one taking both
    # bounds, is then part of the slice as soon as Index.h calls it)
    lbs, ubs = [], []
    for mm in re.finditer(r"\n    iterator (lower_bound|upper_bound)\(([^)]*)\) const \{", eqh):
        body = K.extract_braced(eqh[mm.start():], re.escape(mm.group(0)[:-1]) + r"\{", "EquivalenceRelation::%s(%s)" % (mm.group(1), mm.group(2))).strip()
        (lbs if mm.group(1) == "lower_bound" else ubs).append(body)
    if not any("const TupleType& entry, operation_hints&" in x.split("{")[0] for x in lbs) or not ubs:
        raise EngineError("EquivalenceRelation::lower_bound(entry, hints) / upper_bound not found; slice template out of date")
    s["lb"], s["ub"] = "\n    ".join(lbs), "\n    ".join(ubs)
    s["n_lb_overloads"] = len(lbs)
    s["getboundaries"] = K.extract_braced(eqh, r"\n    template <unsigned levels>\n    range<iterator> getBoundaries\(const TupleType& entry, operation_hints&\) const \{",
                                          "EquivalenceRelation::getBoundaries").strip()
    # interpreter/Relation.h: the mutating member functions of Relation<> and the derived EqrelRelation / BtreeDeleteRelation classes
    relh = common.read_repo("src/interpreter/Relation.h")
    cls_start = relh.find("\nclass Relation : public RelationWrapper {")
    cls_end = relh.find("\ntemplate <std::size_t _Arity, std::size_t _AuxiliaryArity>\nclass BtreeDeleteRelation")
    if cls_start < 0 or cls_end < cls_start:
        raise EngineError("slice anchor not found: class Relation / class BtreeDeleteRelation in interpreter/Relation.h")
    rcls = relh[cls_start:cls_end]
    members = []
    for what, pat in (("Relation::constructTuple", r"\n    static Tuple constructTuple\(const RamDomain\* data\) \{"),
                      ("Relation::purge", r"\n    void purge\(\) override \{"),
                      ("Relation::insert(const RamDomain*)", r"\n    void insert\(const RamDomain\* data\) override \{"),
                      ("Relation::insert(const Tuple&)", r"\n    bool insert\(const Tuple& tuple\) \{"),
                      ("Relation::swap", r"\n    void swap\(Relation<Arity, AuxiliaryArity, Structure>& other\) \{"),
                      ("Relation::__purge", r"\n    void __purge\(\) \{")):
        members.append(K.extract_braced(rcls, pat, what).strip())
    if not re.search(r"\n    VecOwn<Index> indexes;", rcls) or not re.search(r"\n    Index\* main;", rcls):
        raise EngineError("Relation no longer declares `VecOwn<Index> indexes; Index* main;`: the relation slice is out of date")
    # every other member that touches `indexes` / `main` must be a reader (listed here) -- a new mutating member must not go unnoticed
    known = ("createView", "getIndexOrder", "begin", "end", "contains", "scan", "partitionScan", "range", "partitionRange", "__size", "empty", "exists",
             "getIndex", "printStats", "Relation", "RelationWrapper", "size", "insert", "swap", "__purge", "purge", "constructTuple", "castView", "iterator_base", "clone", "equal")
    for mm in re.finditer(r"\n    (?:[\w:<>,\s\*&]+?[\s\*&])?(\w+)\(([^)]*)\)(?: const)?(?: override)? \{", rcls):
        if mm.group(1) not in known and mm.group(1) not in ("operator", "for", "if", "while"):
            raise EngineError("interpreter Relation has a member function the relation slice does not know: %s(%s)" % (mm.group(1), mm.group(2)))
    s["rel_members"] = "\n    ".join(members)
    s["rel_btreedelete"] = K.extract_braced(relh, r"\ntemplate <std::size_t _Arity, std::size_t _AuxiliaryArity>\nclass BtreeDeleteRelation : public Relation<_Arity, _AuxiliaryArity, BtreeDelete> \{",
                                            "class BtreeDeleteRelation").strip()
    s["rel_eqrel"] = K.extract_braced(relh, r"\nclass EqrelRelation : public Relation<2, 0, Eqrel> \{", "class EqrelRelation").strip()
    # compiled wrapper (header in this version of souffle; EqrelRelation::generateTypeStruct only emits the include)
    rel_cpp = common.read_repo("src/synthesiser/Relation.cpp")
    gts = K.extract_braced(rel_cpp, r"\nvoid EqrelRelation::generateTypeStruct\(GenDb& db\) \{", "EqrelRelation::generateTypeStruct")
    if "souffle/datastructure/EqRel.h" not in gts:
        raise EngineError("EqrelRelation::generateTypeStruct no longer just includes souffle/datastructure/EqRel.h; the compiled-side slice is out of date")
    its = []
    for k in (0, 1):
        t = K.extract_braced(eqr, r"\n    class iterator_%d \{" % k, "t_eqrel::iterator_%d" % k).strip()
        its.append(re.sub(r"^class iterator_", "struct iterator_", t))
    s["iter0"], s["iter1"] = its
    lur = []
    s["lur_names"] = []
    for mm in re.finditer(r"\n    (range<iterator(?:_1)?> (lowerUpperRange_\d+)\(const t_tuple& lower, const t_tuple& /\*upper\*/, context& h\) const \{)", eqr):
        lur.append(K.extract_braced(eqr[mm.start():], re.escape(mm.group(1)[:-1]) + r"\{", "t_eqrel::" + mm.group(2)).strip())
        s["lur_names"].append(mm.group(2))
    if sorted(s["lur_names"]) != ["lowerUpperRange_01", "lowerUpperRange_10", "lowerUpperRange_11"]:
        raise EngineError("t_eqrel range members not recognised in EqRel.h: %s" % s["lur_names"])
    s["lur"] = "\n    ".join(lur)
    s["reorder"] = K.extract_braced(eqr, r"\n    static t_tuple reorder\(const t_tuple& t\) \{", "t_eqrel::reorder").strip()
    # call sites from the real synthesiser
    souffle = common.ensure_souffle()
    dl = os.path.join(work, "eqc.dl")
    gcpp = os.path.join(work, "eqc_gen.cpp")
    open(dl, "w").write(SYN_PROGRAM)
    rc, out, err = sh([souffle, "-g", gcpp, dl], timeout=600, cwd=work)
    if rc != 0 or not os.path.exists(gcpp):
        raise EngineError("souffle -g failed on the eqrel lookup program: rc=%d %s" % (rc, (out + err)[-1500:]))
    txt = open(gcpp).read()
    s["gen_sha"] = common.file_sha(gcpp)
    if not re.search(r"^t_eqrel\* rel_eq_[0-9a-f]{16};", txt, re.M):
        raise EngineError("generated code does not declare the eqrel relation as `t_eqrel* rel_eq_<hash>`")
    s["calls"] = {}
    parts = re.split(r"^void Stratum_(\w+?)_[0-9a-f]{16}::run\(", txt, flags=re.M)
    for i in range(1, len(parts), 2):
        name, body = parts[i], parts[i + 1]
        if name not in SYN_RULES:
            continue
        body = body[:body.index("\nif (performIO)")] if "\nif (performIO)" in body else body
        cs = re.findall(r"((rel_eq_[0-9a-f]{16})->lowerUpperRange_\d+\(.*?,READ_OP_CONTEXT\(rel_eq_[0-9a-f]{16}_op_ctxt\)\))", body)
        if len(cs) != 1:
            raise EngineError("expected exactly one eqrel range query in the code emitted for rule %s, found %d" % (name, len(cs)))
        if re.search(r"rel_eq_[0-9a-f]{16}->(?!lowerUpperRange_|createContext|empty)\w+", body):
            raise EngineError("rule %s accesses the eqrel relation in a way the slice does not cover" % name)
        s["calls"][name] = (cs[0][0], cs[0][1])
    for r in SYN_RULES:
        if r not in s["calls"]:
            raise EngineError("no code found for rule %s in the generated C++" % r)
    return s


def build_tu(s):
    kern = []
    for r, (call, rel) in sorted(s["calls"].items()):
        kern.append(SYN_KERNEL.replace("@RULE@", r).replace("@REL@", rel).replace("@CALL@", call))
    t = TEMPLATE
    for k, v in (("@LB@", s["lb"]), ("@UB@", s["ub"]), ("@SUPERCLASS@", s["superclass"]), ("@GETSUPER@", s["getsuper"]), ("@MACROS@", s["macros"]),
                 ("@SCANHEAD@", s["scanhead"]), ("@GETBOUNDARIES@", s["getboundaries"]), ("@ITER0@", s["iter0"]), ("@ITER1@", s["iter1"]),
                 ("@LUR@", s["lur"]), ("@REORDER@", s["reorder"]), ("@SYNKERNELS@", "\n".join(kern)),
                 ("@REL_MEMBERS@", s["rel_members"]), ("@REL_BTREEDELETE@", s["rel_btreedelete"]), ("@REL_EQREL@", s["rel_eqrel"]),
                 ):
        t = t.replace(k, v)
    return t


# ------------------------------------------------------------------------------------------------------------------
# checks (shared by the CBMC harness and the native replay driver)
# ------------------------------------------------------------------------------------------------------------------
class Check:
    def __init__(self, cid, group, pattern, nin, body, what, bound=(), meta=None, e2e=None, dom="1", key=None):
        self.cid, self.group, self.pattern, self.nin, self.body, self.what = cid, group, pattern, nin, body, what
        self.bound = list(bound)        # [(IN index, 'first'|'second')]: the cells that hold bound column values
        self.meta = meta or {}
        self.e2e = e2e                  # pattern name for the end-to-end replay (interpreter eqrel only)
        self.dom = dom                  # assumed domain of the inputs (C expression over IN[])
        self.key = key                  # fixed finding key (checks without value classes)


def _tok_expect(kind_expr, a=None, b=None, base=0):
    c = ["OUT[%d] == %s" % (base, kind_expr)]
    if a is not None:
        c.append("OUT[%d] == %s" % (base + 1, a))
    if b is not None:
        c.append("OUT[%d] == %s" % (base + 2, b))
    return "(" + " && ".join(c) + ")"


def eq_spec(pattern, p0, p1, base=0):
    """expected lower token for the pattern; p0/p1 = values at index positions 0/1"""
    if pattern == "none":
        return _tok_expect("T_BEGIN", base=base), "the whole relation (begin .. end)"
    if pattern == "one":
        return ("(NE ? %s : %s)" % (_tok_expect("T_ANT", p0, base=base), _tok_expect("T_END", base=base)),
                "all pairs whose indexed element is the bound value (anteriorIt(v) .. end), nothing if v is not in the relation")
    return ("(CT ? %s : %s)" % (_tok_expect("T_PAIR", p0, p1, base=base), _tok_expect("T_END", base=base)),
            "exactly the pair (antpostit(x,y) .. end), nothing if the pair is not in the relation")


def build_checks(s, tier):
    checks = []
    kinds_all = [K_ELEM, K_CONST, K_EXPR]
    # ---- (I) interpreter eqrel.  IN[0], IN[1]: values of source columns 0/1; IN[2..5]: garbage sitting in the unused value slots.
    #      How the RAM gives a bound value (constant / tuple element / expression) is enumerated outside the query:
    #      symbolic kinds make the SuperInstruction arrays symbolic-indexed and the queries 50x more expensive (measured).
    pats = [("none", (False, False), (0, 1)), ("first-bound", (True, False), (0,)), ("second-bound", (False, True), (1,)), ("both-bound", (True, True), (0, 1))]
    for pname, bnd, orders in pats:
        for ord0 in orders:
            if pname == "none":
                combos = [(K_UNDEF, K_UNDEF)]
            elif pname == "both-bound":
                combos = [(x, y) for x in kinds_all for y in kinds_all] if tier == "thorough" else [(K_ELEM, K_ELEM)] if ord0 == 0 else [(K_CONST, K_EXPR)]
            else:
                ks = kinds_all if tier == "thorough" else [K_ELEM, K_EXPR] if bnd[0] else [K_ELEM, K_CONST]
                combos = [(k if bnd[0] else K_UNDEF, k if bnd[1] else K_UNDEF) for k in ks]
            for k0, k1 in combos:
                order = (1, 0) if ord0 else (0, 1)
                bidx = [bnd[order[0]], bnd[order[1]]]           # boundness per index position
                val = lambda c: "IN[%d]" % c
                p = [val(order[0]), val(order[1])]
                kname = "-".join(KIND_NAME[k] for k in (k0, k1) if k != K_UNDEF) or "undef"
                cid = "eqi_%s_o%d%d_%s" % (pname.replace("-", ""), order[0], order[1], kname.replace("-", ""))
                spat = "none" if pname == "none" else "both" if pname == "both-bound" else "one"
                exp, desc = eq_spec(spat, p[0], p[1])
                b = ["KINDS[0] = %d; KINDS[1] = %d; KINDS[2] = %d; KINDS[3] = %d;" % (k0, k1, k0, k1),
                     "VALS[0] = %s; VALS[1] = %s; VALS[2] = %s; VALS[3] = %s;" % (
                         val(0) if bnd[0] else "IN[2]", val(1) if bnd[1] else "IN[3]", val(0) if bnd[0] else "IN[4]", val(1) if bnd[1] else "IN[5]"),
                     "k_eqi_scan(%d, (uint32_t*)KINDS, (uint32_t*)VALS, (uint32_t*)OUT);" % ord0,
                     'CHECK(OUT[6] == %s && OUT[7] == %s && OUT[8] == %s && OUT[9] == %s, "search bounds are the bound values, MIN/MAX padding for unbound columns, in index order");'
                     % (p[0] if bidx[0] else "MINV", p[1] if bidx[1] else "MINV", p[0] if bidx[0] else "MAXV", p[1] if bidx[1] else "MAXV"),
                     'CHECK(%s && OUT[3] == T_END, "the range chosen for the pattern is: %s");' % (exp, desc)]
                if spat == "one":
                    b.append('CHECK(ne_calls == 1 && ne_arg == %s && ct_calls == 0, "membership of the bound value (and nothing else) is looked up");' % p[0])
                elif spat == "both":
                    b.append('CHECK(ct_calls == 1 && ct_a == %s && ct_b == %s && ne_calls == 0, "membership of the bound pair (and nothing else) is looked up");' % (p[0], p[1]))
                else:
                    b.append('CHECK(ne_calls == 0 && ct_calls == 0, "no membership lookup for an unrestricted scan");')
                bound = [(c, ("first", "second")[c]) for c in (0, 1) if bnd[c]]
                checks.append(Check(cid, "interp-eqrel", pname, 6, b,
                                    "interpreter eqrel lookup, pattern %s, index order %s, bound value given as %s" % (pname, list(order), kname),
                                    bound, {"pattern": pname, "index_order": list(order), "bound_value_kinds": kname}, e2e=pname if pname != "none" else None))
    # Index::range == View::range on arbitrary bounds
    b = ["k_eqi_idxrange(IN[0], IN[1], IN[2], IN[3], (uint32_t*)OUT);",
         'CHECK(OUT[0] == OUT[10] && OUT[1] == OUT[11] && OUT[2] == OUT[12] && OUT[3] == OUT[13], "Index::range (parallel scans) chooses the same range as View::range for all bounds");']
    checks.append(Check("eqi_idxrange", "interp-eqrel", "any", 4, b, "interpreter eqrel: Index::range agrees with Index::View::range on all low/high", [], {"pattern": "arbitrary low/high"}))
    # ---- (II) compiled eqrel: one obligation per distinct emitted call text
    by_call = {}
    for r, (pname, cols) in sorted(SYN_RULES.items()):
        call = re.sub(r"rel_eq_[0-9a-f]{16}", "rel_eq", s["calls"][r][0])
        by_call.setdefault((call, pname, tuple(sorted(cols.items()))), []).append(r)
    for (call, pname, colitems), rules in sorted(by_call.items(), key=lambda x: x[1]):
        r, cols = rules[0], dict(colitems)
        if pname == "both-bound":
            exp, desc = eq_spec("both", "IN[%d]" % cols[0], "IN[%d]" % cols[1])
            dec = "OUT[6] == IN[%d] && OUT[7] == IN[%d] && OUT[8] == 0" % (cols[0], cols[1])
            look = "ct_calls == 1 && ct_a == IN[%d] && ct_b == IN[%d] && ne_calls == 0" % (cols[0], cols[1])
        else:
            col = 0 if pname == "first-bound" else 1
            v = "IN[%d]" % cols[col]
            exp, desc = eq_spec("one", v, None)
            dec = "OUT[%d] == %s && OUT[8] == %d" % (6 + col, v, col)
            look = "ne_calls == 1 && ne_arg == %s && ct_calls == 0" % v
        b = ["k_eqc_%s(IN[0], IN[1], (uint32_t*)OUT);" % r,
             'CHECK(%s && OUT[3] == T_END, "the range chosen for the pattern is: %s");' % (exp, desc),
             'CHECK(OUT[0] == T_END || (%s), "the tuples delivered by the chosen iterator carry the bound value(s) in the bound source column(s)");' % dec,
             'CHECK(%s, "membership of the bound value(s) (and nothing else) is looked up");' % look]
        bound = [(cols[c], ("first", "second")[c]) for c in sorted(cols)]
        checks.append(Check("eqc_" + r, "compiled-eqrel", pname, 2, b, "compiled eqrel lookup emitted for rules %s: %s" % (rules, call[:40] + "..."),
                            bound, {"pattern": pname, "rules_with_this_emitted_call": rules, "emitted_call": call}))
    # ---- (III) interpreter B-tree, arity 3.  IN[0..2] low values and IN[3..5] high values per SOURCE column, IN[6..8] a stored
    #      tuple (index order), IN[9..14] garbage in the value slots of unbound columns.  Shapes (per index position): eq / ge /
    #      le / rg (both) / - (unbound); enumerated outside the query for the same reason as above.
    shapes = [["eq"] * k + ["-"] * (3 - k) for k in range(0, 4)]
    for k in range(0, 3):
        for ine in ("ge", "le", "rg"):
            shapes.append(["eq"] * k + [ine] + ["-"] * (2 - k))
    if tier == "thorough":
        perms, kind_variants = PERMS3, kinds_all
    else:
        perms, kind_variants = PERMS3[:2], [K_ELEM]
        quick_shapes = {PERMS3[1]: (["-", "-", "-"], ["eq", "eq", "eq"], ["eq", "rg", "-"], ["eq", "eq", "le"], ["ge", "-", "-"], ["eq", "-", "-"]),
                        PERMS3[0]: (["eq", "ge", "-"], ["rg", "-", "-"])}
    for perm in perms:
        for sh_ in shapes:
            if tier != "thorough" and sh_ not in quick_shapes[perm]:
                continue
            for kv in kind_variants:
                if kv != K_ELEM and (all(x == "-" for x in sh_) or perm not in PERMS3[:2]):
                    continue
                kinds = [K_UNDEF] * 6
                vals = ["IN[%d]" % (9 + j) for j in range(6)]
                want = []
                for i, shp in enumerate(sh_):
                    c = perm[i]                      # source column stored at index position i
                    lo, hi, tt = "IN[%d]" % c, "IN[%d]" % (3 + c), "IN[%d]" % (6 + i)
                    if shp == "eq":
                        kinds[c] = kinds[3 + c] = kv
                        vals[c] = vals[3 + c] = lo
                        want.append("%s == %s" % (tt, lo))
                    elif shp == "ge":
                        kinds[c], vals[c] = kv, lo
                        want.append("%s >= %s" % (tt, lo))
                    elif shp == "le":
                        kinds[3 + c], vals[3 + c] = kv, hi
                        want.append("%s <= %s" % (tt, hi))
                    elif shp == "rg":
                        kinds[c] = kinds[3 + c] = kv
                        vals[c], vals[3 + c] = lo, hi
                        want.append("%s >= %s && %s <= %s" % (tt, lo, tt, hi))
                cid = "bti_p%d%d%d_%s_%s" % (perm + ("".join(x[0] if x != "-" else "x" for x in sh_), KIND_NAME[kv]))
                b = ["; ".join("KINDS[%d] = %d" % (j, kinds[j]) for j in range(6)) + ";",
                     "; ".join("VALS[%d] = %s" % (j, vals[j]) for j in range(6)) + ";",
                     "TUP[0] = IN[6]; TUP[1] = IN[7]; TUP[2] = IN[8];",
                     "k_bti_scan(%d, %d, %d, (uint32_t*)KINDS, (uint32_t*)VALS, (uint32_t*)TUP, (uint32_t*)OUT);" % perm,
                     "int want = %s;" % (" && ".join("(%s)" % w for w in want) or "1"),
                     "WITNESS_ASSUME(want);",
                     'CHECK(!want || (OUT[0] & 1), "every stored tuple matching the bound columns is inside [lower_bound(low), upper_bound(high))");',
                     'CHECK(!(OUT[0] & 1) || want, "every stored tuple inside [lower_bound(low), upper_bound(high)) matches the bound columns");']
                checks.append(Check(cid, "interp-btree", "/".join(sh_), 15, b,
                                    "interpreter B-tree index of arity 3, index order %s, per-position constraints %s, values given as %s" % (list(perm), sh_, KIND_NAME[kv]),
                                    [], {"index_order": list(perm), "constraints_by_index_position": sh_, "bound_value_kinds": KIND_NAME[kv]}))
    # ---- (IV) interpreter Relation.h: every mutating operation reaches all indexes of the relation.  The number of indexes (1..3) is
    #      enumerated inside one harness per operation as consecutive concrete calls: a symbolic count makes every index access symbolic
    #      (0.5-1.2 M variables per query, measured), concrete counts fold to almost nothing.
    all_i = lambda n, cond: " && ".join("(%s)" % (cond % {"o": 4 * i}) for i in range(n))
    pairs = [(a_, b_) for a_ in (1, 2, 3) for b_ in (1, 2, 3)]
    for eq in (0, 1):
        kind = "EqrelRelation" if eq else "Relation<2,0,Btree>"
        tag = "eqrel" if eq else "btree"
        b = []
        for n in (1, 2, 3):
            b += ["k_rel_insert(%d, IN[1], IN[2], IN[3], IN[4], %d, (uint32_t*)OUT);" % (n, eq),
                  'CHECK(%s, "after insert(tuple) every index of a relation with %d indexes stores the tuple");' % (all_i(n, "OUT[%(o)d + 1] == 1"), n),
                  'CHECK(%s, "every index that is updated receives the tuple as given (%d indexes)");' % (all_i(n, "OUT[%(o)d + 3] == 1"), n),
                  'CHECK(IN[4] || OUT[12] == !IN[1], "insert reports whether the tuple was new");']
        checks.append(Check("rel_insert_%s" % tag, "interp-relation", "insert", 5, b,
                            "interpreter %s::insert (typed and raw-data entry points), 1, 2 and 3 indexes, tuple present in all / in none before" % kind,
                            [], {"operation": "insert", "relation": kind, "indexes": [1, 2, 3]}, dom="(IN[1] == 0 || IN[1] == 1) && (IN[4] == 0 || IN[4] == 1)",
                            key="relation-indexes:insert:%s" % tag))
        b = []
        for n in (1, 2, 3):
            b += ["k_rel_purge(%d, IN[1], %d, (uint32_t*)OUT);" % (n, eq),
                  'CHECK(%s, "after purge every index of a relation with %d indexes is empty");' % (all_i(n, "OUT[%(o)d] == 0 && OUT[%(o)d + 1] == 0"), n)]
        checks.append(Check("rel_purge_%s" % tag, "interp-relation", "purge", 2, b,
                            "interpreter %s::purge / __purge, 1, 2 and 3 non-empty indexes" % kind, [], {"operation": "purge", "relation": kind, "indexes": [1, 2, 3]},
                            dom="(IN[1] == 0 || IN[1] == 1)", key="relation-indexes:purge:%s" % tag))
    b = []
    for ns, nt in pairs:
        b += ["k_rel_extend(%d, %d, (uint32_t*)OUT);" % (ns, nt),
              'CHECK(%s, "after MERGE-EXTEND every index of the extended (@new) relation holds the new pairs and the pairs implied together with the old knowledge (%d source / %d target indexes)");'
              % (all_i(ns, "(OUT[%(o)d] & 5) == 5"), ns, nt)]
    checks.append(Check("rel_extend_source", "interp-relation", "extendAndInsert", 1, b,
                        "interpreter EqrelRelation::extendAndInsert (RAM MERGE-EXTEND), source side: 1..3 source x 1..3 target indexes", [],
                        {"operation": "extendAndInsert", "side": "source (@new, becomes @delta after SWAP)", "indexes": "1..3 x 1..3"}, e2e="merge-extend",
                        key="eqrel-relation:extendAndInsert:source-index-not-extended"))
    b = []
    for ns, nt in pairs:
        b += ["k_rel_extend(%d, %d, (uint32_t*)OUT);" % (ns, nt),
              'CHECK(%s, "after MERGE-EXTEND every index of the target relation holds its old pairs and the new pairs (%d source / %d target indexes)");'
              % (all_i(nt, "(OUT[13 + %(o)d] & 3) == 3"), ns, nt)]
    checks.append(Check("rel_extend_target", "interp-relation", "extendAndInsert", 1, b,
                        "interpreter EqrelRelation::extendAndInsert (RAM MERGE-EXTEND), target side: 1..3 source x 1..3 target indexes", [],
                        {"operation": "extendAndInsert", "side": "target (the full relation)", "indexes": "1..3 x 1..3"},
                        key="eqrel-relation:extendAndInsert:target-index-not-updated"))
    b = []
    for n in (1, 2, 3):
        b += ["k_rel_erase(%d, IN[1], IN[2], IN[3], (uint32_t*)OUT);" % n,
              'CHECK(%s, "after erase(tuple) no index of a relation with %d indexes stores the tuple");' % (all_i(n, "OUT[%(o)d + 1] == 0"), n),
              'CHECK(%s, "every index that is updated receives the tuple as given (%d indexes)");' % (all_i(n, "OUT[%(o)d + 3] == 1"), n),
              'CHECK(OUT[12] == IN[1], "erase reports whether the tuple was present");']
    checks.append(Check("rel_erase_btreedelete", "interp-relation", "erase", 4, b, "interpreter BtreeDeleteRelation::erase, 1, 2 and 3 indexes, tuple present in all / in none before",
                        [], {"operation": "erase", "relation": "BtreeDeleteRelation<2,0>", "indexes": [1, 2, 3]}, dom="(IN[1] == 0 || IN[1] == 1)", key="relation-indexes:erase:btreedelete"))
    b = []
    for n1, n2 in pairs:
        b += ["k_rel_swap(%d, %d, (uint32_t*)OUT);" % (n1, n2),
              'CHECK(OUT[0] == %d && OUT[1] == %d && OUT[2] == 1, "swap exchanges the complete index sets of the two relations (%d / %d indexes)");' % (n2, n1, n1, n2)]
    checks.append(Check("rel_swap", "interp-relation", "swap", 1, b, "interpreter Relation::swap, 1..3 x 1..3 indexes (the `main` pointers are not part of the obligation)",
                        [], {"operation": "swap", "note": "Relation::swap is not called by the Engine (RAM SWAP exchanges relation handles)", "indexes": "1..3 x 1..3"},
                        key="relation-indexes:swap"))
    return checks


CHECKS_H = r'''
/* generated: checks shared by the CBMC harness and the native replay driver */
#include <stdint.h>
enum { T_BEGIN = 1, T_END = 2, T_ANT = 3, T_PAIR = 4 };
#define MINV (-2147483647 - 1)
#define MAXV 2147483647
int32_t IN[16]; int32_t NE, CT;
int32_t OUT[32], KINDS[6], VALS[6], TUP[3];
int ne_calls, ct_calls; int32_t ne_arg, ct_a, ct_b;
#ifdef __CPROVER__
void verif_assert_fail(uint8_t* a, uint8_t* f, uint32_t l, uint8_t* fn) { __CPROVER_assert(0, "assert() inside the real code failed"); __CPROVER_assume(0); }
#else
void verif_assert_fail(uint8_t* a, uint8_t* f, uint32_t l, uint8_t* fn) { printf("ASSERTION-FAILED in real code: %s\n", (char*)a); exit(4); }
#endif
uint32_t verif_node_exists(uint32_t v) { ne_calls++; ne_arg = (int32_t)v; return (uint32_t)NE; }
uint32_t verif_contains(uint32_t a, uint32_t b) { ct_calls++; ct_a = (int32_t)a; ct_b = (int32_t)b; return (uint32_t)CT; }
#ifndef VERIF_HAVE_KERNEL_DECLS
void k_eqi_scan(uint32_t, uint32_t*, uint32_t*, uint32_t*);
void k_eqi_idxrange(uint32_t, uint32_t, uint32_t, uint32_t, uint32_t*);
void k_bti_scan(uint32_t, uint32_t, uint32_t, uint32_t*, uint32_t*, uint32_t*, uint32_t*);
void k_rel_insert(uint32_t, uint32_t, uint32_t, uint32_t, uint32_t, uint32_t, uint32_t*); void k_rel_purge(uint32_t, uint32_t, uint32_t, uint32_t*);
void k_rel_extend(uint32_t, uint32_t, uint32_t*); void k_rel_erase(uint32_t, uint32_t, uint32_t, uint32_t, uint32_t*); void k_rel_swap(uint32_t, uint32_t, uint32_t*);
@SYNDECLS@
#endif
@CHECKS@
'''

HARNESS = r'''
#include "verif_rt.h"
#include "k08.c"
#define VERIF_HAVE_KERNEL_DECLS
#define CHECK(c, msg) __CPROVER_assert(c, msg)
#ifdef WITNESS
#define WITNESS_ASSUME(c) __CPROVER_assume(c)
#else
#define WITNESS_ASSUME(c)
#endif
int32_t nondet_i32(void);
@INDECL@
#include "c08k_common.h"
#include "c08k_chk_@CID@.h"
#ifndef EXCL
#define EXCL 0
#endif
int main(void) {
@INASSIGN@
  NE0 = nondet_i32(); CT0 = nondet_i32(); __CPROVER_assume(NE0 == 0 || NE0 == 1); __CPROVER_assume(CT0 == 0 || CT0 == 1);
  NE = NE0; CT = CT0;
  __CPROVER_assume(!(EXCL));
  __CPROVER_assume(dom_@CID@());
  chk_@CID@();
#ifdef WITNESS
  __CPROVER_assert(0, "witness");
#endif
  return 0;
}
'''

DRIVER = r'''
#include <stdio.h>
#include <stdlib.h>
#include <string.h>
__attribute__((weak)) void _ZdlPv(void* p) { free(p); }
static int bad, verbose;
#define CHECK(c, msg) do { if (!(c)) { bad = 1; if (verbose) printf("CHECK-FAILED: %s\n", msg); } } while (0)
#define WITNESS_ASSUME(c)
#include "c08k_checks.h"
typedef void (*chk_t)(void); typedef int (*dom_t)(void);
static const struct { const char* cid; int nin; chk_t chk; dom_t dom; } T[] = { @TABLE@ };
static const int32_t BV[] = { MINV, MINV + 1, -1, 0, 1, 2, 5, MAXV - 1, MAXV };
#define NBV (sizeof(BV) / sizeof(BV[0]))
static void reset(void) { ne_calls = ct_calls = 0; ne_arg = ct_a = ct_b = 0; bad = 0; memset(OUT, 0, sizeof(OUT)); }
int main(int argc, char** argv) {
  if (argc >= 3 && !strcmp(argv[1], "one")) {
    verbose = 1;
    for (unsigned k = 0; k < sizeof(T) / sizeof(T[0]); k++) if (!strcmp(T[k].cid, argv[2])) {
      for (int i = 0; i < T[k].nin && 3 + i < argc; i++) IN[i] = (int32_t)strtoll(argv[3 + i], 0, 0);
      NE = 3 + T[k].nin < argc ? atoi(argv[3 + T[k].nin]) : 0; CT = 4 + T[k].nin < argc ? atoi(argv[4 + T[k].nin]) : 0;
      if (!T[k].dom()) { printf("outside the domain of the obligation\n"); return 0; }
      reset(); T[k].chk();
      printf("kernel output:"); for (int i = 0; i < 10; i++) printf(" %d", OUT[i]); printf("  (tokens: 1 begin, 2 end, 3 anteriorIt(a), 4 antpostit(a,b))\n");
      if (bad) { printf("MISMATCH\n"); return 3; }
      printf("all checks hold for this input\n"); return 0;
    }
    printf("unknown obligation\n"); return 2;
  }
  unsigned s = 2463534242u;
  for (unsigned k = 0; k < sizeof(T) / sizeof(T[0]); k++) {
    for (int it = 0; it < 150; it++) {
      for (int i = 0; i < T[k].nin; i++) { s = s * 1103515245u + 12345u; IN[i] = (s >> 29) ? BV[(s >> 8) % NBV] : (int32_t)((s >> 8) ^ (s << 11)); }
      s = s * 1103515245u + 12345u; NE = (s >> 16) & 1; CT = (s >> 17) & 1;
      if (!strncmp(T[k].cid, "rel_", 4)) { for (int i = 0; i < T[k].nin; i++) { s = s * 1103515245u + 12345u; IN[i] = (i == 2 || i == 3) && T[k].nin > 3 ? (int32_t)(s >> 8) : (int32_t)((s >> 16) % 3); } }
      if (!T[k].dom()) continue;
      reset(); T[k].chk();
      printf("%s %d:", T[k].cid, it); for (int i = 0; i < 14; i++) printf(" %d", OUT[i]); printf(" | %d %d %d %d %d\n", ne_calls, ne_arg, ct_calls, ct_a, ct_b);
    }
  }
  return 0;
}
'''


def checks_header(checks, s, work):
    """c08k_checks.h: everything (native driver); c08k_common.h + c08k_chk_<cid>.h: what one CBMC harness needs"""
    fn = []
    for c in checks:
        f = "static int dom_%s(void) { return %s; }\nstatic void chk_%s(void) {\n  %s\n}" % (c.cid, c.dom, c.cid, "\n  ".join(c.body))
        fn.append(f)
        open(os.path.join(work, "c08k_chk_%s.h" % c.cid), "w").write(f + "\n")
    decls = "\n".join("void k_eqc_%s(uint32_t, uint32_t, uint32_t*);" % r for r in sorted(s["calls"]))
    open(os.path.join(work, "c08k_common.h"), "w").write(CHECKS_H.replace("@SYNDECLS@", decls).replace("@CHECKS@", ""))
    return CHECKS_H.replace("@SYNDECLS@", decls).replace("@CHECKS@", "\n".join(fn))


def prepare(work, tier):
    s = slice_sources(work)
    cpp = os.path.join(work, "k08.cpp")
    open(cpp, "w").write(build_tu(s))
    ll = c24.strip_personality(K.lower(cpp, os.path.join(work, "k08.ll")))
    c = K.translate(ll, os.path.join(work, "k08.c"))
    # assert() of the real code: the libc hook clashes with <assert.h> in the native build of the generated C; route it to the harness
    ctxt = open(c).read().replace("__assert_fail", "verif_assert_fail")
    open(c, "w").write(ctxt)
    checks = build_checks(s, tier)
    open(os.path.join(work, "c08k_checks.h"), "w").write(checks_header(checks, s, work))
    drv = os.path.join(work, "drv08.c")
    open(drv, "w").write(DRIVER.replace("@TABLE@", ", ".join('{"%s", %d, chk_%s, dom_%s}' % (ck.cid, ck.nin, ck.cid, ck.cid) for ck in checks)))
    nlines = K.differential(work, drv, c, cpp, extra_c=["-D__dso_handle=verif_dso_handle"], timeout=600)
    return s, checks, cpp, nlines


# ------------------------------------------------------------------------------------------------------------------
# obligations, classification, replay
# ------------------------------------------------------------------------------------------------------------------
def _cls(v):
    return "MIN_RAM_SIGNED" if v == MIN else "MAX_RAM_SIGNED" if v == MAX else "other"


def _cls_expr(idx, cls):
    x = "IN[%d]" % idx
    return {"MIN_RAM_SIGNED": "%s==%s" % (x, CMIN), "MAX_RAM_SIGNED": "%s==%s" % (x, CMAX)}[cls]


def make_obligation(work, ck, tier, excluded):
    """excluded: list of {IN index: class}; the conjunction of each is assumed away"""
    h = os.path.join(work, "h08_%s.c" % ck.cid)
    if not os.path.exists(h):
        txt = (HARNESS.replace("@CID@", ck.cid)
               .replace("@INDECL@", "int32_t %s, NE0, CT0;" % ", ".join("IN%d" % i for i in range(ck.nin)))
               .replace("@INASSIGN@", "\n".join("  IN%d = nondet_i32(); IN[%d] = IN%d;" % (i, i, i) for i in range(ck.nin))))
        open(h, "w").write(txt)
    defs = []
    if excluded:
        defs.append("EXCL=(%s)" % "||".join("(" + "&&".join(_cls_expr(i, c) for i, c in sorted(e.items())) + ")" for e in excluded))
    name = "%s/%s" % (ck.group, ck.cid) + ("/excluding:" + ";".join(",".join("%s=%s" % (dict(ck.bound)[i], c) for i, c in sorted(e.items())) for e in excluded) if excluded else "")
    meta = dict(ck.meta)
    meta.update({"what": ck.what, "_ck": ck, "_excl": list(excluded)})
    if excluded:
        meta["assumed_away"] = [dict((dict(ck.bound)[i], c) for i, c in e.items()) for e in excluded]
    return K.Obligation(name, [h], defines=defs, unwind=8, timeout=120 if tier == "quick" else 900, includes=[work], meta=meta)


def _int(r, nm):
    v = r.trace_values([nm]).get(nm)
    if not v:
        return None
    if v[1]:
        u = int(v[1].replace(" ", ""), 2)
        return u - (1 << 32) if u >= (1 << 31) else u
    try:
        return int(v[0].rstrip("uUlL"))
    except ValueError:
        return None


def closure(pairs):
    """reflexive/symmetric/transitive closure as a set of pairs"""
    parent = {}

    def find(x):
        parent.setdefault(x, x)
        while parent[x] != x:
            x = parent[x]
        return x
    for a, b in pairs:
        parent[find(a)] = find(b)
    cls = {}
    for x in list(parent):
        cls.setdefault(find(x), set()).add(x)
    return set((a, b) for c in cls.values() for a in c for b in c)


def e2e_replay(work, pattern, x, y, tag):
    """Run the real interpreter on a program performing the lookup pattern with the counterexample value(s)."""
    souffle = common.ensure_souffle()
    d = os.path.join(work, "e2e_" + re.sub(r"[^A-Za-z0-9]", "_", tag))
    os.makedirs(d, exist_ok=True)
    used = {x, y}
    fresh = [v for v in (1, 2, 5, 7, 11, 13) if v not in used]
    a, b, c = fresh[0], fresh[1], fresh[2]
    head = ".decl in(x:number,y:number)\n.input in\n.decl eq(x:number,y:number) eqrel\neq(x,y) :- in(x,y).\n"
    files = {}
    if pattern == "first-bound":
        prog = head + ".decl q(x:number)\n.input q\n.decl out(x:number,y:number)\n.output out\nout(x,y) :- q(x), eq(x,y).\n"
        inp = [(a, b), (x, c)]
        files["q.facts"] = "%d\n" % x
        exp = sorted(p for p in closure(inp) if p[0] == x)
    elif pattern == "second-bound":
        prog = head + ".decl q(x:number)\n.input q\n.decl out(x:number,y:number)\n.output out\nout(x,y) :- q(y), eq(x,y).\n"
        inp = [(a, b), (c, x)]
        files["q.facts"] = "%d\n" % x
        exp = sorted(p for p in closure(inp) if p[1] == x)
    else:
        prog = head + ".decl q2(x:number,y:number)\n.input q2\n.decl out(x:number,y:number,c:number)\n.output out\nout(x,y,c) :- q2(x,y), c = count : { eq(x,y) }.\n"
        inp = [(a, b), (x, y)]
        files["q2.facts"] = "%d\t%d\n%d\t%d\n" % (x, y, y, x) if x != y else "%d\t%d\n" % (x, y)
        exp = sorted(set([(x, y, 1), (y, x, 1)]))
    files["prog.dl"] = prog
    files["in.facts"] = "".join("%d\t%d\n" % p for p in inp)
    files["expected.csv"] = "".join("\t".join(map(str, t)) + "\n" for t in exp)
    for fn, txt in files.items():
        open(os.path.join(d, fn), "w").write(txt)
    rc, out, err = sh([souffle, "prog.dl", "-F.", "-D."], timeout=120, cwd=d)
    got = None
    if rc == 0 and os.path.exists(os.path.join(d, "out.csv")):
        got = sorted(tuple(int(v) for v in ln.split("\t")) for ln in open(os.path.join(d, "out.csv")).read().splitlines() if ln.strip())
    files["out.csv"] = open(os.path.join(d, "out.csv")).read() if got is not None else "(souffle failed: rc=%d %s)\n" % (rc, (out + err)[-300:])
    info = {"program": prog.splitlines()[-1], "in": inp, "lookup_value": [x] if pattern != "both-bound" else [x, y],
            "expected": [list(t) for t in exp], "interpreter_output": [list(t) for t in got] if got is not None else None}
    return (got is not None and got != exp), info, files


MERGE_PROGRAM = """.decl in(x:number,y:number)
.input in
.decl mark(y:number)
.input mark
.decl mark2(y:number)
.input mark2
.decl g(x:number,a:number,w:number)
.input g
.decl h(x:number,a:number,w:number)
.input h
.decl eq(x:number,y:number) eqrel
.output eq
eq(x,y) :- in(x,y).
eq(a,w) :- mark(y), eq(x,y), g(x,a,w).
eq(a,w) :- mark2(x), eq(x,y), h(y,a,w).
"""


def e2e_merge_extend(work):
    """A recursive eqrel relation searched in two orders: @new gets two indexes; after MERGE-EXTEND and SWAP the rule that reads @delta
    through the non-main index needs a pair that exists only as implied knowledge (1~2 old, 2~3 new => 1~3)."""
    souffle = common.ensure_souffle()
    res_all = []
    for tag, marks in (("second-order", {"mark": "1\n", "mark2": ""}), ("first-order", {"mark": "", "mark2": "1\n"})):
        d = os.path.join(work, "e2e_merge_" + tag)
        os.makedirs(d, exist_ok=True)
        files = {"prog.dl": MERGE_PROGRAM, "in.facts": "1\t2\n", "g.facts": "2\t2\t3\n3\t10\t11\n", "h.facts": "2\t2\t3\n3\t20\t21\n",
                 "mark.facts": marks["mark"], "mark2.facts": marks["mark2"]}
        for fn, txt in files.items():
            open(os.path.join(d, fn), "w").write(txt)
        rc, out, err = sh([souffle, "prog.dl", "-F.", "-D."], timeout=120, cwd=d)
        got = None
        if rc == 0 and os.path.exists(os.path.join(d, "eq.csv")):
            got = sorted(tuple(int(v) for v in ln.split("\t")) for ln in open(os.path.join(d, "eq.csv")).read().splitlines() if ln.strip())
        want = (10, 11) if marks["mark"] else (20, 21)
        res_all.append((tag, files, got, want, got is not None and want not in got))
    bad = [r for r in res_all if r[4]]
    tag, files, got, want, _ = (bad or res_all)[0]
    files = dict(files)
    files["eq.csv"] = "".join("%d\t%d\n" % p for p in got) if got is not None else "(souffle failed)\n"
    info = {"program": "eq(x,y) :- in(x,y). eq(a,w) :- mark(y), eq(x,y), g(x,a,w). eq(a,w) :- mark2(x), eq(x,y), h(y,a,w).",
            "in": "in={(1,2)} g={(2,2,3),(3,10,11)} h={(2,2,3),(3,20,21)} mark=%s mark2=%s" % ("{1}" if files["mark.facts"] else "{}", "{1}" if files["mark2.facts"] else "{}"),
            "lookup_value": None, "expected": list(want), "interpreter_output": [list(p) for p in got] if got is not None else None}
    return bool(bad), info, files


def triage(work, obls, res, cpp, state):
    """Replays counterexamples; returns the obligations to run in the next round (same pattern, found class excluded)."""
    native = os.path.join(work, "diff_real")
    nxt = []
    for o in obls:
        ck, excl = o.meta["_ck"], o.meta["_excl"]
        state["samples"].append(_sample(o))
        if o.verdict == "holds":
            state["held"].add(ck.cid)
            continue
        if o.verdict != "violated":
            res.inconc("C08/K %s: %s" % (o.name, o.why))
            continue
        failed = "; ".join(sorted(set(d for n, d in o.res.failed)))
        vals = [_int(o.res, "IN%d" % i) for i in range(ck.nin)]
        ne, ct = _int(o.res, "NE0"), _int(o.res, "CT0")
        if any(v is None for v in vals) or ne is None or ct is None:
            res.inconc("C08/K counterexample for %s (%s) but inputs could not be read from the trace" % (o.name, failed))
            continue
        args = [str(v) for v in vals] + [str(ne), str(ct)]
        rc, out, err = sh([native, "one", ck.cid] + args, timeout=30)
        if not (rc == 3 and "MISMATCH" in out):
            res.inconc("C08/K counterexample for %s (%s) with inputs %s did not reproduce natively (rc=%d %s)" % (o.name, failed, " ".join(args), rc, out.strip()[-200:]))
            continue
        # which sentinel values are essential?  replace each one by an ordinary value on the native build; a column whose
        # replacement still fails is not part of the class (the class is what gets reported and then assumed away)
        cls = dict((i, _cls(vals[i])) for i, _ in ck.bound if _cls(vals[i]) != "other")
        probe = list(vals)
        for i in sorted(cls):
            if len(cls) == 1:
                break
            trial = list(probe)
            trial[i] = [v for v in (5, 7, 11, 13) if v not in probe][0]
            rc2, out2, _ = sh([native, "one", ck.cid] + [str(v) for v in trial] + [str(ne), str(ct)], timeout=30)
            if rc2 == 3 and "MISMATCH" in out2:
                probe = trial
                del cls[i]
        sent = [(nm, cls[i]) for i, nm in ck.bound if i in cls]
        if not ck.bound:
            cname = "any"
        elif not sent:
            cname = "non-sentinel"
        elif len(ck.bound) == 1:
            cname = sent[0][1]
        else:
            cname = ",".join("%s=%s" % x for x in sent)
        prefix = {"interp-eqrel": "eqrel-lookup", "compiled-eqrel": "eqrel-lookup-compiled", "interp-btree": "btree-lookup", "interp-relation": "relation-indexes"}[ck.group]
        key = ck.key or "%s:%s:%s" % (prefix, ck.pattern if ck.group != "interp-btree" else ck.cid, cname)
        state["instances"].setdefault(key, []).append(o.name)
        bvals = dict((nm, probe[i]) for i, nm in ck.bound)
        if key not in state["seen"]:
            files = {"k08.cpp": open(cpp).read(), "drv08.c": open(os.path.join(work, "drv08.c")).read(),
                     "c08k_checks.h": open(os.path.join(work, "c08k_checks.h")).read(), "trace.txt": o.res.out[-20000:]}
            readme = ("%s\n%s\nfailed: %s\ninputs (IN.., NE, CT): %s\nnative run of the real sliced code:\n%s\n"
                      "rebuild: gcc -c -w -I. drv08.c -o drv.o && g++ -std=c++17 -O1 -w -I %s/src/include -I %s/src drv.o k08.cpp -o replay && ./replay one %s %s\n"
                      % (o.name, ck.what, failed, " ".join(args), out.strip(), common.REPO, common.REPO, ck.cid, " ".join(args)))
            ok_e2e, info = True, None
            if ck.e2e == "merge-extend":
                ok_e2e, info, efiles = e2e_merge_extend(work)
                files.update(efiles)
                readme += ("\nend to end with the real interpreter (%s prog.dl -F. -D.):\n  program: see prog.dl (two search orders on the recursive eqrel relation)\n  facts: %s\n"
                           "  expected in eq: %s\n  interpreter eq = %s\n  => %s\n" % (common.SOUFFLE, info["in"], info["expected"], info["interpreter_output"],
                           "REPRODUCED (a pair derivable only through the implied knowledge of @delta is missing)" if ok_e2e else "not reproduced end to end"))
            elif ck.e2e:
                x = bvals.get("first", bvals.get("second"))
                y = bvals.get("second", x)
                if ck.pattern == "both-bound":
                    x, y = bvals["first"], bvals["second"]
                ok_e2e, info, efiles = e2e_replay(work, ck.e2e, x, y, key)
                files.update(efiles)
                readme += ("\nend to end with the real interpreter (%s prog.dl -F. -D.):\n  rule: %s\n  in = %s, lookup value(s) %s\n  expected out = %s\n  interpreter out = %s\n  => %s\n"
                           % (common.SOUFFLE, info["program"], info["in"], info["lookup_value"], info["expected"], info["interpreter_output"],
                              "REPRODUCED (output differs from the closure semantics)" if ok_e2e else "not reproduced end to end"))
            files["README"] = readme
            if ok_e2e:
                state["seen"][key] = True
                d = K.save_replay(PID, "k_" + key, files)
                what = "%s: %s; bound value(s) %s" % (ck.what, failed, bvals)
                if info and ck.e2e == "merge-extend":
                    what += "; end to end: %s with %s: eq lacks %s (interpreter eq = %s)" % (info["program"], info["in"], info["expected"], info["interpreter_output"])
                elif info:
                    what += "; end to end: `%s` with in=%s and lookup value %s outputs %s instead of %s" % (
                        info["program"], info["in"], info["lookup_value"], info["interpreter_output"], info["expected"])
                res.violation(key, what, d)
                state["findings"][key] = {"bound_values": bvals, "failed": failed, "end_to_end": info}
            else:
                res.inconc("C08/K counterexample for %s (%s, values %s) reproduces on the sliced code but not end to end with the interpreter: %s"
                           % (o.name, failed, bvals, info))
                continue
        # re-prove the same pattern with this class assumed away
        if ck.bound and sent and len(excl) < 9:
            nxt.append((ck, excl + [cls]))
        elif ck.bound and not sent:
            state["stopped"].append(o.name + ": violated for non-sentinel values; no further exclusion possible")
    return nxt


def _sample(o):
    s = o.sample()
    for k in ("_ck", "_excl"):
        s.pop(k, None)
    return s


def extend(res, tier, seed, only=None):
    t0 = time.time()
    work = common.scratch_dir("c08k")
    try:
        s, checks, cpp, nlines = prepare(work, tier)
        # --only: "k:<substr>" (or any substring of "<group>/<cid>") selects K obligations; an --only value that names an
        # engine-R program selects none of them
        pat = only[2:] if only and only.startswith("k:") else only
        sel = [ck for ck in checks if not pat or pat in ("%s/%s" % (ck.group, ck.cid))]
        state = {"samples": [], "held": set(), "seen": {}, "instances": {}, "findings": {}, "stopped": []}
        pending = [(ck, []) for ck in sel]
        all_obls = []
        rounds = 0
        while pending and rounds < 10:
            rounds += 1
            obls = [make_obligation(work, ck, tier, excl) for ck, excl in pending]
            K.run_all(obls, jobs=6)
            all_obls += obls
            pending = triage(work, obls, res, cpp, state)
        if pending:
            res.inconc("C08/K exclusion loop did not terminate after %d rounds" % rounds)
        groups = {}
        for ck in sel:
            g = groups.setdefault(ck.group, {"patterns": 0, "proved_outright_or_after_excluding_reported_classes": 0})
            g["patterns"] += 1
            g["proved_outright_or_after_excluding_reported_classes"] += 1 if ck.cid in state["held"] else 0
        for o in all_obls:
            o.meta.pop("_ck", None)
            o.meta.pop("_excl", None)
        interp_keys = sorted(k for k in state["seen"] if k.startswith("eqrel-lookup:"))
        comp_keys = sorted(k for k in state["seen"] if k.startswith("eqrel-lookup-compiled:"))
        comp_ok = all(ck.cid in state["held"] for ck in sel if ck.group == "compiled-eqrel") and any(ck.group == "compiled-eqrel" for ck in sel)
        smp = state["samples"]
        pick = [x for x in smp if x["verdict"] == "violated"][:4] + [x for x in smp if x["verdict"] == "holds" and "assumed_away" in x][:3] + \
               [x for x in smp if x["obligation"].startswith("compiled-eqrel")][:2] + [x for x in smp if x["obligation"].startswith("interp-btree")][:2]
        res.coverage["k_part"] = {
            "explanation": "engine K: the real interpreter chain RAM pattern -> getIndexSuperInstInfo -> CAL_SEARCH_BOUND -> Index::View::range -> "
                           "EquivalenceRelation::lower_bound/upper_bound (eqrel) or an abstract ordered index through the real comparator (B-tree, arity 3), "
                           "and the compiled t_eqrel::lowerUpperRange_* -> getBoundaries with the call sites emitted by `souffle -g`; one CBMC query per "
                           "(pattern, index order, way the bound value is given) over ALL 32-bit values of the bound columns and both answers of the "
                           "membership stubs; a violated pattern is re-proved with each reported sentinel class assumed away.  Group interp-relation: the mutating "
                           "member functions of interpreter/Relation.h run over 1..3 recording fake indexes per relation: every index must receive the "
                           "operation (insert / erase: the tuple as given; purge: emptied; MERGE-EXTEND: every source index learns the implied pairs, every "
                           "target index the new pairs, in an abstract content model new / old / implied)",
            "obligations": len(all_obls), "discharged": sum(1 for o in all_obls if o.verdict == "holds"),
            "patterns": len(sel), "patterns_proved": len(state["held"]),
            "by_group": groups,
            "rounds": rounds,
            "violations_found": sorted(state["seen"]),
            "finding_instances": state["instances"],
            "findings": state["findings"],
            "compiled_side": ("correct for every pattern and all values (all %d call sites proved), while the interpreter is wrong for %s"
                              % (sum(1 for ck in sel if ck.group == "compiled-eqrel"), interp_keys) if comp_ok and interp_keys else
                              "correct for every pattern and all values" if comp_ok else "violations: %s" % comp_keys if comp_keys else "not fully decided / not selected"),
            "functions_encoded": [
                "souffle::interpreter::NodeGenerator::getIndexSuperInstInfo (Generator.cpp, verbatim)",
                "class souffle::interpreter::SuperInstruction (Node.h, verbatim; std::vector -> bounded vstd::vector)",
                "macros TUPLE_COPY_FROM, CAL_SEARCH_BOUND (Engine.cpp, verbatim)",
                "head of souffle::interpreter::Engine::evalIndexScan up to `view->range(low, high)` (Engine.cpp, verbatim)",
                "souffle::interpreter::Index<2,0,.>::View::range, Index<2,0,.>::range, Index<3,0,.>::View::range (Index.h, included)",
                "souffle::interpreter::comparator<2>, comparator<3> (Util.h, included)",
                "souffle::EquivalenceRelation::lower_bound, upper_bound, getBoundaries<1>, getBoundaries<2> (EquivalenceRelation.h, verbatim)",
                "souffle::t_eqrel::lowerUpperRange_10/_01/_11, reorder, iterator_0, iterator_1 (EqRel.h, verbatim)",
                "call sites `rel_eq->lowerUpperRange_*(..)` emitted by the synthesiser for %d rules" % len(s["calls"]),
                "souffle::interpreter::Relation<>::insert(const Tuple&), insert(const RamDomain*), constructTuple, purge, __purge, swap; class EqrelRelation "
                "(extendAndInsert = RAM MERGE-EXTEND); class BtreeDeleteRelation (erase) (interpreter/Relation.h, verbatim) over recording fake indexes"],
            "source": {f: common.file_sha(common.repo_file(f)) for f in SRC_FILES},
            "generated_cpp_sha": s["gen_sha"],
            "engine_cpp_index_operations_using_the_sliced_macro": s["n_cal"],
            "engine_cpp_range_queries_on_low_high": s["n_range"],
            "bounds": {"bound column values": "all 32-bit values", "membership stubs": "both answers", "eqrel arity": 2, "btree arity": 3,
                       "index orders": "eqrel: every order that can serve the pattern; btree: %s" % ("all 6 permutations" if tier == "thorough" else "2 of 6 permutations"),
                       "bound value given as": "tuple element / constant / general expression, enumerated outside the query" + (
                           "" if tier == "thorough" else " (quick: a subset of the combinations)"),
                       "btree constraint shapes": "equality prefix (0..3 columns) followed by at most one inequality column (>=, <=, both), rest unbound: "
                                                  + ("all 13 shapes" if tier == "thorough" else "8 of the 13 shapes"), "unwind": 8},
            "queries": sum((1 if o.res else 0) + (1 if o.wres else 0) for o in all_obls),
            "solver_time_s": round(sum((o.res.time if o.res else 0) + (o.wres.time if o.wres else 0) for o in all_obls), 1),
            "wall_s": round(time.time() - t0, 1),
            "translation_validation_lines": nlines,
            "checker_cmd": all_obls[0].res.cmd if all_obls and all_obls[0].res else "",
            "samples": pick or smp[:4],
            "stopped": state["stopped"],
            "outside": ["the eqrel storage itself (union-find, iterators, genAllDisjointSetLists): sds.nodeExists / sds.contains are unconstrained booleans and "
                        "begin / end / anteriorIt / antpostit are tokens (C28 not applicable, union-find core: C29)",
                        "the B-tree itself: lower_bound / upper_bound are modelled abstractly through the real comparator (C25 not applicable)",
                        "decoding of index-ordered tuples back to source order (orderingContext.mapOrder is the identity in the slice)",
                        "existence checks with all columns bound (they call contains(tuple), not the range logic) and ExistenceCheck bound construction "
                        "(getExistenceSuperInstInfo; same encoding, not sliced)",
                        "end-to-end replay of compiled-side counterexamples (native replay of the sliced code only)",
                        "Relation.h: the constructor (index creation from the index cluster), insert(const Relation&) (goes through insert(tuple)), the readers; "
                        "Relation::swap leaves the `main` pointers unswapped (observed, not an obligation: the Engine never calls it, RAM SWAP exchanges handles); "
                        "the fake index abstracts EquivalenceRelation::extendAndInsert as `this += implied(this, other); other += this`",
                        "inequality search bounds on eqrel relations (the RAM translator keeps them as filters; checked on a probe program, not on every run)"],
        }
        res.assumptions += [
            "K part: a search pattern is served by an index whose order has the bound columns as a prefix (index selection); eqrel searches are equality searches",
            "K part: sds.nodeExists / sds.contains answer arbitrarily (both answers explored); iterators are tokens naming the range that was chosen",
            "K part: translation clang IR -> C validated differentially on %d output lines" % nlines,
        ]
        if comp_ok and interp_keys:
            res.notes.append("K part: compiled eqrel lookups (t_eqrel::lowerUpperRange_* / getBoundaries<levels>) are proved correct for all values; "
                             "only the interpreter's value-based sentinel test is wrong")
    finally:
        common.rm_rf(work)
    return res

"""C24 — intrinsic functors and constraints follow their value semantics (engine K).

For every numeric operator x type:
  interp : the verbatim text of the `CASE(IntrinsicOperator)` / `CASE(Constraint)` arms of Engine::execute
           (src/interpreter/Engine.cpp, including its macros and the EVAL_* macros), instantiated with the operator
           as a template constant so that clang folds the switch to the arm under test;
  synth  : the expression the real `souffle -g` emits for a generated one-rule program using that operator, cut out
           of the generated C++ (tuple component of the projection / condition of the filter);
  spec   : an independent C formula written from the language semantics (c24 SPEC_H below).
CBMC decides interp == synth == spec for ALL 32-bit arguments inside the operator's defined domain."""
import os
import re
import time

from vlib import common
from vlib.common import EngineError, log, sh
from . import kcommon as K

PID = "C24"

# ------------------------------------------------------------------------------------------------------------------
# operator table
# ------------------------------------------------------------------------------------------------------------------
TY = {"i": "number", "u": "unsigned", "f": "float"}


class Op:
    def __init__(self, name, kind, expr, aty, rty, nargs, enum, spec, dom="1", floatres=False, eq_only=False, backend=None):
        self.name = name          # kernel name, e.g. add_i
        self.kind = kind          # functor | constraint
        self.expr = expr          # datalog text over x, y, z
        self.aty = aty            # argument type i/u/f
        self.rty = rty            # result type i/u/f (functor)
        self.nargs = nargs
        self.enum = enum          # FunctorOp / BinaryConstraintOp enumerator the interpreter dispatches on
        self.spec = spec          # C expression over a,b,c (uint32_t) giving uint32_t
        self.dom = dom            # C expression: defined domain
        self.floatres = floatres  # compare results as floats (all NaNs equal)
        self.eq_only = eq_only    # no specification: equality of the two back ends only
        self.backend = backend    # None = CBMC's SAT back end; "--z3" / "--cvc5" = word-level SMT back end (measured per kernel)


def _ops(tier="quick"):
    ops = []

    def F(name, expr, aty, rty, nargs, enum, spec, dom="1", **kw):
        ops.append(Op(name, "functor", expr, aty, rty, nargs, "FunctorOp::" + enum, spec, dom, floatres=(rty == "f"), **kw))

    def C(name, expr, aty, enum, spec):
        ops.append(Op(name, "constraint", expr, aty, "i", 2, "BinaryConstraintOp::" + enum, spec))

    # arithmetic.  Multiplication and division are decided by a word-level SMT back end (measured: the SAT back end does not
    # finish multiplier/divider equivalence in 60 s; z3 takes 1-10 s, cvc5 < 1 s for the float kernels).
    for o, sym, big in (("add", "+", "SA + SB"), ("sub", "-", "SA - SB"), ("mul", "*", "SA * SB")):
        be = {"mul": "--z3"}.get(o)
        F(o + "_i", "x %s y" % sym, "i", "i", 2, o.upper(), "(uint32_t)(a %s b)" % sym, "INT32_OK(%s)" % big, backend=be)
        F(o + "_u", "x %s y" % sym, "u", "u", 2, "U" + o.upper(), "(uint32_t)(a %s b)" % sym, backend=be)
        F(o + "_f", "x %s y" % sym, "f", "f", 2, "F" + o.upper(), "B(Fl(a) %s Fl(b))" % sym, backend="--cvc5")
    # signed / and %: C's truncating operators on int32 (an independent magnitude-based formula could not be decided at 32 bits
    # by any back end in this image); unsigned: the quotient / remainder of the zero-extended operands
    nz = "(b != 0 && !(a == 0x80000000u && b == 0xffffffffu))"
    F("div_i", "x / y", "i", "i", 2, "DIV", "(uint32_t)((int32_t)a / (int32_t)b)", nz, backend="--z3")
    F("div_u", "x / y", "u", "u", 2, "UDIV", "(uint32_t)((uint64_t)a / (uint64_t)b)", "(b != 0)", backend="--z3")
    F("div_f", "x / y", "f", "f", 2, "FDIV", "B(Fl(a) / Fl(b))", backend="--cvc5")
    F("mod_i", "x % y", "i", "i", 2, "MOD", "(uint32_t)((int32_t)a % (int32_t)b)", nz, backend="--z3")
    F("mod_u", "x % y", "u", "u", 2, "UMOD", "(uint32_t)((uint64_t)a % (uint64_t)b)", "(b != 0)", backend="--z3")
    # pow: both back ends call std::pow; modelled as one uninterpreted function; defined domain = result representable
    F("pow_i", "x ^ y", "i", "i", 2, "EXP", "0", "1", eq_only=True)
    F("pow_u", "x ^ y", "u", "u", 2, "UEXP", "0", "1", eq_only=True)
    F("pow_f", "x ^ y", "f", "f", 2, "FEXP", "0", "1", eq_only=True)
    # bitwise / shifts / logical
    for t, U in (("i", ""), ("u", "U")):
        F("band_" + t, "x band y", t, t, 2, U + "BAND", "(a & b)")
        F("bor_" + t, "x bor y", t, t, 2, U + "BOR", "(a | b)")
        F("bxor_" + t, "x bxor y", t, t, 2, U + "BXOR", "(a ^ b)")
        F("bshl_" + t, "x bshl y", t, t, 2, U + "BSHIFT_L", "(uint32_t)(a << (b & 31u))")
        F("bshr_" + t, "x bshr y", t, t, 2, U + "BSHIFT_R", "spec_sar(a, b & 31u)" if t == "i" else "(a >> (b & 31u))")
        F("bshru_" + t, "x bshru y", t, t, 2, U + "BSHIFT_R_UNSIGNED", "(a >> (b & 31u))")
        F("land_" + t, "x land y", t, t, 2, U + "LAND", "(uint32_t)((a != 0) & (b != 0))")
        F("lor_" + t, "x lor y", t, t, 2, U + "LOR", "(uint32_t)((a != 0) | (b != 0))")
        F("lxor_" + t, "x lxor y", t, t, 2, U + "LXOR", "(uint32_t)((a != 0) ^ (b != 0))")
        F("lnot_" + t, "lnot x", t, t, 1, U + "LNOT", "(uint32_t)(a == 0)")
        F("bnot_" + t, "bnot x", t, t, 1, U + "BNOT", "(~a)")
    F("neg_i", "-x", "i", "i", 1, "NEG", "(uint32_t)(0u - a)", "(a != 0x80000000u)")
    F("neg_f", "-x", "f", "f", 1, "FNEG", "(a ^ 0x80000000u)")
    # conversions
    F("itou", "to_unsigned(x)", "i", "u", 1, "I2U", "a")
    F("utoi", "to_number(x)", "u", "i", 1, "U2I", "a")
    F("itof", "to_float(x)", "i", "f", 1, "I2F", "B((float)(int32_t)a)")
    F("utof", "to_float(x)", "u", "f", 1, "U2F", "B((float)a)")
    F("ftoi", "to_number(x)", "f", "i", 1, "F2I", "spec_ftoi(a)", "dom_ftoi(a)")
    F("ftou", "to_unsigned(x)", "f", "u", 1, "F2U", "spec_ftou(a)", "dom_ftou(a)")
    # min / max with 2 and 3 arguments
    lt = {"i": "SLT", "u": "ULT", "f": "flt"}
    for t, U in (("i", ""), ("u", "U"), ("f", "F")):
        for o in ("max", "min"):
            # std::max(r, x) = (r < x) ? x : r   /  std::min(r, x) = (x < r) ? x : r
            pick = (lambda r, x: "(%s(%s, %s) ? %s : %s)" % (lt[t], r, x, x, r)) if o == "max" else \
                   (lambda r, x: "(%s(%s, %s) ? %s : %s)" % (lt[t], x, r, x, r))
            F("%s2_%s" % (o, t), "%s(x, y)" % o, t, t, 2, U + o.upper(), pick("a", "b"))
            F("%s3_%s" % (o, t), "%s(x, y, z)" % o, t, t, 3, U + o.upper(), pick(pick("a", "b"), "c"))
            if tier == "thorough":
                F("%s4_%s" % (o, t), "%s(x, y, z, x)" % o, t, t, 3, U + o.upper(), pick(pick(pick("a", "b"), "c"), "a"))
                ops[-1].iargs = [0, 1, 2, 0]   # interpreter child list of the 4-argument call over 3 cells
    # constraints
    C("eq_i", "x = y", "i", "EQ", "(a == b)")
    C("ne_i", "x != y", "i", "NE", "(a != b)")
    C("eq_u", "x = y", "u", "EQ", "(a == b)")
    C("ne_u", "x != y", "u", "NE", "(a != b)")
    # two float variables compared with `=` are unified by the front end (bit equality, EQ); the identity coercion
    # keeps the operands intact and makes the front end produce the float comparison FEQ
    C("eq_f", "to_float(x) = to_float(y)", "f", "FEQ", "feq(a, b)")
    C("ne_f", "x != y", "f", "FNE", "(!feq(a, b))")
    for o, sym, E in (("lt", "<", "LT"), ("le", "<=", "LE"), ("gt", ">", "GT"), ("ge", ">=", "GE")):
        si = {"lt": "SLT(a, b)", "le": "(!SLT(b, a))", "gt": "SLT(b, a)", "ge": "(!SLT(a, b))"}[o]
        ui = {"lt": "(a < b)", "le": "(a <= b)", "gt": "(a > b)", "ge": "(a >= b)"}[o]
        fi = {"lt": "flt(a, b)", "le": "fle(a, b)", "gt": "flt(b, a)", "ge": "fle(b, a)"}[o]
        C(o + "_i", "x %s y" % sym, "i", E, si)
        C(o + "_u", "x %s y" % sym, "u", "U" + E, ui)
        C(o + "_f", "x %s y" % sym, "f", "F" + E, fi)
    return ops


SPEC_H = r'''
/* Independent value specification of the numeric intrinsic operators (C24).  Arguments and results are the 32-bit
   RAM cells; a,b,c are the cell bit patterns. */
#include <stdint.h>
#include <string.h>
static inline float Fl(uint32_t u) { float f; memcpy(&f, &u, 4); return f; }
static inline uint32_t B(float f) { uint32_t u; memcpy(&u, &f, 4); return u; }
#define SA ((int64_t)(int32_t)a)
#define SB ((int64_t)(int32_t)b)
#define INT32_OK(e) ((e) >= -2147483648LL && (e) <= 2147483647LL)
/* signed order through the biased unsigned order */
#define SLT(x, y) ((uint32_t)((x) ^ 0x80000000u) < (uint32_t)((y) ^ 0x80000000u))
#define ULT(x, y) ((uint32_t)(x) < (uint32_t)(y))
/* IEEE-754 binary32 comparisons on the bit patterns: NaN is unordered, -0 == +0 */
static inline int fnan(uint32_t x) { return (x & 0x7fffffffu) > 0x7f800000u; }
static inline int64_t fkey(uint32_t x) { int64_t m = (int64_t)(x & 0x7fffffffu); return (x >> 31) ? -m : m; }
static inline int flt(uint32_t x, uint32_t y) { return !fnan(x) && !fnan(y) && fkey(x) < fkey(y); }
static inline int fle(uint32_t x, uint32_t y) { return !fnan(x) && !fnan(y) && fkey(x) <= fkey(y); }
static inline int feq(uint32_t x, uint32_t y) { return !fnan(x) && !fnan(y) && fkey(x) == fkey(y); }
/* arithmetic shift right by s in 0..31 */
static inline uint32_t spec_sar(uint32_t a, uint32_t s) {
  uint32_t lo = a >> s;
  uint32_t fill = (a >> 31) ? ~(0xffffffffu >> s) : 0u;
  return lo | fill;
}
/* float -> integer: truncation toward zero, defined when the truncated value is representable */
static inline uint64_t fmag_trunc(uint32_t x) {   /* trunc(|x|) for finite x with exponent < 64 */
  int e = (int)((x >> 23) & 0xff) - 127;
  uint64_t m = (uint64_t)((x & 0x7fffffu) | 0x800000u);
  if (((x >> 23) & 0xff) == 0) return 0;          /* zero and subnormals */
  if (e < 0) return 0;
  if (e >= 23) return m << (e - 23 > 40 ? 40 : e - 23);
  return m >> (23 - e);
}
static inline int dom_ftoi(uint32_t x) {
  uint32_t ex = (x >> 23) & 0xff;
  if (ex == 0xff) return 0;                         /* inf, NaN */
  if (ex < 127 + 31) return 1;                      /* |x| < 2^31 */
  return x == 0xcf000000u;                          /* exactly -2^31 */
}
static inline uint32_t spec_ftoi(uint32_t x) {
  uint64_t m = fmag_trunc(x);
  return (x >> 31) ? (uint32_t)(0u - (uint32_t)m) : (uint32_t)m;
}
static inline int dom_ftou(uint32_t x) {
  uint32_t ex = (x >> 23) & 0xff;
  if (ex == 0xff) return 0;
  if (x >> 31) return ex < 127;                     /* -1 < x <= -0 : truncates to 0 */
  return ex < 127 + 32;                             /* x < 2^32 */
}
static inline uint32_t spec_ftou(uint32_t x) { return (x >> 31) ? 0u : (uint32_t)fmag_trunc(x); }
static inline int same_bits(uint32_t x, uint32_t y) { return x == y; }
static inline int same_float(uint32_t x, uint32_t y) { return x == y || (fnan(x) && fnan(y)); }
'''

INTERP_TMPL = r'''
#include "souffle/RamTypes.h"
#include "souffle/BinaryConstraintOps.h"
#include "souffle/utility/EvaluatorUtil.h"
#include "souffle/utility/MiscUtil.h"
#include "FunctorOps.h"
#include <algorithm>
#include <cmath>
#include <cstddef>
#include <iostream>
#include <optional>
#include <regex>
#include <sstream>
#include <string>
using namespace souffle;
namespace verif_interp {
/* environment the sliced text refers to */
struct SymTab { const std::string& decode(RamDomain) const; RamDomain encode(const std::string&); };
SymTab& getSymbolTable();
struct Node { RamDomain v = 0; virtual ~Node() = default; };
struct RegexConstant : Node { const std::optional<std::regex>& getRegex() const; };
struct RegexCache { const std::regex& getOrCreate(const std::string&); };
extern RegexCache regexCache;
struct Ctx {};
inline RamDomain execute(RamDomain v, Ctx&) { return v; }
inline RamDomain execute(const Node* n, Ctx&) { return n->v; }
struct FShadow { const RamDomain* a; RamDomain getChild(std::size_t i) const { return a[i]; } };
struct FCur { FunctorOp op; std::size_t n; FunctorOp getOperator() const { return op; } std::size_t getNumArgs() const { return n; } };
struct CShadow { const Node* l; const Node* r; const Node* getLhs() const { return l; } const Node* getRhs() const { return r; } };
struct CCur { BinaryConstraintOp op; BinaryConstraintOp getOperator() const { return op; } };
/* ---- verbatim from Engine::execute: evaluation macros ---- */
@EVALMACROS@
template <FunctorOp OP> __attribute__((always_inline)) inline RamDomain fkernel(const RamDomain* args, std::size_t nargs) {
    FShadow shadow{args}; FCur cur{OP, nargs}; Ctx ctxt;
/* ---- verbatim: CASE(IntrinsicOperator) ... ESAC(IntrinsicOperator) ---- */
@FSLICE@
}
template <BinaryConstraintOp OP> __attribute__((always_inline)) inline RamDomain ckernel(RamDomain lv, RamDomain rv) {
    Node nl, nr; nl.v = lv; nr.v = rv; CShadow shadow{&nl, &nr}; CCur cur{OP}; Ctx ctxt;
/* ---- verbatim: CASE(Constraint) ... ESAC(Constraint) ---- */
@CSLICE@
}
}
extern "C" {
@IWRAPPERS@
}
'''

SYNTH_TMPL = r'''
/* expressions emitted by the real synthesiser (souffle -g), wrapped */
namespace verif_synth {
using namespace souffle;
extern "C" {
@SWRAPPERS@
}
}
'''

HARNESS = r'''
#include "verif_rt.h"
#include "c24_spec.h"
double verif_pow(double, double);
float verif_powf(float, float);
#define pow verif_pow
#define powf verif_powf
#define verif_llvm_pow_f64 verif_pow
#define verif_llvm_pow_f32 verif_powf
#include "k24.c"
#undef pow
#undef powf
double nondet_double(void);
uint32_t nondet_u32(void);
/* std::pow as one uninterpreted function: the same arguments give the same result */
static int pw_n; static uint64_t pw_a, pw_b; static double pw_r;
double verif_pow(double x, double y) {
  uint64_t ux, uy; memcpy(&ux, &x, 8); memcpy(&uy, &y, 8);
  if (pw_n && ux == pw_a && uy == pw_b) return pw_r;
  double r = nondet_double();
  /* defined domain of the integer `^`: the result is representable in the 32-bit cell type */
  __CPROVER_assume(r == r && r > POW_LO && r < POW_HI);
  if (!pw_n) { pw_n = 1; pw_a = ux; pw_b = uy; pw_r = r; }
  return r;
}
float verif_powf(float x, float y) { return (float)verif_pow((double)x, (double)y); }
uint32_t A0, A1, A2, R_interp, R_synth, R_spec;
int main(void) {
  uint32_t a, b, c;
  A0 = nondet_u32(); A1 = nondet_u32(); A2 = nondet_u32();
  a = A0; b = A1; c = A2;
  __CPROVER_assume(DOM);
  R_interp = (uint32_t)ki_NAME(ARGS);
  R_synth = (uint32_t)ks_NAME(ARGS);
  __CPROVER_assert(SAME(R_interp, R_synth), "interpreter and synthesised code agree");
#ifndef EQ_ONLY
  R_spec = (uint32_t)(SPEC);
  __CPROVER_assert(SAME(R_interp, R_spec), "interpreter agrees with the value specification");
  __CPROVER_assert(SAME(R_synth, R_spec), "synthesised code agrees with the value specification");
#endif
#ifdef WITNESS
  __CPROVER_assert(0, "witness");
#endif
  return 0;
}
'''

# boundary values used for the differential validation of the translation and of the native specification
BOUNDARY = [0, 1, 2, 3, 5, 31, 32, 33, 255, 0x7fffffff, 0x80000000, 0x80000001, 0xffffffff, 0xfffffffe, 0xffffffe0,
            0x3f800000, 0xbf800000, 0x3fc00000, 0x40490fdb, 0x7f800000, 0xff800000, 0x7fc00000, 0xffc00001, 0x00000001 | 0x00400000,
            0x4f000000, 0xcf000000, 0x4f800000, 0x4effffff, 0x4f7fffff, 0xbf000000, 0x7f7fffff, 0x00800000, 0x4b800000, 0x4b000001]


def _c_sig(op):
    return ", ".join("uint32_t" for _ in range(op.nargs))


def program_text(ops):
    """One rule per operator; relation names carry the kernel name so that the emitted code can be attributed."""
    out = []
    for t, ty in TY.items():
        out.append(".decl in1%s(x:%s)\n.decl in2%s(x:%s, y:%s)\n.decl in3%s(x:%s, y:%s, z:%s)" % (t, ty, t, ty, ty, t, ty, ty, ty))
        out.append(".input in1%s, in2%s, in3%s" % (t, t, t))
    for op in ops:
        vs = ["x", "y", "z"][:op.nargs]
        src = "in%d%s(%s)" % (op.nargs, op.aty, ", ".join(vs))
        if op.kind == "functor":
            out.append(".decl r_%s(v:%s)\n.output r_%s\nr_%s(%s) :- %s." % (op.name, TY[op.rty], op.name, op.name, op.expr, src))
        else:
            decl = ", ".join("%s:%s" % (v, TY[op.aty]) for v in vs)
            out.append(".decl r_%s(%s)\n.output r_%s\nr_%s(%s) :- %s, %s." % (op.name, decl, op.name, op.name, ", ".join(vs), src, op.expr))
    return "\n".join(out) + "\n"


def _split_top_commas(s):
    out, depth, cur = [], 0, ""
    for ch in s:
        if ch in "([{":
            depth += 1
        elif ch in ")]}":
            depth -= 1
        if ch == "," and depth == 0:
            out.append(cur)
            cur = ""
        else:
            cur += ch
    out.append(cur)
    return out


def emitted_expressions(work, ops, tag="ops"):
    """Run the real souffle -g and cut, for every rule r_<name>, the emitted projection component (functor) or filter
    condition (constraint)."""
    souffle = common.ensure_souffle()
    dl = os.path.join(work, tag + ".dl")
    gen = os.path.join(work, tag + "_gen.cpp")
    open(dl, "w").write(program_text(ops))
    rc, out, err = sh([souffle, "-g", gen, dl], timeout=600, cwd=work)
    if rc != 0 or not os.path.exists(gen):
        raise EngineError("souffle -g failed on the generated operator program: rc=%d %s" % (rc, (out + err)[-2000:]))
    lines = open(gen).read().splitlines()
    found = {}
    for i, ln in enumerate(lines):
        m = re.match(r"^rel_r_(\w+?)_[0-9a-f]{16}->insert\(tuple,", ln)
        if not m:
            continue
        name = m.group(1)
        if name in found:
            raise EngineError("two insertions emitted for rule r_%s; cannot attribute the emitted expression" % name)
        tl = lines[i - 1]
        mt = re.match(r"^Tuple<RamDomain,(\d+)> tuple\{\{(.*)\}\};\s*$", tl)
        if not mt:
            raise EngineError("emission anchor not found before insert into r_%s: %s" % (name, tl[:200]))
        comps = _split_top_commas(mt.group(2))
        cond = None
        mc = re.match(r"^if\( (.*)\) \{\s*$", lines[i - 2])
        if mc:
            cond = mc.group(1)
        scan = lines[i - 3] if mc else lines[i - 2]
        if not re.match(r"^for\(const auto& env0 : \*rel_in\d[iuf]_[0-9a-f]{16}\) \{\s*$", scan):
            raise EngineError("unexpected loop structure emitted around rule r_%s: %s" % (name, scan[:200]))
        found[name] = (comps, cond)
    res = {}
    for op in ops:
        if op.name not in found:
            raise EngineError("no emitted code found for rule r_%s (expression `%s`)" % (op.name, op.expr))
        comps, cond = found[op.name]
        if op.kind == "functor":
            if len(comps) != 1 or cond is not None:
                raise EngineError("unexpected emission for functor rule r_%s: %s / %s" % (op.name, comps, cond))
            res[op.name] = comps[0].strip()
        else:
            if cond is None or not all(re.fullmatch(r"ramBitCast\(env0\[\d\]\)", c.strip()) for c in comps):
                raise EngineError("unexpected emission for constraint rule r_%s: %s / %s" % (op.name, comps, cond))
            res[op.name] = cond.strip()
    return res, common.file_sha(gen)


def slice_interpreter():
    cpp = common.read_repo("src/interpreter/Engine.cpp")
    macros = []
    for nm in ("EVAL_CHILD", "EVAL_LEFT", "EVAL_RIGHT"):
        m = re.search(r"^#define %s\b(?:.*\\\n)*.*$" % nm, cpp, re.M)
        if not m:
            raise EngineError("slice anchor not found: #define %s in src/interpreter/Engine.cpp" % nm)
        macros.append(m.group(0))
    fs, _, _ = K.extract_between(cpp, r"\n[ \t]*CASE\(IntrinsicOperator\)[ \t]*\n", r"\n[ \t]*ESAC\(IntrinsicOperator\)", "IntrinsicOperator case")
    cs, _, _ = K.extract_between(cpp, r"\n[ \t]*CASE\(Constraint\)[ \t]*\n", r"\n[ \t]*ESAC\(Constraint\)", "Constraint case")
    fs = fs.split("\n", 2)[2]
    cs = cs.split("\n", 2)[2]
    for what, s in (("IntrinsicOperator", fs), ("Constraint", cs)):
        if "switch (cur.getOperator())" not in s:
            raise EngineError("sliced %s case has no `switch (cur.getOperator())`; template out of date" % what)
    return "\n".join(macros), fs, cs


def build_tu(ops, emitted, macros, fs, cs):
    iw, sw = [], []
    for op in ops:
        ps = ", ".join("RamDomain a%d" % k for k in range(op.nargs))
        if op.kind == "functor":
            ia = getattr(op, "iargs", list(range(op.nargs)))
            iw.append("__attribute__((noinline)) RamDomain ki_%s(%s) { RamDomain x[%d] = {%s}; return verif_interp::fkernel<%s>(x, %d); }"
                      % (op.name, ps, len(ia), ", ".join("a%d" % k for k in ia), op.enum, len(ia)))
            sw.append("__attribute__((noinline)) RamDomain ks_%s(%s) { const Tuple<RamDomain, %d> env0{{%s}}; return %s; }"
                      % (op.name, ps, op.nargs, ", ".join("a%d" % k for k in range(op.nargs)), emitted[op.name]))
        else:
            iw.append("__attribute__((noinline)) RamDomain ki_%s(%s) { return verif_interp::ckernel<%s>(a0, a1); }" % (op.name, ps, op.enum))
            sw.append("__attribute__((noinline)) RamDomain ks_%s(%s) { const Tuple<RamDomain, %d> env0{{%s}}; if (%s) { return 1; } return 0; }"
                      % (op.name, ps, op.nargs, ", ".join("a%d" % k for k in range(op.nargs)), emitted[op.name]))
    for op in ops:
        iw.append("int ke_%s(void) { return static_cast<int>(%s); }" % (op.name, op.enum))
    return (INTERP_TMPL.replace("@EVALMACROS@", macros).replace("@FSLICE@", fs).replace("@CSLICE@", cs)
            .replace("@IWRAPPERS@", "\n".join(iw)) + SYNTH_TMPL.replace("@SWRAPPERS@", "\n".join(sw)))


def driver_text(ops):
    """Native driver: differential validation of the translation (default) and replay of one input (`one`)."""
    d = ['#include <stdio.h>', '#include <stdlib.h>', '#include <string.h>', '#include <math.h>', '#include "c24_spec.h"',
         'double verif_llvm_pow_f64(double x, double y) { return pow(x, y); }',
         'float verif_llvm_pow_f32(float x, float y) { return powf(x, y); }']
    for op in ops:
        d.append("uint32_t ki_%s(%s); uint32_t ks_%s(%s);" % (op.name, _c_sig(op), op.name, _c_sig(op)))
    for op in ops:
        d.append("int ke_%s(void);" % op.name)
    d.append("static const uint32_t BV[] = {%s};" % ", ".join("0x%xu" % v for v in BOUNDARY))
    d.append("#define NBV (sizeof(BV) / sizeof(BV[0]))")
    d.append("#define CANF(x) (fnan(x) ? 0x7fc00000u : (x))")
    d.append("#define CANB(x) (x)")
    d.append("static int run1(const char* nm, uint32_t a, uint32_t b, uint32_t c, int verbose) {")
    for op in ops:
        args = ", ".join(["a", "b", "c"][:op.nargs])
        same = "same_float" if op.floatres else "same_bits"
        can = "CANF" if op.floatres else "CANB"   # NaN payloads depend on operand order chosen by each compiler
        d.append('  if (!strcmp(nm, "%s")) {' % op.name)
        d.append('    if (!(%s)) { if (verbose) printf("outside the defined domain\\n"); return 0; }' % op.dom)
        d.append('    uint32_t ri = ki_%s(%s), rs = ks_%s(%s);' % (op.name, args, op.name, args))
        if op.eq_only:
            d.append('    if (verbose) printf("%s(%%u,%%u,%%u) interp=%%u synth=%%u\\n", a, b, c, ri, rs);' % op.name)
            d.append('    else printf("%s %%x %%x %%x -> %%x %%x\\n", a, b, c, %s(ri), %s(rs));' % (op.name, can, can))
            d.append('    return %s(ri, rs) ? 0 : 3;' % same)
        else:
            d.append('    uint32_t rp = (uint32_t)(%s);' % op.spec)
            d.append('    if (verbose) printf("%s(%%u,%%u,%%u) interp=%%u synth=%%u spec=%%u\\n", a, b, c, ri, rs, rp);' % op.name)
            d.append('    else printf("%s %%x %%x %%x -> %%x %%x\\n", a, b, c, %s(ri), %s(rs));' % (op.name, can, can))
            d.append('    return (%s(ri, rs) && %s(ri, rp)) ? 0 : 3;' % (same, same))
        d.append('  }')
    d.append('  printf("unknown kernel %s\\n", nm); return 2;')
    d.append("}")
    d.append(r'''
int main(int argc, char** argv) {
  if (argc >= 2 && !strcmp(argv[1], "enum")) {
    static const char* en[] = {NAMES};
    int (*ef[])(void) = {ENUMFNS};
    for (unsigned k = 0; k < sizeof(en) / sizeof(en[0]); k++) printf("%s %d\n", en[k], ef[k]());
    return 0;
  }
  if (argc >= 3 && !strcmp(argv[1], "one")) {
    uint32_t a = argc > 3 ? (uint32_t)strtoul(argv[3], 0, 0) : 0, b = argc > 4 ? (uint32_t)strtoul(argv[4], 0, 0) : 0,
             c = argc > 5 ? (uint32_t)strtoul(argv[5], 0, 0) : 0;
    int rc = run1(argv[2], a, b, c, 1);
    if (rc == 3) printf("MISMATCH\n");
    return rc;
  }
  static const char* names[] = {NAMES};
  static const int nargs[] = {NARGS};
  unsigned s = SEED;
  for (unsigned k = 0; k < sizeof(names) / sizeof(names[0]); k++) {
    for (unsigned i = 0; i < NBV; i++) {
      if (nargs[k] == 1) { run1(names[k], BV[i], 0, 0, 0); continue; }
      for (unsigned j = 0; j < NBV; j++) {
        if (nargs[k] == 2) { run1(names[k], BV[i], BV[j], 0, 0); continue; }
        for (unsigned l = 0; l < NBV; l += 3) run1(names[k], BV[i], BV[j], BV[l], 0);
      }
    }
    for (int i = 0; i < 200; i++) {
      uint32_t v[3];
      for (int q = 0; q < 3; q++) { s = s * 1103515245u + 12345u; v[q] = (s >> 8) ^ (s << 13); if ((s >> 29) == 0) v[q] &= 63; }
      run1(names[k], v[0], v[1], v[2], 0);
    }
  }
  return 0;
}
''')
    return "\n".join(d)


class Prepared:
    pass


def check_frontend_operators(work, ops, tag="ops"):
    """The interpreter arm used for a source operator is named by this check's table.  When the build has the
    SOUFFLE_VERIF typed-RAM printing hook, compare the table with the operator the real front end puts into the RAM
    (`op#<enumerator value>`); a disagreement is an engine error (the table is out of date), never a verdict."""
    rc, out, err = sh([common.SOUFFLE, "--show=transformed-ram", os.path.join(work, tag + ".dl")], timeout=300, cwd=work,
                      env={"SOUFFLE_VERIF_TYPED_RAM": "1"})
    if rc != 0 or "#" not in out:
        return "typed RAM printing hook not available: operator selection of the front end not cross-checked"
    rc2, eout, err2 = sh([os.path.join(work, "diff_real"), "enum"], timeout=30)
    if rc2 != 0:
        raise EngineError("cannot obtain enumerator values from the native wrapper: " + (eout + err2)[-300:])
    table = dict((l.split()[0], int(l.split()[1])) for l in eout.splitlines() if len(l.split()) == 2)
    lines = out.splitlines()
    seen = {}
    for i, ln in enumerate(lines):
        m = re.match(r"^\s*INSERT \((.*)\) INTO r_(\w+)\s*$", ln)
        if not m:
            continue
        name = m.group(2)
        tags = re.findall(r"#(\d+)", m.group(1))
        if not tags and i > 0:
            mc = re.match(r"^\s*IF \((.*)\)\s*$", lines[i - 1])
            if mc:
                tags = re.findall(r" (?:=|!=|<|<=|>|>=)#(\d+) ", mc.group(1))
        if tags:
            seen[name] = int(tags[0])
    bad = []
    for op in ops:
        if op.name not in seen:
            raise EngineError("operator of rule r_%s not found in the typed RAM" % op.name)
        if seen[op.name] != table.get(op.name):
            bad.append("%s: front end selects #%d, table says %s (= %s)" % (op.name, seen[op.name], op.enum, table.get(op.name)))
    if bad:
        raise EngineError("front end selects other operators than this check's table: " + "; ".join(bad))
    return "operator selection of the real front end cross-checked against the table for %d rules (typed RAM hook)" % len(ops)


def strip_personality(ll):
    """ir2c's function-header parser does not know the `personality` clause (present when the TU is compiled with
    exceptions enabled); the kernels contain no invoke/landingpad after folding, so the clause is dropped."""
    txt = open(ll).read()
    txt = re.sub(r"^(define .*\)[^()\n]*?) personality [^\n{]*\{$", r"\1 {", txt, flags=re.M)
    # ir2c reads one instruction per line: join the case list of multi-line `switch` instructions
    txt = re.sub(r"^(\s*switch [^\n]*\[)\n((?:\s+i\d+ -?\d+, label %[^\n]+\n)*)(\s*\])",
                 lambda m: m.group(1) + " " + " ".join(x.strip() for x in m.group(2).splitlines()) + " ]", txt, flags=re.M)
    open(ll, "w").write(txt)
    return ll


def prepare(work, tier, seed, only=None):
    """Slice, generate, lower, translate, validate.  Shared with C02 (a)."""
    ops = _ops(tier)
    if only:
        ops = [o for o in ops if only in o.name] or ops
    macros, fs, cs = slice_interpreter()
    emitted, gen_sha = emitted_expressions(work, ops)
    cpp = os.path.join(work, "k24.cpp")
    open(cpp, "w").write(build_tu(ops, emitted, macros, fs, cs))
    open(os.path.join(work, "c24_spec.h"), "w").write(SPEC_H)
    ll = strip_personality(K.lower(cpp, os.path.join(work, "k24.ll")))
    c = K.translate(ll, os.path.join(work, "k24.c"))
    drv = os.path.join(work, "drv24.c")
    open(drv, "w").write(driver_text(ops).replace("ENUMFNS", ", ".join("ke_%s" % o.name for o in ops)).replace("NAMES", ", ".join('"%s"' % o.name for o in ops))
                         .replace("NARGS", ", ".join(str(o.nargs) for o in ops)).replace("SEED", "%du" % (seed * 2654435761 % (1 << 32) or 12345)))
    nlines = K.differential(work, drv, c, cpp, extra_c=["-D__dso_handle=verif_dso_handle"], timeout=600)
    frontend = check_frontend_operators(work, ops)
    p = Prepared()
    p.frontend = frontend
    p.ops, p.emitted, p.gen_sha, p.cpp, p.c, p.nlines, p.work = ops, emitted, gen_sha, cpp, c, nlines, work
    p.native = os.path.join(work, "diff_real")
    return p


def _pow_bounds(op):
    if op.name == "pow_i":
        return "-2147483649.0", "2147483648.0"
    if op.name == "pow_u":
        return "-1.0", "4294967296.0"
    return "-1.0e300", "1.0e300"


def obligations(p, tier):
    obls = []
    for op in p.ops:
        h = os.path.join(p.work, "h24_%s.c" % op.name)
        args = ", ".join(["a", "b", "c"][:op.nargs])
        lo, hi = _pow_bounds(op)
        txt = (HARNESS.replace("ki_NAME", "ki_" + op.name).replace("ks_NAME", "ks_" + op.name).replace("ARGS", args)
               .replace("DOM", "(%s)" % op.dom).replace("SPEC", op.spec).replace("SAME", "same_float" if op.floatres else "same_bits")
               .replace("POW_LO", lo).replace("POW_HI", hi))
        if op.eq_only:
            txt = "#define EQ_ONLY 1\n" + txt
        open(h, "w").write(txt)
        obls.append(K.Obligation("%s: %s on %s" % (op.name, op.expr, TY[op.aty]), [h], unwind=6,
                                 timeout=60 if tier == "quick" else 600, includes=[p.work], extra=[op.backend] if op.backend else [],
                                 meta={"kernel": op.name, "datalog": op.expr, "type": TY[op.aty], "interpreter_case": op.enum,
                                       "synthesised": p.emitted[op.name], "spec": None if op.eq_only else op.spec,
                                       "domain": op.dom, "back_end": op.backend or "sat", "_op": op}))
    return obls


def _bits(r, nm):
    v = r.trace_values([nm]).get(nm)
    if not v:
        return None
    if v[1]:
        return int(v[1].replace(" ", ""), 2)
    try:
        return int(v[0].rstrip("uUlL")) & 0xffffffff
    except ValueError:
        return None


def triage(p, obls, res, pid=PID):
    """Replay counterexamples on the natively compiled real wrapper; fill res."""
    for o in obls:
        op = o.meta["_op"]
        if o.verdict == "violated":
            failed = "; ".join(sorted(set(d for n, d in o.res.failed)))
            vals = [_bits(o.res, nm) for nm in ("A0", "A1", "A2")]
            if any(v is None for v in vals):
                res.inconc("counterexample for %s (%s) but inputs could not be read from the trace" % (o.name, failed))
                continue
            argv = [p.native, "one", op.name] + ["0x%x" % v for v in vals]
            rc, out, err = sh(argv, timeout=30)
            if rc == 3 and "MISMATCH" in out:
                d = K.save_replay(pid, op.name, {
                    "k24.cpp": open(p.cpp).read(), "drv24.c": open(os.path.join(p.work, "drv24.c")).read(), "c24_spec.h": SPEC_H,
                    "trace.txt": o.res.out[-20000:],
                    "README": "%s\nfailed: %s\ninputs: %s\nnative run of the real wrapper: %s\nrebuild: gcc -c -w -I. drv24.c -o drv.o && "
                              "g++ -std=c++17 -O1 -w -I %s/src/include -I %s/src drv.o k24.cpp -o replay && ./replay one %s %s\n"
                              % (o.name, failed, " ".join("0x%08x" % v for v in vals), out.strip(), common.REPO, common.REPO, op.name,
                                 " ".join("0x%x" % v for v in vals))})
                res.violation(op.name, "%s (%s): %s for arguments %s; native: %s" % (
                    op.name, op.expr, failed, " ".join("0x%08x" % v for v in vals[:op.nargs]), out.strip().splitlines()[0]), d)
            else:
                res.inconc("counterexample for %s (%s) with arguments %s did not reproduce natively (rc=%d %s)" % (
                    o.name, failed, " ".join("0x%08x" % v for v in vals), rc, out.strip()[-200:]))
        elif o.verdict != "holds":
            res.inconc("%s: %s" % (o.name, o.why))


def coverage(p, obls, tier):
    held = [o for o in obls if o.verdict == "holds"]
    samples = []
    for o in obls:
        s = o.sample()
        s.pop("_op", None)
        samples.append(s)
    srcs = ("src/interpreter/Engine.cpp", "src/synthesiser/Synthesiser.cpp", "src/include/souffle/utility/EvaluatorUtil.h",
            "src/include/souffle/RamTypes.h", "src/FunctorOps.h", "src/include/souffle/BinaryConstraintOps.h")
    return {
        "obligations": len(obls), "discharged": len(held),
        "checker_cmd": obls[0].res.cmd if obls and obls[0].res else "",
        "trusted_base": ["clang++-14 -O1 lowering of the wrapper TU", "ir2c.py IR->C translation (validated differentially on %d result lines each run)" % p.nlines,
                         "CBMC 6 bit-vector and IEEE-754 float semantics and its SAT back end",
                         "the value specification c24 SPEC_H (written from the language manual)",
                         "attribution of emitted code to rules by relation name"],
        "explanation": "one CBMC query per operator x type: for all 32-bit argument cells inside the defined domain, interpreter arm == synthesised "
                       "expression == specification; each query has a witness twin showing the domain is not empty",
        "exhaustive": True,
        "functions_encoded": ["Engine::execute CASE(IntrinsicOperator) arm %s" % o.enum if o.kind == "functor" else "Engine::execute CASE(Constraint) arm %s" % o.enum
                              for o in p.ops] + ["synthesiser emission for each of the above (cut from souffle -g output)"],
        "source": {s: common.file_sha(common.repo_file(s)) for s in srcs},
        "generated_cpp_sha": p.gen_sha,
        "bounds": {"arguments": "all 32-bit cell values in the defined domain", "min_max_arity": [2, 3], "unwind": 6},
        "queries": sum((1 if o.res else 0) + (1 if o.wres else 0) for o in obls),
        "solver_time_s": round(sum((o.res.time if o.res else 0) + (o.wres.time if o.wres else 0) for o in obls), 1),
        "slowest": sorted(((round(o.res.time, 1), o.meta["kernel"]) for o in obls if o.res), reverse=True)[:5],
        "translation_validation_lines": p.nlines,
        "front_end_operator_selection": p.frontend,
        "samples": samples[:8] + [s for s in samples[8:] if s.get("kernel") in ("div_i", "bshr_i", "ftoi", "lt_f", "max3_f", "pow_i")],
        "outside": ["string-valued operators (cat, substr, strlen, ord, to_string, to_number on symbols, smin/smax, match, contains)",
                    "`^` is checked only as equality of the two back ends with std::pow as one uninterpreted function whose result is representable",
                    "range generators (NestedIntrinsicOperator)",
                    "`x = y` between two float variables is unified by the front end (bit equality EQ) and is checked as eq_i/eq_u; the float "
                    "comparison FEQ is obtained through the identity coercion to_float(.)"],
    }


def run(tier, seed, only=None):
    res = common.Result(PID, "proof")
    work = common.scratch_dir("c24")
    try:
        p = prepare(work, tier, seed, only)
        obls = obligations(p, tier)
        K.run_all(obls, jobs=6)
        triage(p, obls, res)
        res.coverage = coverage(p, obls, tier)
        for o in obls:
            o.meta.pop("_op", None)
        if res.inconclusive or res.violations:
            res.level = "other"
        res.assumptions = [
            "defined domain per operator as in the property: signed overflow, division/modulo by zero, INT_MIN/-1, out-of-range or NaN float->integer excluded by assumption",
            "float results are compared up to NaN payload (all NaNs equal); IEEE-754 binary32 round-to-nearest-even as modelled by CBMC",
            "std::pow treated as one uninterpreted function (same arguments give the same result) with a representable result",
            "the operator the front end selects for a source expression is taken from this check's table (FunctorOp / BinaryConstraintOp enumerator per source operator and type)",
        ]
    finally:
        common.rm_rf(work)
    return res

"""C22 — auto-increment values are unique within a run (engine K, CBMC native threads, all interleavings).

Real code:
  * interpreter: the `counter` member declaration of souffle::interpreter::Engine (src/interpreter/Engine.h) and the
    body of Engine::incCounter (src/interpreter/Engine.cpp), both cut verbatim by anchors;
  * synthesiser: the real `souffle -g` is run on a one-rule program using autoinc(); the emitted counter
    expression (the tuple component that mentions `ctr`), the emitted main-class field declaration of `ctr` and the
    emitted by-reference member of the stratum class are cut from the generated C++.
Both are lowered with clang, translated to C and run by T in {2,3} threads x 2 calls each; CBMC decides over all
interleavings that the 2*T returned values are pairwise distinct.  Plain (non-atomic) loads/stores of the kernel
are made explicit scheduling steps so that a counterexample schedule can be forced on a native build."""
import os
import re
import time

from vlib import common
from vlib.common import EngineError, log, sh
from . import kcommon as K

PID = "C22"
CALLS = 2

PROGRAM = """.decl a(x:number)
.input a
.decl b(x:number, y:number)
.output b
b(x, autoinc()) :- a(x).
"""

INTERP_TMPL = r'''
#include "souffle/RamTypes.h"
#include <atomic>
#include <cstddef>
#include <new>
using namespace souffle;
namespace verif_interp {
class Engine {
public:
    RamDomain incCounter();
    /* ---- verbatim member declaration from src/interpreter/Engine.h ---- */
    @MEMBER@
};
/* ---- verbatim function text from src/interpreter/Engine.cpp ---- */
@FUNC@
}
extern "C" {
__attribute__((noinline)) void k_interp_init(verif_interp::Engine* e) { new (e) verif_interp::Engine(); }
__attribute__((noinline)) int k_interp_next(verif_interp::Engine* e) { return e->incCounter(); }
__attribute__((noinline)) unsigned k_interp_size(void) { return sizeof(verif_interp::Engine); }
}
'''

SYNTH_TMPL = r'''
#include "souffle/RamTypes.h"
#include <atomic>
#include <cstddef>
#include <new>
using namespace souffle;
namespace verif_synth {
struct Stratum {
    /* ---- verbatim by-reference member emitted for the stratum class ---- */
    @REFDECL@
    Stratum(@REFTYPE@ ctr) : ctr(ctr) {}
    RamDomain next() {
        /* ---- verbatim tuple component emitted for autoinc() ---- */
        return @EXPR@;
    }
};
struct Main {
    /* ---- verbatim field declaration emitted for the main class ---- */
    @FIELD@
    Stratum stratum;
    Main() : stratum(ctr) {}
};
}
extern "C" {
__attribute__((noinline)) void k_synth_init(verif_synth::Main* e) { new (e) verif_synth::Main(); }
__attribute__((noinline)) int k_synth_next(verif_synth::Main* e) { return e->stratum.next(); }
__attribute__((noinline)) unsigned k_synth_size(void) { return sizeof(verif_synth::Main); }
}
'''

DRIVER = r'''
#include <stdio.h>
#include <stdint.h>
void k_@K@_init(void*); int k_@K@_next(void*); unsigned k_@K@_size(void);
int main(void){
  long long buf[16] = {0};
  if (k_@K@_size() > sizeof(buf)) { printf("object too large\n"); return 1; }
  k_@K@_init(buf);
  for (int i = 0; i < 50; i++) printf("%d\n", k_@K@_next(buf));
  return 0;
}
'''

HARNESS = r'''
#include "verif_rt.h"
#ifdef VERIF_REPLAY
#include <pthread.h>
extern __thread int verif_tid;
void verif_load_schedule(const char*);
#else
int verif_step;
#endif
#include "@KC@"
long long OBJ[16];
int r[NT][NCALLS];
int fin = 0;
static void check_all(void){
  for (int i = 0; i < NT * NCALLS; i++)
    for (int j = i + 1; j < NT * NCALLS; j++)
      VERIF_ASSERT(r[i / NCALLS][i % NCALLS] != r[j / NCALLS][j % NCALLS], "two auto-increment calls returned the same value");
#ifdef WITNESS
  __CPROVER_assert(0, "witness");
#endif
}
void client(int t){
  for (int i = 0; i < NCALLS; i++) r[t][i] = k_@K@_next(OBJ);
  VSTEP(fin++; if (fin == NT) check_all());
}
#ifdef VERIF_REPLAY
static void* th(void* a){ long x = (long)a; verif_tid = (int)x; client((int)x); return 0; }
int main(int argc, char** argv){
  pthread_t t[NT]; k_@K@_init(OBJ);
  verif_load_schedule(argc > 1 ? argv[1] : "");
  for (long i = 1; i < NT; i++) pthread_create(&t[i], 0, th, (void*)i);
  verif_tid = 0; client(0);
  for (int i = 1; i < NT; i++) pthread_join(t[i], 0);
  printf("replay finished without assertion failure:");
  for (int i = 0; i < NT * NCALLS; i++) printf(" %d", r[i / NCALLS][i % NCALLS]);
  printf("\n");
  return 0;
}
#else
int main(void){
  __CPROVER_assert(k_@K@_size() <= sizeof(OBJ), "object fits the harness buffer");
  k_@K@_init(OBJ);
  __CPROVER_ASYNC_1: client(1);
#if NT > 2
  __CPROVER_ASYNC_2: client(2);
#endif
  client(0);
  return 0;
}
#endif
'''


def _slice_interp():
    h = common.read_repo("src/interpreter/Engine.h")
    cpp = common.read_repo("src/interpreter/Engine.cpp")
    m = re.search(r"^[ \t]*([^\n;(){}]*\bcounter\b[^\n;()]*;)[ \t]*$", h, re.M)
    if not m:
        raise EngineError("slice anchor not found: member declaration of `counter` in src/interpreter/Engine.h")
    member = m.group(1).strip()
    func = K.extract_braced(cpp, r"\n[^\n;{}]*\bEngine::incCounter\s*\([^)]*\)[^;{]*\{", "Engine::incCounter")
    if "counter" not in func:
        raise EngineError("Engine::incCounter no longer refers to `counter`; slice template out of date")
    return member, func.strip()


def _split_top_commas(s):
    out, depth, cur = [], 0, ""
    for ch in s:
        if ch in "([{":
            depth += 1
        elif ch in ")]}":
            depth -= 1
        if ch == "," and depth == 0:
            out.append(cur)
            cur = ""
        else:
            cur += ch
    out.append(cur)
    return out


def _slice_synth(work):
    souffle = common.ensure_souffle()
    dl = os.path.join(work, "autoinc.dl")
    gen = os.path.join(work, "autoinc_gen.cpp")
    open(dl, "w").write(PROGRAM)
    rc, out, err = sh([souffle, "-g", gen, dl], timeout=300, cwd=work)
    if rc != 0 or not os.path.exists(gen):
        raise EngineError("souffle -g failed on the autoinc program: rc=%d %s" % (rc, (out + err)[-1500:]))
    txt = open(gen).read()
    # the use: the tuple built for b(x, autoinc())
    m = re.search(r"^Tuple<RamDomain,2> tuple\{\{(.*)\}\};\s*$", txt, re.M)
    if not m:
        raise EngineError("emission anchor not found: `Tuple<RamDomain,2> tuple{{...}}` for b(x,autoinc())")
    comps = _split_top_commas(m.group(1))
    uses = [c for c in comps if re.search(r"\bctr\b", c)]
    if len(comps) != 2 or len(uses) != 1:
        raise EngineError("emitted tuple for b(x,autoinc()) has unexpected shape: %s" % m.group(0))
    expr = uses[0].strip()
    # declarations: value field in the main class, reference members in stratum classes
    decls = re.findall(r"^[ \t]*([^\n;(){}=]*[\s&>*]ctr\s*(?:\{[^{}\n]*\})?(?:\s*=\s*[^;\n]*)?;)[ \t]*$", txt, re.M)
    refs = sorted(set(d.strip() for d in decls if "&" in d))
    vals = sorted(set(d.strip() for d in decls if "&" not in d))
    if len(refs) != 1 or len(vals) != 1:
        raise EngineError("emitted declarations of `ctr` not recognised (by-value: %s, by-reference: %s)" % (vals, refs))
    reftype = re.sub(r"\bctr\s*;$", "", refs[0]).strip()
    # every other mention of ctr must be constructor plumbing (parameter, initialiser, argument)
    for ln in txt.splitlines():
        if not re.search(r"\bctr\b", ln):
            continue
        s = ln.strip()
        if s in refs or s in vals or s == m.group(0).strip() or s == "ctr(ctr)," or s == "ctr(ctr)":
            continue
        if re.search(re.escape(reftype) + r"\s*ctr\b", s) or re.search(r"[,(]ctr[,)]", s):
            continue
        raise EngineError("unclassified use of `ctr` in generated code (slice would be incomplete): %s" % s[:200])
    return expr, vals[0], refs[0], reftype, common.file_sha(gen)


def _steps(csrc):
    """Make every plain load/store through a pointer a scheduling step (atomic ones already are)."""
    out = []
    n = 0
    for ln in csrc.splitlines():
        m = re.match(r"^(\s*)(v_\w+ = \(\*[^;]*\);)\s*$", ln)
        if m and "_mem)" not in ln:
            out.append("%sVSTEP(%s);" % (m.group(1), m.group(2).rstrip(";")))
            n += 1
            continue
        m = re.match(r"^(\s*)(\*[^=;]+ = [^;]*;)\s*$", ln)
        if m and not re.match(r"\*\(*&?v_\w+_mem\b", m.group(2)):
            out.append("%sVSTEP(%s);" % (m.group(1), m.group(2).rstrip(";")))
            n += 1
            continue
        out.append(ln)
    return "\n".join(out) + "\n", n


def _prepare(work, kind, text):
    cpp = os.path.join(work, "ctr_%s.cpp" % kind)
    open(cpp, "w").write(text)
    ll = K.lower(cpp, os.path.join(work, "ctr_%s.ll" % kind), extra=["-fno-exceptions"])
    c = K.translate(ll, os.path.join(work, "ctr_%s.c" % kind))
    drv = os.path.join(work, "drv_%s.c" % kind)
    open(drv, "w").write(DRIVER.replace("@K@", kind))
    nlines = K.differential(work, drv, c, cpp, extra_cxx=["-fno-exceptions"], extra_c=["-D__dso_handle=verif_dso_handle"])
    src, nsteps = _steps(open(c).read())
    cs = os.path.join(work, "ctr_%s_steps.c" % kind)
    open(cs, "w").write(src)
    natomic = len(re.findall(r"VERIF_ATOMIC_|VERIF_CMPXCHG", src))
    h = os.path.join(work, "h_%s.c" % kind)
    open(h, "w").write(HARNESS.replace("@K@", kind).replace("@KC@", os.path.basename(cs)))
    return h, cs, nlines, nsteps, natomic


def _replay_native(work, h, kind, nt, calls=CALLS):
    defs = ["NT=%d" % nt, "NCALLS=%d" % calls, "VERIF_SCHEDLOG"]
    r = K.cbmc([h], defines=defs, unwind=2 * nt * calls + 2, timeout=300, includes=[work])
    if r.status != "failed":
        return None, "schedule-logging rerun did not fail (%s)" % r.status, ""
    s = K.schedule_from_trace(r.out)
    exe = os.path.join(work, "replay_%s_%d" % (kind, nt))
    rc, out, err = sh(["gcc", "-O0", "-w", "-DVERIF_REPLAY", "-D__dso_handle=verif_dso_handle", "-DNT=%d" % nt, "-DNCALLS=%d" % calls, "-I", K.HERE, "-I", work, h,
                       os.path.join(K.HERE, "verif_replay.c"), "-o", exe, "-lpthread"], timeout=120)
    if rc != 0:
        return None, "native replay build failed: " + err[-500:], s
    rc, out, err = sh([exe, s], timeout=20)
    return (rc == 3 and "ASSERTION-FAILED" in out), "schedule=%s rc=%d out=%s" % (s, rc, out.strip()[-200:]), s


def run(tier, seed, only=None):
    res = common.Result(PID, "model_checking")
    work = common.scratch_dir("c22")
    try:
        member, func = _slice_interp()
        expr, field, refdecl, reftype, gen_sha = _slice_synth(work)
        log("[C22] interpreter slice: `%s` / `%s`" % (member, " ".join(func.split())))
        log("[C22] synthesiser slice: expr `%s`, field `%s`, stratum member `%s`" % (expr, field, refdecl))
        texts = {
            "interp": INTERP_TMPL.replace("@MEMBER@", member).replace("@FUNC@", func),
            "synth": SYNTH_TMPL.replace("@REFDECL@", refdecl).replace("@REFTYPE@", reftype).replace("@EXPR@", expr)
                               .replace("@FIELD@", field),
        }
        prep = {}
        for kind in ("interp", "synth"):
            prep[kind] = _prepare(work, kind, texts[kind])
        obls = []
        for kind in ("interp", "synth"):
            for nt, calls in ((2, CALLS), (3, CALLS)) + (((2, 3),) if tier == "thorough" else ()):
                name = "%s/threads=%d/calls=%d" % (kind, nt, calls)
                if only and only not in name:
                    continue
                h = prep[kind][0]
                obls.append(K.Obligation(name, [h], defines=["NT=%d" % nt, "NCALLS=%d" % calls], unwind=2 * nt * calls + 2,
                                         timeout=120 if tier == "quick" else 600, includes=[work],
                                         meta={"kernel": kind, "threads": nt, "calls_per_thread": calls,
                                               "shared_memory_steps_in_kernel": prep[kind][3] + prep[kind][4]}))
        K.run_all(obls, jobs=6)
        nprops = 0
        for o in obls:
            nprops += o.res.n_props if o.res else 0
            kind, nt = o.meta["kernel"], o.meta["threads"]
            if o.verdict == "violated":
                failed = "; ".join(sorted(set(d for n, d in o.res.failed)))
                calls = o.meta["calls_per_thread"]
                ok, info, sched = _replay_native(work, prep[kind][0], kind, nt, calls)
                if ok:
                    d = K.save_replay(PID, "%s_t%d_c%d" % (kind, nt, calls), {
                        "harness.c": open(prep[kind][0]).read(),
                        os.path.basename(prep[kind][1]): open(prep[kind][1]).read(),
                        "kernel.cpp": texts[kind], "schedule.txt": sched + "\n",
                        "trace.txt": o.res.out[-20000:],
                        "README": "%s\n%s\nreproduced natively with the forced schedule: %s\n"
                                  "rebuild: gcc -O0 -w -DVERIF_REPLAY -D__dso_handle=verif_dso_handle -DNT=%d -DNCALLS=%d -I /verif/engine_k -I . harness.c "
                                  "/verif/engine_k/verif_replay.c -lpthread && ./a.out $(cat schedule.txt)\n" % (o.name, failed, info, nt, calls)})
                    res.violation("%s:duplicate" % kind,
                                  "%s counter: two autoinc() calls return the same value under schedule %s (%d threads x %d calls)"
                                  % ("interpreter Engine::incCounter" if kind == "interp" else "synthesised `%s`" % expr, sched, nt, calls), d)
                else:
                    res.inconc("counterexample for %s (%s) did not reproduce natively: %s" % (o.name, failed, info))
            elif o.verdict != "holds":
                res.inconc("%s: %s" % (o.name, o.why))
        held = [o for o in obls if o.verdict == "holds"]
        res.coverage = {
            "explanation": "each (kernel, thread count) is one CBMC query over all interleavings of the kernel's shared-memory steps (SC memory)",
            "states": nprops, "transitions": len(obls),
            "states_note": "'states' = number of CBMC properties (assertions incl. unwinding/overflow) decided over all interleavings; "
                           "'transitions' = (kernel, thread count) configurations",
            "traces_validated_against_impl": prep["interp"][2] + prep["synth"][2],
            "obligations": len(obls), "discharged": len(held),
            "exhaustive": True,
            "functions_encoded": ["souffle::interpreter::Engine::incCounter + member `%s`" % member,
                                  "synthesiser emission for ram::AutoIncrement: `%s` with field `%s` and stratum member `%s`" % (expr, field, refdecl)],
            "source": {p: common.file_sha(common.repo_file(p)) for p in
                       ("src/interpreter/Engine.h", "src/interpreter/Engine.cpp", "src/synthesiser/Synthesiser.cpp")},
            "generated_cpp_sha": gen_sha,
            "bounds": {"threads_x_calls": sorted(set((o.meta["threads"], o.meta["calls_per_thread"]) for o in obls)), "memory_model": "SC", "initial_counter": "as initialised by the sliced declaration"},
            "solver_time_s": round(sum((o.res.time if o.res else 0) + (o.wres.time if o.wres else 0) for o in obls), 1),
            "queries": sum((1 if o.res else 0) + (1 if o.wres else 0) for o in obls),
            "checker_cmd": obls[0].res.cmd if obls and obls[0].res else "",
            "samples": [o.sample() for o in obls],
        }
        res.assumptions = [
            "sequentially consistent memory (memory_order arguments not modelled)",
            "2 and 3 threads, %d calls each; counter starts at its declared initial value" % CALLS,
            "the synthesiser's expression is taken from `souffle -g` on one program (b(x,autoinc()) :- a(x).); all other mentions of "
            "`ctr` in the generated file are checked to be constructor plumbing",
            "translation clang IR -> C validated differentially on %d output lines" % (prep["interp"][2] + prep["synth"][2]),
        ]
    finally:
        common.rm_rf(work)
    return res

#ifndef VERIF_RT_H
#define VERIF_RT_H
#include <stdint.h>
#include <string.h>
/* Runtime for IR-derived C.  Three modes:
 *   __CPROVER__            : atomics are __CPROVER_atomic sections (SC memory model);
 *                            with -DVERIF_SCHEDLOG every atomic step records the executing thread id
 *   native + VERIF_REPLAY  : atomic steps are executed in the order given by verif_sched[] (schedule replay)
 *   native                 : plain sequential execution (differential validation of the translation)      */
#ifndef VERIF_SCHED_MAX
#define VERIF_SCHED_MAX 64
#endif
#ifdef __CPROVER__
/* every atomic step stores to verif_step: the counterexample trace then lists the atomic steps in
   execution order together with the executing thread ("State N ... thread T"), which is the schedule */
#ifdef VERIF_SCHEDLOG
extern int verif_step;
#define VA_BEGIN() do { __CPROVER_atomic_begin(); verif_step = 1; } while (0)
#else
#define VA_BEGIN() __CPROVER_atomic_begin()
#endif
#define VA_END() __CPROVER_atomic_end()
#define VERIF_UNREACHABLE() do { __CPROVER_assert(0, "unreachable reached"); __CPROVER_assume(0); } while (0)
#define VERIF_TRAP() (__CPROVER_assert(0, "trap"), __CPROVER_assume(0))
#ifndef VERIF_ASM
#define VERIF_ASM() __CPROVER_assume(0)   /* 'pause' in a spin loop: prune spinning executions */
#endif
#define VERIF_ASSERT(c, msg) __CPROVER_assert(c, msg)
#else
#include <assert.h>
#include <stdlib.h>
#include <stdio.h>
#ifdef VERIF_REPLAY
void verif_wait_turn(void);
void verif_done_turn(void);
#define VA_BEGIN() verif_wait_turn()
#define VA_END() verif_done_turn()
#else
#define VA_BEGIN()
#define VA_END()
#endif
#define __CPROVER_assume(x) do { if (!(x)) abort(); } while (0)
#define VERIF_UNREACHABLE() abort()
#define VERIF_TRAP() abort()
#ifndef VERIF_ASM
#define VERIF_ASM()
#endif
#define VERIF_ASSERT(c, msg) do { if (!(c)) { printf("ASSERTION-FAILED: %s\n", msg); fflush(stdout); exit(3); } } while (0)
#endif
/* a harness-level shared-memory step (scheduled and logged like the kernel's atomics) */
#define VSTEP(stmt) do { VA_BEGIN(); stmt; VA_END(); } while (0)
#define VERIF_FENCE()
#define VERIF_ATOMIC_LOAD(T, p) ({ VA_BEGIN(); T _v = *(p); VA_END(); _v; })
#define VERIF_ATOMIC_STORE(T, p, v) do { VA_BEGIN(); *(p) = (v); VA_END(); } while (0)
#define VERIF_RMW(T, p, v, OP) ({ VA_BEGIN(); T _o = *(p); *(p) = (T)(OP); VA_END(); _o; })
#define VERIF_ATOMIC_RMW_or(T, p, v) VERIF_RMW(T, p, v, _o | (v))
#define VERIF_ATOMIC_RMW_and(T, p, v) VERIF_RMW(T, p, v, _o & (v))
#define VERIF_ATOMIC_RMW_xor(T, p, v) VERIF_RMW(T, p, v, _o ^ (v))
#define VERIF_ATOMIC_RMW_add(T, p, v) VERIF_RMW(T, p, v, _o + (v))
#define VERIF_ATOMIC_RMW_sub(T, p, v) VERIF_RMW(T, p, v, _o - (v))
#define VERIF_ATOMIC_RMW_xchg(T, p, v) VERIF_RMW(T, p, v, (v))
#define VERIF_CMPXCHG(T, dst, p, e, n) do { VA_BEGIN(); T _o = *(p); (dst).f0 = _o; if (_o == (e)) { *(p) = (n); (dst).f1 = 1; } else (dst).f1 = 0; VA_END(); } while (0)
static inline double verif_bits2double(uint64_t b) { double d; memcpy(&d, &b, 8); return d; }
static inline uint32_t verif_bitcast_float_i32(float f) { uint32_t u; memcpy(&u, &f, 4); return u; }
static inline float verif_bitcast_i32_float(uint32_t u) { float f; memcpy(&f, &u, 4); return f; }
static inline uint64_t verif_bitcast_double_i64(double f) { uint64_t u; memcpy(&u, &f, 8); return u; }
static inline double verif_bitcast_i64_double(uint64_t u) { double f; memcpy(&f, &u, 8); return f; }
static inline unsigned verif_ctlz64(uint64_t x){ if(!x) return 64; unsigned n=0; if(!(x>>32)){n+=32;x<<=32;} if(!(x>>48)){n+=16;x<<=16;} if(!(x>>56)){n+=8;x<<=8;} if(!(x>>60)){n+=4;x<<=4;} if(!(x>>62)){n+=2;x<<=2;} if(!(x>>63)){n+=1;} return n; }
static inline unsigned verif_ctlz32(uint32_t x){ return x ? verif_ctlz64(x) - 32 : 32; }
static inline unsigned verif_cttz64(uint64_t x) { unsigned n = 0; if (x == 0) return 64; while (!(x & 1)) { x >>= 1; n++; } return n; }
static inline float verif_fabs_float(float x) { return x < 0 ? -x : x; }
static inline double verif_fabs_double(double x) { return x < 0 ? -x : x; }
#endif

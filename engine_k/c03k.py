"""C03, K part: the OpenMP reduction the synthesiser emits for parallel aggregates.

`souffle -j4 -g` is run on one-rule programs whose outermost operation is an aggregate; the emitted
`#pragma omp for reduction(op:vars)` loop body and the accumulator declarations are cut out verbatim and put into a
two-thread CBMC harness with OpenMP's semantics: variables named in the reduction clause are thread-private copies
combined with `op` at the end, every other accumulator is shared.  Obligation: for all values, every interleaving
gives the accumulators the sequential loop gives."""
import os
import re
import time

from vlib import common
from vlib.common import EngineError, sh
from . import kcommon as K

AGGS = [("mean", "float"), ("sum", "float"), ("sum", "number"), ("sum", "unsigned"), ("min", "float"), ("min", "number"),
        ("min", "unsigned"), ("max", "float"), ("max", "number"), ("max", "unsigned")]
CT = {"RamFloat": "float", "RamSigned": "int32_t", "RamUnsigned": "uint32_t", "RamDomain": "int32_t"}


def program():
    lines = []
    for i, (agg, ty) in enumerate(AGGS):
        lines += [".decl in%d(x:%s)" % (i, ty), ".input in%d" % i, ".decl out%d(x:%s)" % (i, ty), ".output out%d" % i,
                  "out%d(x) :- x = %s y : { in%d(y) }." % (i, agg, i)]
    return "\n".join(lines) + "\n"


def cut(cpp):
    """[(tag, decls [(ctype, name, init)], reduction op, reduction vars, body lines)] from the generated C++"""
    out = []
    lines = cpp.split("\n")
    for i, l in enumerate(lines):
        m = re.match(r"\s*#pragma omp for reduction\((\w+|\+):\s*([^)]*)\)", l)
        if not m:
            continue
        op, rvars = m.group(1), [v.strip() for v in m.group(2).split(",")]
        # declarations: back to the enclosing lambda
        decls = []
        j = i
        while j > 0 and "[&](){" not in lines[j]:
            j -= 1
        tag = ""
        for k in range(max(0, j - 6), j):
            mm = re.search(r"= (\w+) y : \{ in(\d+)\(y\) \}", lines[k])
            if mm:
                tag = "%s_%s" % (mm.group(1), AGGS[int(mm.group(2))][1])
        for k in range(j, i):
            mm = re.match(r"\s*(Ram\w+) (res\d+) = (.*);\s*$", lines[k])
            if mm:
                decls.append((mm.group(1), mm.group(2), mm.group(3)))
        # body: from `if( true) {` to its closing brace
        k = i
        while k < len(lines) and not re.match(r"\s*if\(\s*true\)\s*\{", lines[k]):
            k += 1
        body = []
        k += 1
        while k < len(lines) and lines[k].strip() != "}":
            body.append(lines[k].strip())
            k += 1
        if not decls or not body:
            raise EngineError("cannot cut the parallel aggregate at generated line %d" % (i + 1))
        out.append((tag or "agg%d" % len(out), decls, op, rvars, body))
    return out


def _c_body(body, suffix_for):
    """emitted statements -> C; accumulators renamed by suffix_for(name)"""
    res = []
    for st in body:
        if st.startswith("shouldRunNested"):
            continue     # every thread stores the same constant: benign
        st = re.sub(r"ramBitCast<(\w+)>\(env0\[\d+\]\)", lambda m: "V_%s" % m.group(1), st)
        st = st.replace("std::min(", "MINF(").replace("std::max(", "MAXF(")
        st = re.sub(r"\bres(\d+)\b", lambda m: "res%s%s" % (m.group(1), suffix_for("res" + m.group(1))), st)
        res.append(st)
    return res


def harness(tag, decls, op, rvars, body, sentinels):
    tys = {n: CT[t] for t, n, _ in decls}
    vts = sorted(set(re.findall(r"ramBitCast<(\w+)>\(env0", " ".join(body))))
    ident = {"+": "0", "min": None, "max": None}
    L = ["#include <stdint.h>", "#include <math.h>", "#include <float.h>", sentinels,
         "#define MINF(a,b) ((b) < (a) ? (b) : (a))", "#define MAXF(a,b) ((a) < (b) ? (b) : (a))"]
    for t, n, init in decls:
        L.append("%s %s = %s; %s %s_seq = %s;" % (CT[t], n, init, CT[t], n, init))
    L.append("int done = 0;")
    for vt in vts:
        L.append("%s nondet_%s(void);" % (CT[vt], vt))
    # one loop iteration of a thread, OpenMP semantics
    L.append("void iteration(%s) {" % ", ".join("%s V_%s" % (CT[vt], vt) for vt in vts))
    for t, n, init in decls:
        if n in rvars:
            # private copy initialised with the operator's identity
            idv = "0" if op == "+" else init
            L.append("  %s %s_priv = %s;" % (CT[t], n, idv))
    for st in _c_body(body, lambda n: "_priv" if n in rvars else ""):
        L.append("  " + st)
    L.append("  __CPROVER_atomic_begin();")
    for t, n, init in decls:
        if n in rvars:
            comb = {"+": "%s = %s + %s_priv;", "min": "%s = MINF(%s, %s_priv);", "max": "%s = MAXF(%s, %s_priv);"}[op]
            L.append("  " + comb % (n, n, n))
    L.append("  done++;")
    L.append("  __CPROVER_atomic_end();")
    L.append("}")
    L.append("void seq_iteration(%s) {" % ", ".join("%s V_%s" % (CT[vt], vt) for vt in vts))
    for st in _c_body(body, lambda n: "_seq"):
        L.append("  " + st)
    L.append("}")
    L.append("int main(void) {")
    args1, args2 = [], []
    for vt in vts:
        L.append("  %s a_%s = nondet_%s(), b_%s = nondet_%s();" % (CT[vt], vt, vt, vt, vt))
        if CT[vt] == "float":
            # floating-point addition is commutative but not associative: two elements keep the sum order-independent;
            # NaN is excluded (NaN != NaN would fail the comparison without any race)
            L.append("  __CPROVER_assume(!isnan(a_%s) && !isnan(b_%s) && !isinf(a_%s) && !isinf(b_%s));" % (vt, vt, vt, vt))
            # the race does not depend on the magnitudes: small integral floats keep the query cheap for the SAT back end
            L.append("  __CPROVER_assume(a_%s == (float)(int)a_%s && b_%s == (float)(int)b_%s && a_%s >= -4.0f && a_%s <= 4.0f && b_%s >= -4.0f && b_%s <= 4.0f);" % (vt, vt, vt, vt, vt, vt, vt, vt))
        if CT[vt] == "int32_t" and op == "+":
            # signed overflow is outside the defined value domain
            L.append("  __CPROVER_assume((int64_t)a_%s + (int64_t)b_%s <= INT32_MAX && (int64_t)a_%s + (int64_t)b_%s >= INT32_MIN);" % (vt, vt, vt, vt))
        args1.append("a_" + vt)
        args2.append("b_" + vt)
    L.append("  __CPROVER_ASYNC_1: iteration(%s);" % ", ".join(args1))
    L.append("  iteration(%s);" % ", ".join(args2))
    L.append("  __CPROVER_assume(done == 2);")
    L.append("  seq_iteration(%s); seq_iteration(%s);" % (", ".join(args1), ", ".join(args2)))
    for t, n, init in decls:
        if CT[t] == "float":
            L.append("  __CPROVER_assert(%s == %s_seq || (isnan(%s) && isnan(%s_seq)), \"parallel accumulator %s equals the sequential one\");" % (n, n, n, n, n))
        else:
            L.append("  __CPROVER_assert(%s == %s_seq, \"parallel accumulator %s equals the sequential one\");" % (n, n, n))
    L.append("#ifdef WITNESS")
    L.append("  __CPROVER_assert(0, \"witness\");")
    L.append("#endif")
    L.append("  return 0; }")
    return "\n".join(L) + "\n"


def stress(tag, decls, op, rvars, body, sentinels, work):
    """native reproduction: two pthreads run the emitted body many times with the same sharing discipline"""
    tys = {n: CT[t] for t, n, _ in decls}
    vts = sorted(set(re.findall(r"ramBitCast<(\w+)>\(env0", " ".join(body))))
    L = ["#include <stdint.h>", "#include <stdio.h>", "#include <math.h>", "#include <float.h>", "#include <pthread.h>", sentinels,
         "#define MINF(a,b) ((b) < (a) ? (b) : (a))", "#define MAXF(a,b) ((a) < (b) ? (b) : (a))", "#define N 3000000"]
    for t, n, init in decls:
        L.append("volatile %s %s = %s; %s %s_seq = %s;" % (CT[t], n, init, CT[t], n, init))
    L.append("pthread_mutex_t mu = PTHREAD_MUTEX_INITIALIZER;")
    L.append("void* th(void* a) {")
    for vt in vts:
        L.append("  %s V_%s = 1;" % (CT[vt], vt))
    for t, n, init in decls:
        if n in rvars:
            L.append("  %s %s_priv = %s;" % (CT[t], n, "0" if op == "+" else init))
    L.append("  for (long i = 0; i < N; i++) {")
    for st in _c_body(body, lambda n: "_priv" if n in rvars else ""):
        L.append("    " + st)
    L.append("  }")
    L.append("  pthread_mutex_lock(&mu);")
    for t, n, init in decls:
        if n in rvars:
            comb = {"+": "%s = %s + %s_priv;", "min": "%s = MINF(%s, %s_priv);", "max": "%s = MAXF(%s, %s_priv);"}[op]
            L.append("  " + comb % (n, n, n))
    L.append("  pthread_mutex_unlock(&mu); return 0; }")
    L.append("int main(void) { pthread_t t1, t2;")
    for vt in vts:
        L.append("  %s V_%s = 1;" % (CT[vt], vt))
    L.append("  pthread_create(&t1, 0, th, 0); pthread_create(&t2, 0, th, 0); pthread_join(t1, 0); pthread_join(t2, 0);")
    L.append("  for (long i = 0; i < 2L * N; i++) {")
    for st in _c_body(body, lambda n: "_seq"):
        L.append("    " + st)
    L.append("  }")
    L.append("  int bad = 0;")
    for t, n, init in decls:
        L.append("  if ((double)%s != (double)%s_seq) { printf(\"%s: parallel %%f sequential %%f\\n\", (double)%s, (double)%s_seq); bad = 1; }" % (n, n, n, n, n))
    L.append("  return bad; }")
    src = os.path.join(work, "stress_%s.c" % tag)
    open(src, "w").write("\n".join(L) + "\n")
    exe = src[:-2]
    rc, out, err = sh(["gcc", "-O1", "-w", src, "-o", exe, "-lpthread", "-lm"], timeout=120)
    if rc != 0:
        return None, "stress build failed: " + err[-300:], src
    for _ in range(5):
        rc, out, err = sh([exe], timeout=120)
        if rc == 1:
            return True, out.strip()[:200], src
    return False, "5 native runs of 2 x 3,000,000 iterations gave the sequential result", src


def extend(res, tier, seed, only=None):
    common.ensure_souffle()
    work = common.scratch_dir("c03k")
    t0 = time.time()
    try:
        dl = os.path.join(work, "pa.dl")
        open(dl, "w").write(program())
        cpp = os.path.join(work, "pa.cpp")
        rc, out, err = sh([common.SOUFFLE, "-w", "-j4", "-g", cpp, dl], timeout=300, cwd=work)
        if rc != 0:
            raise EngineError("souffle -j4 -g failed: " + err[-400:])
        regions = cut(open(cpp).read())
        if len(regions) < 6:
            raise EngineError("only %d parallel aggregate regions found in the generated code" % len(regions))
        rt = common.read_repo("src/include/souffle/RamTypes.h")
        inf = "infinity" in re.search(r"MAX_RAM_FLOAT\s*=\s*([^;]*);", rt).group(1)
        sentinels = ("#define MIN_RAM_SIGNED INT32_MIN\n#define MAX_RAM_SIGNED INT32_MAX\n#define MIN_RAM_UNSIGNED 0u\n#define MAX_RAM_UNSIGNED UINT32_MAX\n"
                     "#define MAX_RAM_FLOAT %s\n#define MIN_RAM_FLOAT (-%s)\n" % (("INFINITY", "INFINITY") if inf else ("FLT_MAX", "FLT_MAX")))
        obls = []
        for tag, decls, op, rvars, body in regions:
            if only and only.startswith("k:") and only[2:] not in tag:
                continue
            h = os.path.join(work, "h_%s.c" % tag)
            open(h, "w").write(harness(tag, decls, op, rvars, body, sentinels))
            obls.append(K.Obligation("parallel-aggregate/" + tag, [h], unwind=2, timeout=120,
                                     meta={"reduction": "%s:%s" % (op, ",".join(rvars)), "accumulators": [n for _, n, _ in decls],
                                           "body": body, "_r": (tag, decls, op, rvars, body)}))
        K.run_all(obls, jobs=6)
        held = 0
        for o in obls:
            r = o.meta.pop("_r")
            if o.verdict == "holds":
                held += 1
            elif o.verdict == "violated":
                ok, info, src = stress(*r, sentinels, work)
                failed = "; ".join(sorted(set(d for n, d in o.res.failed)))
                if ok:
                    d = K.save_replay("C03", "parallel_aggregate_" + r[0], {
                        "program.dl": program(), "harness.c": open(o.files[0]).read(), "stress.c": open(src).read(),
                        "trace.txt": o.res.out[-15000:],
                        "README": "souffle -j4 -g on program.dl emits `#pragma omp for reduction(%s:%s)` around:\n  %s\nAccumulators: %s.\n%s\nNative stress run (stress.c, same sharing discipline): %s\n"
                                  "rebuild: gcc -O1 -w stress.c -o stress -lpthread -lm && ./stress\n" % (
                                      r[2], ",".join(r[3]), "\n  ".join(r[4]), [n for _, n, _ in r[1]], failed, info)})
                    res.violation("parallel-aggregate|%s" % r[0], "compiled parallel %s aggregate: an accumulator updated in the OpenMP loop is not covered by the reduction clause (%s)" % (r[0], info), d)
                else:
                    res.inconc("parallel aggregate %s: CBMC counterexample (%s) did not reproduce natively: %s" % (r[0], failed, info))
            else:
                res.inconc("parallel aggregate %s: %s" % (r[0], o.why))
        res.coverage["k_part_parallel_aggregates"] = {
            "obligations": len(obls), "discharged": held, "samples": [o.sample() for o in obls[:3]],
            "functions_encoded": "loop bodies and reduction clauses emitted by Synthesiser.cpp (ParallelAggregate / ParallelIndexAggregate) for " + ", ".join("%s/%s" % a for a in AGGS),
            "bounds": "2 threads x 1 iteration, all 32-bit integer values without signed overflow; floats restricted to the integers -4..4 (the race does not depend on magnitudes); all interleavings",
            "solver_time_s": round(sum((o.res.time if o.res else 0) for o in obls), 1),
            "source": {"src/synthesiser/Synthesiser.cpp": common.file_sha(common.repo_file("src/synthesiser/Synthesiser.cpp"))},
        }
    finally:
        common.rm_rf(work)
    return res

"""C31 — symbol / record interning, kernel only (engine K): ConcurrentInsertOnlyHashMap::get under bounded interference.

Real code: souffle::ConcurrentInsertOnlyHashMap<SeqConcurrentLanes, int, int, identity hash>::get / node / weakFind
(src/include/souffle/datastructure/ConcurrentInsertOnlyHashMap.h, included; SeqConcurrentLanes from ParallelUtil.h),
lowered with clang, translated to C (ir2c --yield: a hook before each atomic access of get), decided by CBMC.

 (a) sequential: from every table state with <= 3 nodes (1 or 2 buckets, symbolic distinct keys) one get(key): an equal key
     is found and not re-inserted, a fresh key is inserted exactly once at the head of its bucket, the returned value maps
     to the key, no node is lost, Size counts the insertion;
 (b) bounded interference: the same with <= 2 environment insertions (what another lane's complete get does to shared
     memory: CAS-style push of a node + ++Size) of other keys or of the SAME key, injected before any of the operation's
     atomic steps (bucket-head load, every compare-exchange, ++Size), in every order and position the solver can choose:
     the key ends up in the table exactly once, the operation returns the entry that is in the table (its own node iff
     it reports `inserted`, the environment's otherwise), nothing is lost, every node sits in the bucket of its key.
     The environment inserts a key only if it is not in the table at that moment: that is exactly the guarantee (b)
     proves for the operation itself, so the argument is rely/guarantee-closed for any number of lanes doing get().

Two CBMC native threads each running get() were NOT used: CBMC's concurrency mode rejects dereferences of pointers read
from shared memory (bucket heads and Next links are such pointers); see coverage["outside"].
Outside: growth under lock-all (tryGrow is cut out and asserted unreachable), iteration across growth, the constructor,
ConcurrentFlyweight (slot reservation), SymbolTableImpl / RecordTableImpl (std::string, per-arity maps), weak memory."""
import os
import re
import time

from vlib import common
from vlib.common import EngineError, log, sh
from . import kcommon as K
from . import c24

PID = "C31"
HDR = "src/include/souffle/datastructure/ConcurrentInsertOnlyHashMap.h"
PAR = "src/include/souffle/utility/ParallelUtil.h"

WRAPPER = r'''
#include <array>
#include <atomic>
#include <cassert>
#include <cmath>
#include <cstdint>
#include <cstring>
#include <limits>
#include <memory>
#include <mutex>
#include <new>
#include <vector>
#include "souffle/utility/ParallelUtil.h"
/* the kernel's private state is set up and inspected by the harness: access control is lifted for this TU only */
#define private public
#define protected public
#include "souffle/datastructure/ConcurrentInsertOnlyHashMap.h"
#undef private
#undef protected
using namespace souffle;
struct IdHash { std::size_t operator()(int k) const { return (std::size_t)(unsigned)k; } };
using Map = ConcurrentInsertOnlyHashMap<SeqConcurrentLanes, int, int, IdHash>;
using BL = Map::BucketList;
using VT = Map::value_type;
/* the constructor is outside the claim (it needs the ToPrime table and allocates >= 13 buckets): the object lives in a union
   whose constructor does not construct it; k_init sets the fields (1 or 2 buckets, no growth) */
union Holder { Map m; Holder() {} ~Holder() {} };
static Holder HOLD;
static std::atomic<BL*> BUCKETS[2];
static Map* M() { return &HOLD.m; }
static std::uintptr_t& slot(int b) { return *reinterpret_cast<std::uintptr_t*>(&BUCKETS[b]); }
extern "C" {
__attribute__((noinline)) void k_init(int nb) {
    Map* m = M();
    new (&m->Lanes) SeqConcurrentLanes(1);
    m->BucketCount = (std::size_t)nb;
    new (&m->Buckets) std::unique_ptr<std::atomic<BL*>[]>(BUCKETS);
    slot(0) = 0; slot(1) = 0;
    *reinterpret_cast<std::size_t*>(&m->Size) = 0;
    m->MaxSizeBeforeGrow = 1000;
    m->LoadFactor = 1.0;
}
__attribute__((noinline)) BL* k_node(int v) { return static_cast<BL*>(M()->node(v)); }
/* out: [0] inserted, [1] value->first, [2] value->second; returns the value pointer */
__attribute__((noinline)) const VT* k_get(BL* node, int key, int* out) {
    auto r = M()->get(0, static_cast<Map::node_type>(node), key);
    out[0] = r.second ? 1 : 0; out[1] = r.first->first; out[2] = r.first->second;
    return r.first;
}
__attribute__((noinline)) int k_weakfind(int key) { auto p = M()->weakFind(0, key); return p ? p->second : -1; }
/* plain accessors for the harness (state set-up, environment steps, inspection) */
__attribute__((noinline)) BL* k_head(int b) { return reinterpret_cast<BL*>(slot(b)); }
__attribute__((noinline)) void k_set_head(int b, BL* n) { slot(b) = reinterpret_cast<std::uintptr_t>(n); }
__attribute__((noinline)) BL* k_next(BL* n) { return n->Next; }
__attribute__((noinline)) void k_set_next(BL* n, BL* x) { n->Next = x; }
__attribute__((noinline)) int k_key(BL* n) { return n->Value.first; }
__attribute__((noinline)) void k_set_key(BL* n, int k) { const_cast<int&>(n->Value.first) = k; }
__attribute__((noinline)) int k_val(BL* n) { return n->Value.second; }
__attribute__((noinline)) const VT* k_valueptr(BL* n) { return &n->Value; }
__attribute__((noinline)) unsigned long k_size(void) { return *reinterpret_cast<std::size_t*>(&M()->Size); }
__attribute__((noinline)) void k_set_size(unsigned long s) { *reinterpret_cast<std::size_t*>(&M()->Size) = s; }
}
'''

# One source for three builds:
#   CBMC                         : includes the IR-derived C (yield translation), nondeterministic inputs
#   native, -DVERIF_NATIVE       : IR-derived C, inputs and environment schedule from argv  (replay with interference)
#   native, -DVERIF_NATIVE -DVERIF_REAL : linked against the g++ build of the real wrapper TU (replay, ENV = 0 only)
HARNESS = r'''
#include "verif_rt.h"
#define MAXN (PRE + ENV + 1)
#ifdef VERIF_REAL
typedef struct NODE_ NODE; typedef struct VT_ VT;
void k_init(uint32_t); NODE* k_node(uint32_t); VT* k_get(NODE*, uint32_t, uint32_t*); NODE* k_head(uint32_t); void k_set_head(uint32_t, NODE*);
NODE* k_next(NODE*); void k_set_next(NODE*, NODE*); uint32_t k_key(NODE*); void k_set_key(NODE*, uint32_t); VT* k_valueptr(NODE*);
uint64_t k_size(void); void k_set_size(uint64_t);
#else
static void env_point(int site);
#define VERIF_YIELD_AT(k) env_point(k)
#include "hm_y.c"
typedef NODE_T NODE; typedef VT_T VT;
/* operator new -> small typed static pool; bounds checks stay on */
NODE POOL[MAXN]; int pool_used = 0;
uint8_t* _Znwm(uint64_t n) { VERIF_ASSERT(n == sizeof(NODE), "only bucket nodes are allocated"); VERIF_ASSERT(pool_used < MAXN, "pool large enough"); return (uint8_t*)&POOL[pool_used++]; }
uint8_t* _Znam(uint64_t n) { VERIF_ASSERT(0, "operator new[] (growth) is outside the claim and must not be reached"); __CPROVER_assume(0); return 0; }
void _ZdlPv(uint8_t* p) { VERIF_ASSERT(0, "nothing is freed"); }
void _ZdaPv(uint8_t* p) { VERIF_ASSERT(0, "nothing is freed"); }
uint8_t TRYGROW(TRYGROW_ARGS) { VERIF_ASSERT(0, "growth is outside the claim and must not be reached"); __CPROVER_assume(0); return 0; }
#endif
#ifdef VERIF_NATIVE
static int ai = 1, ac; static char** av;
static int32_t nondet_i32(void) { if (ai >= ac) { printf("not enough inputs\n"); exit(2); } return (int32_t)strtoll(av[ai++], 0, 0); }
#else
int32_t nondet_i32(void);
#endif
/* inputs, one variable each so that they can be read from the trace */
int32_t PK0, PK1, PK2, EK0, EK1, KEY, FIRE0, FIRE1;
/* ghost: the nodes that must be in the table, with their keys: PRE initial nodes, then the environment's */
NODE* G[MAXN]; int32_t GK[MAXN]; int ng = 0;
NODE* EN[ENV + 1]; int32_t EK[ENV + 1]; int32_t FIRE[ENV + 1];
int env_taken = 0; int in_op = 0; int ycount = 0; int32_t OPKEY;
static int bucket_of(int32_t k) { return (int)((uint32_t)k % NB); }
static void link_front(NODE* n, int32_t k) { int b = bucket_of(k); k_set_next(n, k_head(b)); k_set_head(b, n); k_set_size(k_size() + 1); G[ng] = n; GK[ng] = k; ng++; }
static int ghost_has(int32_t k) { int r = 0; for (int i = 0; i < MAXN; i++) if (i < ng && GK[i] == k) r = 1; return r; }
#ifndef VERIF_REAL
/* environment: before an atomic step of the operation another lane completes an insertion (CAS push + ++Size) of a key that is
   not in the table at that moment -- possibly the key the operation is working on.  Site 2 is the ++Size that follows the
   operation's successful compare-exchange: from there on the operation's key is in the table.  FIRE[j] = number of the yield
   point (in execution order) at which environment step j happens; chosen freely by the solver. */
static void env_point(int site) {
  if (!in_op) return;
#if ENV >= 1
  if (env_taken == 0 && ycount == FIRE[0]) { __CPROVER_assume(!ghost_has(EK[0]) && !(site == 2 && EK[0] == OPKEY)); link_front(EN[0], EK[0]); env_taken = 1; }
#endif
#if ENV >= 2
  if (env_taken == 1 && ycount == FIRE[1]) { __CPROVER_assume(!ghost_has(EK[1]) && !(site == 2 && EK[1] == OPKEY)); link_front(EN[1], EK[1]); env_taken = 2; }
#endif
  ycount++;
}
#endif
#define KEYDOM(k) __CPROVER_assume(KEYMAX == 0 || ((k) >= 0 && (k) < KEYMAX))
NODE* L[NB][MAXN + 1]; int LN[NB];
#ifdef VERIF_NATIVE
int main(int argc, char** argv) {
  ac = argc; av = argv;
#else
int main(void) {
#endif
  k_init(NB);
  for (int i = 0; i < PRE; i++) {
    int32_t k = nondet_i32(); KEYDOM(k); __CPROVER_assume(!ghost_has(k));
    if (i == 0) PK0 = k; else if (i == 1) PK1 = k; else PK2 = k;
    NODE* n = k_node(10 + i); k_set_key(n, k); link_front(n, k); }
  for (int j = 0; j < ENV; j++) {
    EK[j] = nondet_i32(); KEYDOM(EK[j]); FIRE[j] = nondet_i32(); __CPROVER_assume(FIRE[j] >= 0 && FIRE[j] <= 2 * ENV + 3);
    if (j == 0) { EK0 = EK[j]; FIRE0 = FIRE[j]; } else { EK1 = EK[j]; FIRE1 = FIRE[j]; }
    EN[j] = k_node(100 + j); k_set_key(EN[j], EK[j]); }
#if ENV >= 2
  __CPROVER_assume(FIRE[0] <= FIRE[1]);
#endif
  int32_t key = nondet_i32(); KEYDOM(key); KEY = key; OPKEY = key;
  int present0 = ghost_has(key);
  NODE* N = k_node(77);
  uint64_t size0 = k_size();
  uint32_t out[3];
  in_op = 1;
  VT* r = k_get(N, key, out);
  in_op = 0;
  int inserted = out[0];
  /* the final table, bucket by bucket */
  for (int b = 0; b < NB; b++) { NODE* p = k_head(b); int n = 0; for (int i = 0; i <= MAXN; i++) { if (!p) break; VERIF_ASSERT(i < MAXN, "bucket list acyclic and bounded"); L[b][n++] = p; p = k_next(p); } LN[b] = n; }
  int cnt_key = 0, cnt_N = 0, total = 0; NODE* holder = 0;
  for (int b = 0; b < NB; b++) { total += LN[b]; for (int i = 0; i < MAXN; i++) if (i < LN[b]) {
    VERIF_ASSERT(bucket_of((int32_t)k_key(L[b][i])) == b, "every node sits in the bucket of its key");
    if ((int32_t)k_key(L[b][i]) == key) { cnt_key++; holder = L[b][i]; }
    if (L[b][i] == N) cnt_N++; } }
  VERIF_ASSERT(cnt_key == 1, "the key is in the table exactly once");
  VERIF_ASSERT((int32_t)out[1] == key && holder != 0 && r == k_valueptr(holder), "the returned value is the table's entry for the key");
  for (int g = 0; g < MAXN; g++) if (g < ng) { int c = 0; int b = bucket_of(GK[g]); for (int i = 0; i < MAXN; i++) if (i < LN[b] && L[b][i] == G[g]) c++;
    VERIF_ASSERT(c == 1 && (int32_t)k_key(G[g]) == GK[g], "no node is lost, duplicated or altered"); }
  VERIF_ASSERT(total == ng + (inserted ? 1 : 0), "the table holds exactly the initial nodes, the environment's nodes and the inserted node");
  if (inserted) VERIF_ASSERT(holder == N && cnt_N == 1 && out[2] == 77, "inserted => the new node is the entry");
  else VERIF_ASSERT(holder != N && cnt_N == 0 && k_next(N) == 0, "not inserted => the new node is not linked and another node is the entry");
  if (present0) VERIF_ASSERT(!inserted, "an equal key already present is found and not re-inserted");
  if (!present0 && env_taken == 0) VERIF_ASSERT(inserted, "a fresh key is inserted when nobody interferes");
  VERIF_ASSERT(k_size() == size0 + env_taken + (inserted ? 1 : 0), "Size counts the insertions");
#ifdef WITNESS
  __CPROVER_assert(!(env_taken == ENV && (ENV == 0 || inserted)), "witness");
#endif
#ifdef VERIF_NATIVE
  printf("replay finished without assertion failure: inserted=%d env_taken=%d\n", inserted, env_taken);
#endif
  return 0;
}
'''

# differential driver: sequential histories through the real API, printed state after each step
DRIVER = r'''
#include <stdio.h>
#include <stdint.h>
#include <stdlib.h>
typedef struct NODE_ NODE;
void k_init(uint32_t); NODE* k_node(uint32_t); void* k_get(NODE*, uint32_t, uint32_t*); uint32_t k_weakfind(uint32_t); NODE* k_head(uint32_t);
NODE* k_next(NODE*); uint32_t k_key(NODE*); uint32_t k_val(NODE*); void* k_valueptr(NODE*); uint64_t k_size(void);
__attribute__((weak)) void* _Znwm(uint64_t n) { return calloc(1, n); }
__attribute__((weak)) void* _Znam(uint64_t n) { return calloc(1, n); }
__attribute__((weak)) void _ZdlPv(void* p) { }
__attribute__((weak)) void _ZdaPv(void* p) { }
__attribute__((weak)) uint8_t TRYGROW(void* m, uint64_t h) { printf("tryGrow reached\n"); exit(5); }
int main(void) {
  unsigned s = 2463534242u;
  for (int nb = 1; nb <= 2; nb++) for (int h = 0; h < 60; h++) {
    k_init(nb);
    for (int i = 0; i < 12; i++) {
      s = s * 1103515245u + 12345u; uint32_t key = (s >> 16) % 7; if ((s >> 28) == 0) key = 0x80000000u + key;
      uint32_t out[3]; NODE* n = k_node(1000 * h + i); void* r = k_get(n, key, out);
      printf("nb%d h%d get %u -> ins %u key %u val %u same %d find %d size %lu |", nb, h, key, out[0], out[1], out[2], r == k_valueptr(n), (int)k_weakfind(key), (unsigned long)k_size());
      for (int b = 0; b < nb; b++) { printf(" ["); for (NODE* p = k_head(b); p; p = k_next(p)) printf(" %u:%u", k_key(p), k_val(p)); printf(" ]"); }
      printf(" miss %d\n", (int)k_weakfind(99));
    }
  }
  return 0;
}
'''


def _prepare(work):
    cpp = os.path.join(work, "hm.cpp")
    open(cpp, "w").write(WRAPPER)
    ll = K.lower(cpp, os.path.join(work, "hm.ll"), extra=["-fno-exceptions"])
    t = open(ll).read()
    # growth is outside the claim: cut the body of tryGrow out of the IR (it stays declared; the harness asserts it is never reached)
    m = re.search(r"^define [^\n]*@(_ZN7souffle27ConcurrentInsertOnlyHashMap\w+7tryGrowEm)\(([^\n]*)\)[^\n]*\{\n.*?^\}\n", t, re.M | re.S)
    if not m:
        raise EngineError("tryGrow not found in the lowered IR (get() no longer calls it?)")
    trygrow = m.group(1)
    hdr = t[m.start():t.index("\n", m.start())]
    decl = re.sub(r"^define (?:linkonce_odr |dso_local |internal |weak_odr )*", "declare ", hdr)
    decl = re.sub(r"\)[^()]*\{$", ")", decl)
    decl = re.sub(r" %\d+(?=[,)])", "", decl)
    t = t[:m.start()] + decl + "\n" + t[m.end():]
    if not re.search(r"call [^\n]*@%s\(" % re.escape(trygrow), t):
        raise EngineError("get() does not call tryGrow in the lowered IR; slice out of date")
    open(ll, "w").write(t)
    c24.strip_personality(ll)
    plain = K.translate(ll, os.path.join(work, "hm.c"))
    ysrc_path = K.translate(ll, os.path.join(work, "hm_y.c"), yield_mode=True)
    ysrc = open(ysrc_path).read()
    # bucket heads are std::atomic<BucketList*>, accessed by the atomics as 64-bit integers: give the slot that type in the C model
    # (same size and representation; avoids byte-level type punning in the solver)
    ysrc, n = re.subn(r"^(struct S__struct_std____atomic_base_\w*_ \{ )struct S__\w*BucketList_\*( f0; \};)$", r"\1uint64_t\2", ysrc, flags=re.M)
    if n != 1:
        raise EngineError("atomic bucket-head struct not recognised in the translated C (%d matches)" % n)
    m = re.search(r"^(struct S__struct_std__pair_\w*)\* k_get\((struct S__\w*BucketList_)\* v_0, [^)]*\) \{\n.*?^\}\n", ysrc, re.M | re.S)
    if not m:
        raise EngineError("k_get not found in the translated C")
    vt_t, node_t = m.group(1), m.group(2)
    cnt = [0]

    def num(mm):
        cnt[0] += 1
        return "VERIF_YIELD_AT(%d);" % (cnt[0] - 1)
    body = re.sub(r"VERIF_YIELD\(\);", num, m.group(0))
    sites = re.findall(r"VERIF_YIELD_AT\((\d)\); ([^;\n]*)", body)
    kinds = ["LOAD" if "ATOMIC_LOAD" in s else "CMPXCHG" if "CMPXCHG" in s else "RMW" if "RMW_add" in s else "?" for _, s in sites]
    if kinds != ["LOAD", "CMPXCHG", "RMW"]:
        raise EngineError("atomic steps of get() are not [bucket-head load, compare-exchange, ++Size] in the translated C: %s" % kinds)
    ysrc = ysrc[:m.start()] + body + ysrc[m.end():]
    ysrc = ysrc.replace("VERIF_YIELD();", "")
    mg = re.search(r"^uint8_t %s\(([^)]*)\);" % re.escape(trygrow), ysrc, re.M)
    if not mg:
        raise EngineError("declaration of tryGrow not found in the translated C")
    args = ", ".join("%s a%d" % (a.strip(), i) for i, a in enumerate(mg.group(1).split(",")))
    ysrc = "#define NODE_T %s\n#define VT_T %s\n#define TRYGROW %s\n#define TRYGROW_ARGS %s\n" % (node_t, vt_t, trygrow, args) + ysrc
    open(ysrc_path, "w").write(ysrc)
    drv = os.path.join(work, "drv31.c")
    open(drv, "w").write(DRIVER.replace("TRYGROW", trygrow))
    nlines = K.differential(work, drv, plain, cpp, extra_cxx=["-fno-exceptions"], extra_c=["-D__dso_handle=verif_dso_handle"])
    # the yield translation with the integer-typed bucket slots is what CBMC and the native replays see: validate it as well
    yw = os.path.join(work, "hm_y_plain.c")
    open(yw, "w").write('#define VERIF_YIELD_AT(k)\n#include "hm_y.c"\n')
    nlines += K.differential(work, drv, yw, cpp, extra_cxx=["-fno-exceptions"], extra_c=["-D__dso_handle=verif_dso_handle"])
    h = os.path.join(work, "h31.c")
    open(h, "w").write(HARNESS)
    # loop ids of get(): first = search loop, last = retry loop (the middle one is the do{}while(0) of the compare-exchange macro)
    rc, out, err = sh(["cbmc", h, "-I", K.HERE, "-I", work, "-D", "PRE=1", "-D", "ENV=1", "-D", "NB=1", "-D", "KEYMAX=0", "--show-loops", "--drop-unused-functions"],
                      timeout=300)
    loops = re.findall(r"^Loop (k_get\.\d+):", out, re.M)
    if len(loops) != 3:
        raise EngineError("expected 3 loops in the translated get() (search, compare-exchange macro, retry), found %s" % loops)
    return {"h": h, "cpp": cpp, "nlines": nlines, "loops": loops, "trygrow": trygrow, "sites": kinds}


def _configs(tier):
    """(PRE, ENV, NB, KEYMAX): KEYMAX = 0 means all 32-bit keys"""
    cfgs = []
    if tier == "quick":
        cfgs = [(3, 0, 1, 16), (2, 2, 1, 16), (0, 1, 1, 16), (3, 0, 2, 16), (2, 1, 2, 16), (1, 2, 2, 16), (2, 0, 1, 0), (1, 1, 1, 0)]
    else:
        for nb in (1, 2):
            for pre in (0, 1, 2, 3):
                for env in (0, 1, 2):
                    cfgs.append((pre, env, nb, 16))
            cfgs += [(3, 0, nb, 0), (2, 1, nb, 0), (3, 1, nb, 0), (2, 2, nb, 0), (3, 2, nb, 0)]
    return cfgs


def _obligation(p, cfg, tier):
    pre, env, nb, keymax = cfg
    name = "get/pre=%d/env=%d/buckets=%d/keys=%s" % (pre, env, nb, "0..%d" % (keymax - 1) if keymax else "int32")
    maxn = pre + env + 1
    us = {p["loops"][0]: maxn + 1, p["loops"][1]: 2, p["loops"][2]: env + 2}
    extra = ["--pointer-check", "--bounds-check"]
    if not keymax:
        extra += ["--sat-solver", "cadical"]      # measured: minisat gives no verdict in 420 s on 32-bit keys with env = 1, cadical 68 s
    return K.Obligation(name, [p["h"]], defines=["PRE=%d" % pre, "ENV=%d" % env, "NB=%d" % nb, "KEYMAX=%d" % keymax], unwind=maxn + 2, unwindset=us,
                        timeout=120 if tier == "quick" else 900, extra=extra, includes=[os.path.dirname(p["h"])],
                        meta={"initial_nodes": pre, "environment_insertions": env, "buckets": nb, "key_domain": "0..%d" % (keymax - 1) if keymax else "all int32",
                              "sat_solver": "cadical" if not keymax else "minisat", "_cfg": cfg})


def _int(r, nm):
    v = r.trace_values([nm]).get(nm)
    if not v:
        return None
    if v[1]:
        u = int(v[1].replace(" ", ""), 2)
        return u - (1 << 32) if u >= (1 << 31) else u
    try:
        return int(v[0].rstrip("uUlL"))
    except ValueError:
        return None


def _replay(work, p, o):
    """native replay: ENV = 0 on the g++ build of the real wrapper; ENV > 0 on the natively compiled IR-derived C with the
    environment steps forced at the yield points of the counterexample"""
    pre, env, nb, keymax = o.meta["_cfg"]
    vals = []
    for i in range(pre):
        vals.append(_int(o.res, "PK%d" % i))
    for j in range(env):
        vals.append(_int(o.res, "EK%d" % j))
        vals.append(_int(o.res, "FIRE%d" % j))
    vals.append(_int(o.res, "KEY"))
    if any(v is None for v in vals):
        return None, "inputs could not be read from the trace", vals, ""
    defs = ["-DPRE=%d" % pre, "-DENV=%d" % env, "-DNB=%d" % nb, "-DKEYMAX=%d" % keymax, "-DVERIF_NATIVE"]
    tag = "%d_%d_%d_%d" % (pre, env, nb, keymax)
    if env == 0:
        ob = os.path.join(work, "rp_%s.o" % tag)
        exe = os.path.join(work, "rp_%s" % tag)
        rc, out, err = sh(["gcc", "-O0", "-w", "-c"] + defs + ["-DVERIF_REAL", "-I", K.HERE, "-I", work, p["h"], "-o", ob], timeout=120)
        if rc == 0:
            rc, out, err = sh(["g++", "-std=c++17", "-O1", "-w", "-fno-exceptions", "-I", os.path.join(common.REPO, "src", "include"), "-I", os.path.join(common.REPO, "src"),
                               ob, p["cpp"], "-o", exe], timeout=300)
        how = "g++ build of the real wrapper TU"
        cmd = ("gcc -O0 -w -c %s -DVERIF_REAL -I /verif/engine_k -I . h31.c -o h.o && g++ -std=c++17 -O1 -w -fno-exceptions -I %s/src/include -I %s/src h.o hm.cpp -o replay"
               % (" ".join(defs), common.REPO, common.REPO))
    else:
        exe = os.path.join(work, "rp_%s" % tag)
        rc, out, err = sh(["gcc", "-O0", "-w", "-D__dso_handle=verif_dso_handle"] + defs + ["-I", K.HERE, "-I", work, p["h"], "-o", exe], timeout=120)
        how = "natively compiled IR-derived C, environment steps forced at the recorded yield points"
        cmd = "gcc -O0 -w -D__dso_handle=verif_dso_handle %s -I /verif/engine_k -I . h31.c -o replay" % " ".join(defs)
    if rc != 0:
        return None, "native replay build failed: " + err[-400:], vals, cmd
    rc, out, err = sh([exe] + [str(v) for v in vals], timeout=20)
    return (rc == 3 and "ASSERTION-FAILED" in out), "%s: rc=%d %s" % (how, rc, out.strip()[-300:]), vals, cmd + " && ./replay " + " ".join(str(v) for v in vals)


def run(tier, seed, only=None):
    t0 = time.time()
    res = common.Result(PID, "other")
    work = common.scratch_dir("c31")
    try:
        p = _prepare(work)
        obls = [_obligation(p, c, tier) for c in _configs(tier)]
        if only:
            obls = [o for o in obls if only in o.name]
        K.run_all(obls, jobs=6)
        dropped = []
        for o in obls:
            pre, env, nb, keymax = o.meta["_cfg"]
            if o.verdict == "violated":
                failed = "; ".join(sorted(set(d for n, d in o.res.failed)))
                ok, info, vals, cmd = _replay(work, p, o)
                labels = ["initial key %d" % i for i in range(pre)] + [x for j in range(env) for x in ("environment key %d" % j, "yield point of environment step %d" % j)] + ["get key"]
                desc = ", ".join("%s=%s" % lv for lv in zip(labels, vals))
                if ok:
                    d = K.save_replay(PID, re.sub(r"[^A-Za-z0-9_.-]", "_", o.name), {
                        "h31.c": open(p["h"]).read(), "hm_y.c": open(os.path.join(work, "hm_y.c")).read(), "hm.cpp": WRAPPER, "trace.txt": o.res.out[-30000:],
                        "README": "%s\nfailed: %s\ninputs: %s\nreproduced: %s\nrebuild: %s\n" % (o.name, failed, desc, info, cmd)})
                    first = sorted(set(d_ for n, d_ in o.res.failed))[0]
                    res.violation("get:%s" % re.sub(r"[^A-Za-z0-9]+", "-", first)[:60],
                                  "ConcurrentInsertOnlyHashMap::get: %s [%s; %s]" % (failed, o.name, desc), d)
                else:
                    res.inconc("counterexample for %s (%s; %s) did not reproduce natively: %s" % (o.name, failed, desc, info))
            elif o.verdict != "holds":
                res.inconc("%s: %s" % (o.name, o.why))
                dropped.append({"obligation": o.name, "reason": o.why[:200]})
        held = [o for o in obls if o.verdict == "holds"]
        for o in obls:
            o.meta.pop("_cfg", None)
        nprops = sum(o.res.n_props for o in obls if o.res)
        res.coverage = {
            "explanation": "ConcurrentInsertOnlyHashMap<SeqConcurrentLanes,int,int,identity hash>::get decided by CBMC on the IR-derived C: one query per "
                           "(initial nodes, environment insertions, buckets, key domain); inside a query the keys, the initial table and the positions "
                           "(yield points before each atomic step of get) of the environment's insertions are universally quantified. "
                           "env=0 is the sequential claim (a), env=1,2 the bounded-interference claim (b).",
            "obligations": len(obls), "discharged": len(held),
            "properties_decided": nprops,
            "exhaustive": False,
            "functions_encoded": ["souffle::ConcurrentInsertOnlyHashMap<SeqConcurrentLanes,int,int,IdHash>::get", "::node", "::weakFind (translation validation only)",
                                  "souffle::SeqConcurrentLanes::lock/unlock", "souffle::details::Factory<int>::replace"],
            "atomic_steps_of_get": p["sites"],
            "source": {HDR: common.file_sha(common.repo_file(HDR)), PAR: common.file_sha(common.repo_file(PAR))},
            "bounds": {"initial nodes": "0..3 (%s; every table state with that many nodes: distinct symbolic keys)" % ("all counts x all interference levels" if tier == "thorough" else "quick: the combinations listed in samples"),
                       "environment insertions": "<= 2, before any atomic step",
                       "buckets": "1 and 2", "keys": "0..15 (every equality / bucket pattern of <= 6 keys) and, where listed, all 32-bit keys",
                       "lanes": "the operation's lane; other lanes only through their insertions", "memory_model": "SC"},
            "queries": sum((1 if o.res else 0) + (1 if o.wres else 0) for o in obls),
            "solver_time_s": round(sum((o.res.time if o.res else 0) + (o.wres.time if o.wres else 0) for o in obls), 1),
            "translation_validation_lines": p["nlines"],
            "checker_cmd": obls[0].res.cmd if obls and obls[0].res else "",
            "samples": [o.sample() for o in obls],
            "dropped_from_the_claim": dropped,
            "outside": [
                "two (or more) native CBMC threads each running get(): CBMC's concurrency mode rejects dereferences of pointers read from shared memory "
                "(bucket heads, Next links); replaced by the environment-insertion model above, which is exact for what another lane's get() does to shared memory under SC",
                "growth: tryGrow (lock-all, rehash) is cut out of the IR and asserted unreachable (MaxSizeBeforeGrow = 1000); iteration across growth",
                "the constructor (ToPrime table, >= 13 buckets): the table is set up with 1 or 2 buckets by the harness",
                "ConcurrentFlyweight::findOrInsert slot reservation / tryGrow, Iterator; SymbolTableImpl / RecordTableImpl (std::string keys, per-arity record maps, nil record)",
                "MutexConcurrentLanes (std::mutex): same-lane exclusion is not modelled, every lane is its own lane",
                "weak memory (acquire/release/relaxed orderings)"],
        }
        res.assumptions = [
            "sequentially consistent memory",
            "another lane's get() affects shared memory only by one atomic push of a node whose key is not in the table at that moment, followed by ++Size "
            "(this is what (b) proves for the operation itself: rely = guarantee)",
            "private access lifted by `#define private public` in the wrapper TU only; table set up by the harness instead of the constructor; operator new -> typed static pool",
            "bucket-head slots are modelled as 64-bit integers in the C model (the atomics access them as such)",
            "translation clang IR -> C validated differentially on %d output lines of sequential histories" % p["nlines"],
        ]
        if obls and len(dropped) == len(obls):
            raise EngineError("C31: no obligation could be brought to a verdict: " + "; ".join(d["reason"] for d in dropped[:3]))
    finally:
        common.rm_rf(work)
    return res

"""C31 — symbol / record interning, kernel only (engine K): ConcurrentInsertOnlyHashMap::get under bounded interference.

Real code: souffle::ConcurrentInsertOnlyHashMap<SeqConcurrentLanes, int, int, identity hash>::get / node / weakFind
(src/include/souffle/datastructure/ConcurrentInsertOnlyHashMap.h, included; SeqConcurrentLanes from ParallelUtil.h),
lowered with clang, translated to C (ir2c --yield: a hook before each atomic access of get), decided by CBMC.

 (a) sequential: from every table state with <= 3 nodes (1 or 2 buckets, symbolic distinct keys) one get(key): an equal key
     is found and not re-inserted, a fresh key is inserted exactly once at the head of its bucket, the returned value maps
     to the key, no node is lost, Size counts the insertion;
 (b) bounded interference: the same with <= 2 environment insertions (what another lane's complete get does to shared
     memory: CAS-style push of a node + ++Size) of other keys or of the SAME key, injected before any of the operation's
     atomic steps (bucket-head load, every compare-exchange, ++Size), in every order and position the solver can choose:
     the key ends up in the table exactly once, the operation returns the entry that is in the table (its own node iff
     it reports `inserted`, the environment's otherwise), nothing is lost, every node sits in the bucket of its key.
     The environment inserts a key only if it is not in the table at that moment: that is exactly the guarantee (b)
     proves for the operation itself, so the argument is rely/guarantee-closed for any number of lanes doing get().

Two CBMC native threads each running get() were tried and are NOT usable: CBMC stops with "pointer handling for concurrency
is unsound" (bucket heads and Next links are pointers read from shared memory); see coverage["outside"].
 (c) ConcurrentFlyweight<SeqConcurrentLanes,int>::findOrInsert, sequential, from a symbolic table / lane state (slot reservation).
 (d) findOrInsert + fetch with a second lane: lane B's complete findOrInsert(kB) + fetch(index) is one environment step placed before
     a chosen shared access of lane A's findOrInsert(kA) (every atomic access and every plain load/store through a pointer in
     findOrInsert and the inlined get is a site; the site and the lanes' reservation state are enumerated outside the query, the
     keys are symbolic): an index another lane can learn is fetchable at once and yields the key, both lanes agree on the index of
     equal keys, the losing lane leaves no slot dangling or overwritten, reservations stay disjoint.
Outside: growth under lock-all (tryGrow is cut out and asserted unreachable), iteration across growth, the constructor,
ConcurrentFlyweight (slot reservation), SymbolTableImpl / RecordTableImpl (std::string, per-arity maps), weak memory."""
import os
import re
import time

from vlib import common
from vlib.common import EngineError, log, sh
from . import kcommon as K
from . import c24

PID = "C31"
HDR = "src/include/souffle/datastructure/ConcurrentInsertOnlyHashMap.h"
PAR = "src/include/souffle/utility/ParallelUtil.h"

WRAPPER = r'''
#include <array>
#include <atomic>
#include <cassert>
#include <cmath>
#include <cstdint>
#include <cstring>
#include <limits>
#include <memory>
#include <mutex>
#include <new>
#include <vector>
#include "souffle/utility/ParallelUtil.h"
/* the kernel's private state is set up and inspected by the harness: access control is lifted for this TU only */
#define private public
#define protected public
#include "souffle/datastructure/ConcurrentInsertOnlyHashMap.h"
#undef private
#undef protected
using namespace souffle;
struct IdHash { std::size_t operator()(int k) const { return (std::size_t)(unsigned)k; } };
using Map = ConcurrentInsertOnlyHashMap<SeqConcurrentLanes, int, int, IdHash>;
using BL = Map::BucketList;
using VT = Map::value_type;
/* the constructor is outside the claim (it needs the ToPrime table and allocates >= 13 buckets): the object lives in a union
   whose constructor does not construct it; k_init sets the fields (1 or 2 buckets, no growth) */
union Holder { Map m; Holder() {} ~Holder() {} };
static Holder HOLD;
static std::atomic<BL*> BUCKETS[2];
static Map* M() { return &HOLD.m; }
static std::uintptr_t& slot(int b) { return *reinterpret_cast<std::uintptr_t*>(&BUCKETS[b]); }
extern "C" {
__attribute__((noinline)) void k_init(int nb) {
    Map* m = M();
    new (&m->Lanes) SeqConcurrentLanes(1);
    m->BucketCount = (std::size_t)nb;
    new (&m->Buckets) std::unique_ptr<std::atomic<BL*>[]>(BUCKETS);
    slot(0) = 0; slot(1) = 0;
    *reinterpret_cast<std::size_t*>(&m->Size) = 0;
    m->MaxSizeBeforeGrow = 1000;
    m->LoadFactor = 1.0;
}
__attribute__((noinline)) BL* k_node(int v) { return static_cast<BL*>(M()->node(v)); }
/* out: [0] inserted, [1] value->first, [2] value->second; returns the value pointer */
__attribute__((noinline)) const VT* k_get(BL* node, int key, int* out) {
    auto r = M()->get(0, static_cast<Map::node_type>(node), key);
    out[0] = r.second ? 1 : 0; out[1] = r.first->first; out[2] = r.first->second;
    return r.first;
}
__attribute__((noinline)) int k_weakfind(int key) { auto p = M()->weakFind(0, key); return p ? p->second : -1; }
/* plain accessors for the harness (state set-up, environment steps, inspection) */
__attribute__((noinline)) BL* k_head(int b) { return reinterpret_cast<BL*>(slot(b)); }
__attribute__((noinline)) void k_set_head(int b, BL* n) { slot(b) = reinterpret_cast<std::uintptr_t>(n); }
__attribute__((noinline)) BL* k_next(BL* n) { return n->Next; }
__attribute__((noinline)) void k_set_next(BL* n, BL* x) { n->Next = x; }
__attribute__((noinline)) int k_key(BL* n) { return n->Value.first; }
__attribute__((noinline)) void k_set_key(BL* n, int k) { const_cast<int&>(n->Value.first) = k; }
__attribute__((noinline)) int k_val(BL* n) { return n->Value.second; }
__attribute__((noinline)) const VT* k_valueptr(BL* n) { return &n->Value; }
__attribute__((noinline)) unsigned long k_size(void) { return *reinterpret_cast<std::size_t*>(&M()->Size); }
__attribute__((noinline)) void k_set_size(unsigned long s) { *reinterpret_cast<std::size_t*>(&M()->Size) = s; }
}
'''

# One source for three builds:
#   CBMC                         : includes the IR-derived C (yield translation), nondeterministic inputs
#   native, -DVERIF_NATIVE       : IR-derived C, inputs and environment schedule from argv  (replay with interference)
#   native, -DVERIF_NATIVE -DVERIF_REAL : linked against the g++ build of the real wrapper TU (replay, ENV = 0 only)
HARNESS = r'''
#include "verif_rt.h"
#define MAXN (PRE + ENV + 1)
#ifdef VERIF_REAL
typedef struct NODE_ NODE; typedef struct VT_ VT;
void k_init(uint32_t); NODE* k_node(uint32_t); VT* k_get(NODE*, uint32_t, uint32_t*); NODE* k_head(uint32_t); void k_set_head(uint32_t, NODE*);
NODE* k_next(NODE*); void k_set_next(NODE*, NODE*); uint32_t k_key(NODE*); void k_set_key(NODE*, uint32_t); VT* k_valueptr(NODE*);
uint64_t k_size(void); void k_set_size(uint64_t);
#else
static void env_point(int site);
#define VERIF_YIELD_AT(k) env_point(k)
#include "hm_y.c"
typedef NODE_T NODE; typedef VT_T VT;
/* operator new -> small typed static pool; bounds checks stay on */
NODE POOL[MAXN]; int pool_used = 0;
uint8_t* _Znwm(uint64_t n) { VERIF_ASSERT(n == sizeof(NODE), "only bucket nodes are allocated"); VERIF_ASSERT(pool_used < MAXN, "pool large enough"); return (uint8_t*)&POOL[pool_used++]; }
uint8_t* _Znam(uint64_t n) { VERIF_ASSERT(0, "operator new[] (growth) is outside the claim and must not be reached"); __CPROVER_assume(0); return 0; }
void _ZdlPv(uint8_t* p) { VERIF_ASSERT(0, "nothing is freed"); }
void _ZdaPv(uint8_t* p) { VERIF_ASSERT(0, "nothing is freed"); }
uint8_t TRYGROW(TRYGROW_ARGS) { VERIF_ASSERT(0, "growth is outside the claim and must not be reached"); __CPROVER_assume(0); return 0; }
#endif
#ifdef VERIF_NATIVE
static int ai = 1, ac; static char** av;
static int32_t nondet_i32(void) { if (ai >= ac) { printf("not enough inputs\n"); exit(2); } return (int32_t)strtoll(av[ai++], 0, 0); }
#else
int32_t nondet_i32(void);
#endif
/* inputs, one variable each so that they can be read from the trace */
int32_t PK0, PK1, PK2, EK0, EK1, KEY, FIRE0, FIRE1;
/* ghost: the nodes that must be in the table, with their keys: PRE initial nodes, then the environment's */
NODE* G[MAXN]; int32_t GK[MAXN]; int ng = 0;
NODE* EN[ENV + 1]; int32_t EK[ENV + 1]; int32_t FIRE[ENV + 1];
int env_taken = 0; int in_op = 0; int ycount = 0; int32_t OPKEY;
static int bucket_of(int32_t k) { return (int)((uint32_t)k % NB); }
static void link_front(NODE* n, int32_t k) { int b = bucket_of(k); k_set_next(n, k_head(b)); k_set_head(b, n); k_set_size(k_size() + 1); G[ng] = n; GK[ng] = k; ng++; }
static int ghost_has(int32_t k) { int r = 0; for (int i = 0; i < MAXN; i++) if (i < ng && GK[i] == k) r = 1; return r; }
#ifndef VERIF_REAL
/* environment: before an atomic step of the operation another lane completes an insertion (CAS push + ++Size) of a key that is
   not in the table at that moment -- possibly the key the operation is working on.  Site 2 is the ++Size that follows the
   operation's successful compare-exchange: from there on the operation's key is in the table.  FIRE[j] = number of the yield
   point (in execution order) at which environment step j happens; chosen freely by the solver. */
static void env_point(int site) {
  if (!in_op) return;
#if ENV >= 1
  if (env_taken == 0 && ycount == FIRE[0]) { __CPROVER_assume(!ghost_has(EK[0]) && !(site == 2 && EK[0] == OPKEY)); link_front(EN[0], EK[0]); env_taken = 1; }
#endif
#if ENV >= 2
  if (env_taken == 1 && ycount == FIRE[1]) { __CPROVER_assume(!ghost_has(EK[1]) && !(site == 2 && EK[1] == OPKEY)); link_front(EN[1], EK[1]); env_taken = 2; }
#endif
  ycount++;
}
#endif
#define KEYDOM(k) __CPROVER_assume(KEYMAX == 0 || ((k) >= 0 && (k) < KEYMAX))
NODE* L[NB][MAXN + 1]; int LN[NB];
#ifdef VERIF_NATIVE
int main(int argc, char** argv) {
  ac = argc; av = argv;
#else
int main(void) {
#endif
  k_init(NB);
  for (int i = 0; i < PRE; i++) {
    int32_t k = nondet_i32(); KEYDOM(k); __CPROVER_assume(!ghost_has(k));
    if (i == 0) PK0 = k; else if (i == 1) PK1 = k; else PK2 = k;
    NODE* n = k_node(10 + i); k_set_key(n, k); link_front(n, k); }
  for (int j = 0; j < ENV; j++) {
    EK[j] = nondet_i32(); KEYDOM(EK[j]); FIRE[j] = nondet_i32(); __CPROVER_assume(FIRE[j] >= 0 && FIRE[j] <= 2 * ENV + 3);
    if (j == 0) { EK0 = EK[j]; FIRE0 = FIRE[j]; } else { EK1 = EK[j]; FIRE1 = FIRE[j]; }
    EN[j] = k_node(100 + j); k_set_key(EN[j], EK[j]); }
#if ENV >= 2
  __CPROVER_assume(FIRE[0] <= FIRE[1]);
#endif
  int32_t key = nondet_i32(); KEYDOM(key); KEY = key; OPKEY = key;
  int present0 = ghost_has(key);
  NODE* N = k_node(77);
  uint64_t size0 = k_size();
  uint32_t out[3];
  in_op = 1;
  VT* r = k_get(N, key, out);
  in_op = 0;
  int inserted = out[0];
  /* the final table, bucket by bucket */
  for (int b = 0; b < NB; b++) { NODE* p = k_head(b); int n = 0; for (int i = 0; i <= MAXN; i++) { if (!p) break; VERIF_ASSERT(i < MAXN, "bucket list acyclic and bounded"); L[b][n++] = p; p = k_next(p); } LN[b] = n; }
  int cnt_key = 0, cnt_N = 0, total = 0; NODE* holder = 0;
  for (int b = 0; b < NB; b++) { total += LN[b]; for (int i = 0; i < MAXN; i++) if (i < LN[b]) {
    VERIF_ASSERT(bucket_of((int32_t)k_key(L[b][i])) == b, "every node sits in the bucket of its key");
    if ((int32_t)k_key(L[b][i]) == key) { cnt_key++; holder = L[b][i]; }
    if (L[b][i] == N) cnt_N++; } }
  VERIF_ASSERT(cnt_key == 1, "the key is in the table exactly once");
  VERIF_ASSERT((int32_t)out[1] == key && holder != 0 && r == k_valueptr(holder), "the returned value is the table's entry for the key");
  for (int g = 0; g < MAXN; g++) if (g < ng) { int c = 0; int b = bucket_of(GK[g]); for (int i = 0; i < MAXN; i++) if (i < LN[b] && L[b][i] == G[g]) c++;
    VERIF_ASSERT(c == 1 && (int32_t)k_key(G[g]) == GK[g], "no node is lost, duplicated or altered"); }
  VERIF_ASSERT(total == ng + (inserted ? 1 : 0), "the table holds exactly the initial nodes, the environment's nodes and the inserted node");
  if (inserted) VERIF_ASSERT(holder == N && cnt_N == 1 && out[2] == 77, "inserted => the new node is the entry");
  else VERIF_ASSERT(holder != N && cnt_N == 0 && k_next(N) == 0, "not inserted => the new node is not linked and another node is the entry");
  if (present0) VERIF_ASSERT(!inserted, "an equal key already present is found and not re-inserted");
  if (!present0 && env_taken == 0) VERIF_ASSERT(inserted, "a fresh key is inserted when nobody interferes");
  VERIF_ASSERT(k_size() == size0 + env_taken + (inserted ? 1 : 0), "Size counts the insertions");
#ifdef WITNESS
  __CPROVER_assert(!(env_taken == ENV && (ENV == 0 || inserted)), "witness");
#endif
#ifdef VERIF_NATIVE
  printf("replay finished without assertion failure: inserted=%d env_taken=%d\n", inserted, env_taken);
#endif
  return 0;
}
'''

# differential driver: sequential histories through the real API, printed state after each step
DRIVER = r'''
#include <stdio.h>
#include <stdint.h>
#include <stdlib.h>
typedef struct NODE_ NODE;
void k_init(uint32_t); NODE* k_node(uint32_t); void* k_get(NODE*, uint32_t, uint32_t*); uint32_t k_weakfind(uint32_t); NODE* k_head(uint32_t);
NODE* k_next(NODE*); uint32_t k_key(NODE*); uint32_t k_val(NODE*); void* k_valueptr(NODE*); uint64_t k_size(void);
__attribute__((weak)) void* _Znwm(uint64_t n) { return calloc(1, n); }
__attribute__((weak)) void* _Znam(uint64_t n) { return calloc(1, n); }
__attribute__((weak)) void _ZdlPv(void* p) { }
__attribute__((weak)) void _ZdaPv(void* p) { }
__attribute__((weak)) uint8_t TRYGROW(void* m, uint64_t h) { printf("tryGrow reached\n"); exit(5); }
int main(void) {
  unsigned s = 2463534242u;
  for (int nb = 1; nb <= 2; nb++) for (int h = 0; h < 60; h++) {
    k_init(nb);
    for (int i = 0; i < 12; i++) {
      s = s * 1103515245u + 12345u; uint32_t key = (s >> 16) % 7; if ((s >> 28) == 0) key = 0x80000000u + key;
      uint32_t out[3]; NODE* n = k_node(1000 * h + i); void* r = k_get(n, key, out);
      printf("nb%d h%d get %u -> ins %u key %u val %u same %d find %d size %lu |", nb, h, key, out[0], out[1], out[2], r == k_valueptr(n), (int)k_weakfind(key), (unsigned long)k_size());
      for (int b = 0; b < nb; b++) { printf(" ["); for (NODE* p = k_head(b); p; p = k_next(p)) printf(" %u:%u", k_key(p), k_val(p)); printf(" ]"); }
      printf(" miss %d\n", (int)k_weakfind(99));
    }
  }
  return 0;
}
'''


def _prepare(work):
    cpp = os.path.join(work, "hm.cpp")
    open(cpp, "w").write(WRAPPER)
    ll = K.lower(cpp, os.path.join(work, "hm.ll"), extra=["-fno-exceptions"])
    t = open(ll).read()
    # growth is outside the claim: cut the body of tryGrow out of the IR (it stays declared; the harness asserts it is never reached)
    m = re.search(r"^define [^\n]*@(_ZN7souffle27ConcurrentInsertOnlyHashMap\w+7tryGrowEm)\(([^\n]*)\)[^\n]*\{\n.*?^\}\n", t, re.M | re.S)
    if not m:
        raise EngineError("tryGrow not found in the lowered IR (get() no longer calls it?)")
    trygrow = m.group(1)
    hdr = t[m.start():t.index("\n", m.start())]
    decl = re.sub(r"^define (?:linkonce_odr |dso_local |internal |weak_odr )*", "declare ", hdr)
    decl = re.sub(r"\)[^()]*\{$", ")", decl)
    decl = re.sub(r" %\d+(?=[,)])", "", decl)
    t = t[:m.start()] + decl + "\n" + t[m.end():]
    if not re.search(r"call [^\n]*@%s\(" % re.escape(trygrow), t):
        raise EngineError("get() does not call tryGrow in the lowered IR; slice out of date")
    open(ll, "w").write(t)
    c24.strip_personality(ll)
    plain = K.translate(ll, os.path.join(work, "hm.c"))
    ysrc_path = K.translate(ll, os.path.join(work, "hm_y.c"), yield_mode=True)
    ysrc = open(ysrc_path).read()
    # bucket heads are std::atomic<BucketList*>, accessed by the atomics as 64-bit integers: give the slot that type in the C model
    # (same size and representation; avoids byte-level type punning in the solver)
    ysrc, n = re.subn(r"^(struct S__struct_std____atomic_base_\w*_ \{ )struct S__\w*BucketList_\*( f0; \};)$", r"\1uint64_t\2", ysrc, flags=re.M)
    if n != 1:
        raise EngineError("atomic bucket-head struct not recognised in the translated C (%d matches)" % n)
    m = re.search(r"^(struct S__struct_std__pair_\w*)\* k_get\((struct S__\w*BucketList_)\* v_0, [^)]*\) \{\n.*?^\}\n", ysrc, re.M | re.S)
    if not m:
        raise EngineError("k_get not found in the translated C")
    vt_t, node_t = m.group(1), m.group(2)
    cnt = [0]

    def num(mm):
        cnt[0] += 1
        return "VERIF_YIELD_AT(%d);" % (cnt[0] - 1)
    body = re.sub(r"VERIF_YIELD\(\);", num, m.group(0))
    sites = re.findall(r"VERIF_YIELD_AT\((\d)\); ([^;\n]*)", body)
    kinds = ["LOAD" if "ATOMIC_LOAD" in s else "CMPXCHG" if "CMPXCHG" in s else "RMW" if "RMW_add" in s else "?" for _, s in sites]
    if kinds != ["LOAD", "CMPXCHG", "RMW"]:
        raise EngineError("atomic steps of get() are not [bucket-head load, compare-exchange, ++Size] in the translated C: %s" % kinds)
    ysrc = ysrc[:m.start()] + body + ysrc[m.end():]
    ysrc = ysrc.replace("VERIF_YIELD();", "")
    mg = re.search(r"^uint8_t %s\(([^)]*)\);" % re.escape(trygrow), ysrc, re.M)
    if not mg:
        raise EngineError("declaration of tryGrow not found in the translated C")
    args = ", ".join("%s a%d" % (a.strip(), i) for i, a in enumerate(mg.group(1).split(",")))
    ysrc = "#define NODE_T %s\n#define VT_T %s\n#define TRYGROW %s\n#define TRYGROW_ARGS %s\n" % (node_t, vt_t, trygrow, args) + ysrc
    open(ysrc_path, "w").write(ysrc)
    drv = os.path.join(work, "drv31.c")
    open(drv, "w").write(DRIVER.replace("TRYGROW", trygrow))
    nlines = K.differential(work, drv, plain, cpp, extra_cxx=["-fno-exceptions"], extra_c=["-D__dso_handle=verif_dso_handle"])
    # the yield translation with the integer-typed bucket slots is what CBMC and the native replays see: validate it as well
    yw = os.path.join(work, "hm_y_plain.c")
    open(yw, "w").write('#define VERIF_YIELD_AT(k)\n#include "hm_y.c"\n')
    nlines += K.differential(work, drv, yw, cpp, extra_cxx=["-fno-exceptions"], extra_c=["-D__dso_handle=verif_dso_handle"])
    h = os.path.join(work, "h31.c")
    open(h, "w").write(HARNESS)
    # loop ids of get(): first = search loop, last = retry loop (the middle one is the do{}while(0) of the compare-exchange macro)
    rc, out, err = sh(["cbmc", h, "-I", K.HERE, "-I", work, "-D", "PRE=1", "-D", "ENV=1", "-D", "NB=1", "-D", "KEYMAX=0", "--show-loops", "--drop-unused-functions"],
                      timeout=300)
    loops = re.findall(r"^Loop (k_get\.\d+):", out, re.M)
    if len(loops) != 3:
        raise EngineError("expected 3 loops in the translated get() (search, compare-exchange macro, retry), found %s" % loops)
    return {"h": h, "cpp": cpp, "nlines": nlines, "loops": loops, "trygrow": trygrow, "sites": kinds}


def _configs(tier):
    """(PRE, ENV, NB, KEYMAX): KEYMAX = 0 means all 32-bit keys"""
    cfgs = []
    if tier == "quick":
        cfgs = [(3, 0, 1, 16), (2, 2, 1, 16), (0, 1, 1, 16), (3, 0, 2, 16), (2, 1, 2, 16), (1, 2, 2, 16), (2, 0, 1, 0), (1, 1, 1, 0)]
    else:
        for nb in (1, 2):
            for pre in (0, 1, 2, 3):
                for env in (0, 1, 2):
                    cfgs.append((pre, env, nb, 16))
        cfgs += [(3, 0, 1, 0), (2, 1, 1, 0), (2, 2, 1, 0), (3, 2, 1, 0), (2, 1, 2, 0)]
    return cfgs


def _obligation(p, cfg, tier):
    pre, env, nb, keymax = cfg
    name = "get/pre=%d/env=%d/buckets=%d/keys=%s" % (pre, env, nb, "0..%d" % (keymax - 1) if keymax else "int32")
    maxn = pre + env + 1
    us = {p["loops"][0]: maxn + 1, p["loops"][1]: 2, p["loops"][2]: env + 2}
    extra = ["--pointer-check", "--bounds-check"]
    if not keymax:
        extra += ["--sat-solver", "cadical"]      # measured: minisat gives no verdict in 420 s on 32-bit keys with env = 1, cadical 68 s
    return K.Obligation(name, [p["h"]], defines=["PRE=%d" % pre, "ENV=%d" % env, "NB=%d" % nb, "KEYMAX=%d" % keymax], unwind=maxn + 2, unwindset=us,
                        timeout=120 if tier == "quick" else 900, extra=extra, includes=[os.path.dirname(p["h"])],
                        meta={"initial_nodes": pre, "environment_insertions": env, "buckets": nb, "key_domain": "0..%d" % (keymax - 1) if keymax else "all int32",
                              "sat_solver": "cadical" if not keymax else "minisat", "_cfg": cfg})


def _int(r, nm):
    v = r.trace_values([nm]).get(nm)
    if not v:
        return None
    if v[1]:
        u = int(v[1].replace(" ", ""), 2)
        return u - (1 << 32) if u >= (1 << 31) else u
    try:
        return int(v[0].rstrip("uUlL"))
    except ValueError:
        return None


def _replay(work, p, o):
    """native replay: ENV = 0 on the g++ build of the real wrapper; ENV > 0 on the natively compiled IR-derived C with the
    environment steps forced at the yield points of the counterexample"""
    pre, env, nb, keymax = o.meta["_cfg"]
    vals = []
    for i in range(pre):
        vals.append(_int(o.res, "PK%d" % i))
    for j in range(env):
        vals.append(_int(o.res, "EK%d" % j))
        vals.append(_int(o.res, "FIRE%d" % j))
    vals.append(_int(o.res, "KEY"))
    if any(v is None for v in vals):
        return None, "inputs could not be read from the trace", vals, ""
    defs = ["-DPRE=%d" % pre, "-DENV=%d" % env, "-DNB=%d" % nb, "-DKEYMAX=%d" % keymax, "-DVERIF_NATIVE"]
    tag = "%d_%d_%d_%d" % (pre, env, nb, keymax)
    if env == 0:
        ob = os.path.join(work, "rp_%s.o" % tag)
        exe = os.path.join(work, "rp_%s" % tag)
        rc, out, err = sh(["gcc", "-O0", "-w", "-c"] + defs + ["-DVERIF_REAL", "-I", K.HERE, "-I", work, p["h"], "-o", ob], timeout=120)
        if rc == 0:
            rc, out, err = sh(["g++", "-std=c++17", "-O1", "-w", "-fno-exceptions", "-I", os.path.join(common.REPO, "src", "include"), "-I", os.path.join(common.REPO, "src"),
                               ob, p["cpp"], "-o", exe], timeout=300)
        how = "g++ build of the real wrapper TU"
        cmd = ("gcc -O0 -w -c %s -DVERIF_REAL -I /verif/engine_k -I . h31.c -o h.o && g++ -std=c++17 -O1 -w -fno-exceptions -I %s/src/include -I %s/src h.o hm.cpp -o replay"
               % (" ".join(defs), common.REPO, common.REPO))
    else:
        exe = os.path.join(work, "rp_%s" % tag)
        rc, out, err = sh(["gcc", "-O0", "-w", "-D__dso_handle=verif_dso_handle"] + defs + ["-I", K.HERE, "-I", work, p["h"], "-o", exe], timeout=120)
        how = "natively compiled IR-derived C, environment steps forced at the recorded yield points"
        cmd = "gcc -O0 -w -D__dso_handle=verif_dso_handle %s -I /verif/engine_k -I . h31.c -o replay" % " ".join(defs)
    if rc != 0:
        return None, "native replay build failed: " + err[-400:], vals, cmd
    rc, out, err = sh([exe] + [str(v) for v in vals], timeout=20)
    return (rc == 3 and "ASSERTION-FAILED" in out), "%s: rc=%d %s" % (how, rc, out.strip()[-300:]), vals, cmd + " && ./replay " + " ".join(str(v) for v in vals)


# ------------------------------------------------------------------------------------------------------------------
# (c) ConcurrentFlyweight::findOrInsert, sequential, from a symbolic lane state
# ------------------------------------------------------------------------------------------------------------------
FW_HDR = "src/include/souffle/datastructure/ConcurrentFlyweight.h"
FW_WRAPPER = WRAPPER[:WRAPPER.index('#define private public')] + r"""#define private public
#define protected public
#include "souffle/datastructure/ConcurrentFlyweight.h"
#undef private
#undef protected
using namespace souffle;
struct IdHash { std::size_t operator()(int k) const { return (std::size_t)(unsigned)k; } };
using FW = ConcurrentFlyweight<SeqConcurrentLanes, int, IdHash>;
using Map = FW::map_type;
using BL = Map::BucketList;
using VT = FW::value_type;
/* constructors outside the claim: the object lives in a union, k_fw_init sets the fields (8 slots, 1 lane, 1-2 buckets, no growth) */
union Holder { FW f; Holder() {} ~Holder() {} };
static Holder HOLD;
static std::atomic<BL*> BUCKETS[2];
static FW::Handle HANDLES[1];
static const VT* SLOTS[8];
FW* g_fw = nullptr; /* set by k_fw_init; a non-constant base pointer keeps the address computations as instructions */
static FW* F() { return g_fw; }
static std::uintptr_t& slot(int b) { return *reinterpret_cast<std::uintptr_t*>(&BUCKETS[b]); }
extern "C" {
__attribute__((noinline)) void k_fw_init(int nb, unsigned long nextslot, unsigned long slotcount, int reserve_first) {
    g_fw = &HOLD.f; FW* f = g_fw;
    new (&f->Lanes) SeqConcurrentLanes(1);
    f->HandleCount = 1;
    new (&f->Handles) std::unique_ptr<FW::Handle[]>(HANDLES);
    new (&f->Slots) std::unique_ptr<const VT*[]>(SLOTS);
    Map* m = &f->Mapping;
    new (&m->Lanes) SeqConcurrentLanes(1);
    m->BucketCount = (std::size_t)nb;
    new (&m->Buckets) std::unique_ptr<std::atomic<BL*>[]>(BUCKETS);
    slot(0) = 0; slot(1) = 0;
    *reinterpret_cast<std::size_t*>(&m->Size) = 0;
    m->MaxSizeBeforeGrow = 1000; m->LoadFactor = 1.0;
    *reinterpret_cast<std::size_t*>(&f->NextSlot) = nextslot;
    *reinterpret_cast<std::size_t*>(&f->SlotCount) = slotcount;
    const_cast<bool&>(f->FirstSlotIsReserved) = reserve_first != 0;
    HANDLES[0].NextSlot = FW::NONE; HANDLES[0].NextNode = nullptr;
    for (int i = 0; i < 8; i++) SLOTS[i] = nullptr;
}
/* out: [0] index, [1] inserted */
__attribute__((noinline)) void k_fw_find_or_insert(int key, unsigned long* out) {
    auto r = F()->findOrInsert(0, key);
    out[0] = r.first; out[1] = r.second ? 1 : 0;
}
/* harness accessors: build the pre-state (entries, lane reservation) and inspect the post-state */
__attribute__((noinline)) BL* k_fw_mknode(unsigned long idx) { return static_cast<BL*>(F()->Mapping.node(idx)); }
__attribute__((noinline)) void k_fw_link(BL* n, int key) {
    Map* m = &F()->Mapping; const_cast<int&>(n->Value.first) = key;
    std::size_t b = (std::size_t)(unsigned)key % m->BucketCount;
    n->Next = reinterpret_cast<BL*>(slot((int)b)); slot((int)b) = reinterpret_cast<std::uintptr_t>(n);
    *reinterpret_cast<std::size_t*>(&m->Size) += 1;
}
__attribute__((noinline)) void k_fw_set_slot(unsigned long i, BL* n) { SLOTS[i] = n ? &n->Value : nullptr; }
__attribute__((noinline)) int k_fw_slot_is(unsigned long i, BL* n) { return SLOTS[i] == (n ? &n->Value : nullptr); }
__attribute__((noinline)) void k_fw_set_handle(unsigned long s, BL* n) { HANDLES[0].NextSlot = s; HANDLES[0].NextNode = n; }
__attribute__((noinline)) int k_fw_handle_node_is(BL* n) { return HANDLES[0].NextNode == static_cast<Map::node_type>(n); }
__attribute__((noinline)) long k_fw_find(int key) { auto p = F()->Mapping.weakFind(0, key); return p ? (long)p->second : -1; }
__attribute__((noinline)) unsigned long k_fw_mapsize(void) { return *reinterpret_cast<std::size_t*>(&F()->Mapping.Size); }
__attribute__((noinline)) int k_fw_fetch(unsigned long idx) { return F()->fetch(0, idx); }
__attribute__((noinline)) unsigned long k_fw_nextslot(void) { return *reinterpret_cast<std::size_t*>(&F()->NextSlot); }
__attribute__((noinline)) unsigned long k_fw_handle_slot(void) { return HANDLES[0].NextSlot; }
__attribute__((noinline)) int k_fw_handle_has_node(void) { return HANDLES[0].NextNode != nullptr; }
__attribute__((noinline)) int k_fw_slot_key(unsigned long i) { return SLOTS[i] ? SLOTS[i]->first : -1; }
__attribute__((noinline)) long k_fw_slot_index(unsigned long i) { return SLOTS[i] ? (long)SLOTS[i]->second : -1; }
__attribute__((noinline)) int k_fw_slot_set(unsigned long i) { return SLOTS[i] != nullptr; }
}
"""

FW_HARNESS = r"""
#include "verif_rt.h"
#define MAXN (PRE + 2)
#ifdef VERIF_REAL
typedef struct NODE_ NODE;
void k_fw_init(uint32_t, uint64_t, uint64_t, uint32_t); void k_fw_find_or_insert(uint32_t, uint64_t*); NODE* k_fw_mknode(uint64_t); void k_fw_link(NODE*, uint32_t);
void k_fw_set_slot(uint64_t, NODE*); uint32_t k_fw_slot_is(uint64_t, NODE*); void k_fw_set_handle(uint64_t, NODE*); uint32_t k_fw_handle_node_is(NODE*);
uint64_t k_fw_find(uint32_t); uint64_t k_fw_mapsize(void); uint32_t k_fw_fetch(uint64_t); uint64_t k_fw_nextslot(void); uint64_t k_fw_handle_slot(void);
uint32_t k_fw_handle_has_node(void); uint32_t k_fw_slot_key(uint64_t); uint64_t k_fw_slot_index(uint64_t); uint32_t k_fw_slot_set(uint64_t);
static void verif_init_vtables(void) {}
#else
#include "fw.c"
typedef NODE_T NODE;
NODE POOL[MAXN]; int pool_used = 0;
uint8_t* _Znwm(uint64_t n) { VERIF_ASSERT(n == sizeof(NODE), "only bucket nodes are allocated"); VERIF_ASSERT(pool_used < MAXN, "pool large enough"); return (uint8_t*)&POOL[pool_used++]; }
uint8_t* _Znam(uint64_t n) { VERIF_ASSERT(0, "operator new[] (growth) is outside the claim and must not be reached"); __CPROVER_assume(0); return 0; }
void _ZdlPv(uint8_t* p) { VERIF_ASSERT(0, "nothing is freed"); }
void _ZdaPv(uint8_t* p) { VERIF_ASSERT(0, "nothing is freed"); }
uint8_t TRYGROW(TRYGROW_ARGS) { VERIF_ASSERT(0, "growth is outside the claim and must not be reached"); __CPROVER_assume(0); return 0; }
void verif_assert_fail(uint8_t* a, uint8_t* f, uint32_t l, uint8_t* fn) { VERIF_ASSERT(0, "assert() inside the real code failed"); __CPROVER_assume(0); }
#endif
#ifdef VERIF_NATIVE
static int ai = 1, ac; static char** av;
static int64_t nondet_i64(void) { if (ai >= ac) { printf("not enough inputs\n"); exit(2); } return (int64_t)strtoll(av[ai++], 0, 0); }
#else
int64_t nondet_i64(void);
#endif
#define NONE 0xffffffffffffffffULL
/* inputs, one variable each so that they can be read from the trace */
int64_t FW_NEXT0, FW_RF, FW_PK0, FW_PK1, FW_PK2, FW_PX0, FW_PX1, FW_PX2, FW_HASRES, FW_S, FW_KEY;
int32_t PK[PRE + 1]; uint64_t PX[PRE + 1]; NODE* PN[PRE + 1];
#ifdef VERIF_NATIVE
int main(int argc, char** argv) {
  ac = argc; av = argv;
#else
int main(void) {
#endif
  verif_init_vtables();
  FW_NEXT0 = nondet_i64(); uint64_t next0 = (uint64_t)FW_NEXT0; __CPROVER_assume(next0 <= 6);
  FW_RF = nondet_i64(); __CPROVER_assume(FW_RF == 0 || FW_RF == 1); int rf = (int)FW_RF;
  k_fw_init(NB, next0, 8, rf);
  /* the table: PRE indexed keys, distinct keys, distinct indices below NextSlot (index 0 unused when the first slot is reserved) */
  for (int i = 0; i < PRE; i++) {
    int64_t k = nondet_i64(), x = nondet_i64(); __CPROVER_assume(k >= -2147483647 - 1 && k <= 2147483647);
    if (i == 0) { FW_PK0 = k; FW_PX0 = x; } else if (i == 1) { FW_PK1 = k; FW_PX1 = x; } else { FW_PK2 = k; FW_PX2 = x; }
    PK[i] = (int32_t)k; PX[i] = (uint64_t)x; __CPROVER_assume(PX[i] < next0 && (!rf || PX[i] != 0));
    for (int j = 0; j < i; j++) __CPROVER_assume(PK[j] != PK[i] && PX[j] != PX[i]);
    PN[i] = k_fw_mknode(PX[i]); k_fw_link(PN[i], PK[i]); k_fw_set_slot(PX[i], PN[i]); }
  /* the lane: either no reservation, or a slot reserved earlier (below NextSlot, not used by any key, empty) with its prepared node */
  FW_HASRES = nondet_i64(); __CPROVER_assume(FW_HASRES == 0 || FW_HASRES == 1); int has_res = (int)FW_HASRES;
  uint64_t s = NONE; NODE* ns = 0;
  if (has_res) { FW_S = nondet_i64(); s = (uint64_t)FW_S; __CPROVER_assume(s < next0 && (!rf || s != 0)); for (int j = 0; j < PRE; j++) __CPROVER_assume(PX[j] != s);
    ns = k_fw_mknode(s); k_fw_set_handle(s, ns); }
  FW_KEY = nondet_i64(); __CPROVER_assume(FW_KEY >= -2147483647 - 1 && FW_KEY <= 2147483647); int32_t key = (int32_t)FW_KEY;
  int present = -1; for (int j = 0; j < PRE; j++) if (PK[j] == key) present = j;
  uint64_t out[2];
  k_fw_find_or_insert(key, out);
  uint64_t idx = out[0]; int inserted = (int)out[1];
  uint64_t expect_slot = has_res ? s : next0;
  for (int j = 0; j < PRE; j++) VERIF_ASSERT(k_fw_slot_is(PX[j], PN[j]) && k_fw_find(PK[j]) == PX[j], "existing entries keep their index and slot");
  if (present >= 0) {
    VERIF_ASSERT(!inserted && idx == PX[present], "an indexed key returns its index and is not re-inserted");
    VERIF_ASSERT(k_fw_handle_slot() == expect_slot && k_fw_handle_has_node() && (!has_res || k_fw_handle_node_is(ns)), "the lane keeps its reserved slot and node for the next insertion");
    VERIF_ASSERT(!k_fw_slot_set(expect_slot), "the reserved slot is left empty");
    VERIF_ASSERT(k_fw_mapsize() == PRE, "nothing was added to the map");
  } else {
    VERIF_ASSERT(inserted && idx == expect_slot, "a fresh key gets the lane's reserved slot, or the next free one");
    for (int j = 0; j < PRE; j++) VERIF_ASSERT(idx != PX[j], "the new index is not shared with another key");
    VERIF_ASSERT(k_fw_slot_set(idx) && (int32_t)k_fw_slot_key(idx) == key && k_fw_slot_index(idx) == idx && (int32_t)k_fw_fetch(idx) == key, "the slot points to the entry of the key, which maps to the index");
    VERIF_ASSERT(k_fw_find(key) == idx && k_fw_mapsize() == PRE + 1, "the map holds the new entry");
    VERIF_ASSERT(k_fw_handle_slot() == NONE && !k_fw_handle_has_node(), "the lane's reservation is consumed");
  }
  VERIF_ASSERT(k_fw_nextslot() == next0 + (has_res ? 0 : 1), "NextSlot advances exactly when a new slot is reserved");
#ifdef WITNESS
  __CPROVER_assert(!(inserted && has_res && PRE + 0 <= (int)next0), "witness");
#endif
#ifdef VERIF_NATIVE
  printf("replay finished without assertion failure: index=%lu inserted=%d\n", (unsigned long)idx, inserted);
#endif
  return 0;
}
"""

FW_DRIVER = r"""
#include <stdio.h>
#include <stdint.h>
#include <stdlib.h>
void k_fw_init(uint32_t, uint64_t, uint64_t, uint32_t); void k_fw_find_or_insert(uint32_t, uint64_t*); uint64_t k_fw_find(uint32_t); uint64_t k_fw_mapsize(void);
uint32_t k_fw_fetch(uint64_t); uint64_t k_fw_nextslot(void); uint64_t k_fw_handle_slot(void); uint32_t k_fw_handle_has_node(void); uint32_t k_fw_slot_key(uint64_t); uint32_t k_fw_slot_set(uint64_t);
__attribute__((weak)) void verif_init_vtables(void) {}
__attribute__((weak)) void* _Znwm(uint64_t n) { return calloc(1, n); }
__attribute__((weak)) void* _Znam(uint64_t n) { printf("operator new[] reached\n"); exit(5); }
__attribute__((weak)) void _ZdlPv(void* p) { }
__attribute__((weak)) void _ZdaPv(void* p) { }
__attribute__((weak)) uint8_t TRYGROW(void* m, uint64_t h) { printf("tryGrow reached\n"); exit(5); }
__attribute__((weak)) void verif_assert_fail(void* a, void* f, uint32_t l, void* fn) { printf("assert failed\n"); exit(6); }
int main(void) {
  unsigned s = 2463534242u;
  verif_init_vtables();
  for (int nb = 1; nb <= 2; nb++) for (int h = 0; h < 60; h++) {
    int rf = h & 1; k_fw_init(nb, rf ? 1 : 0, 8, rf);
    for (int i = 0; i < 10; i++) {
      s = s * 1103515245u + 12345u; uint32_t key = (s >> 16) % 6; if ((s >> 28) == 0) key = 0x80000000u + key % 2;
      uint64_t out[2]; k_fw_find_or_insert(key, out);
      printf("nb%d h%d foi %u -> idx %lu ins %lu fetch %u find %ld size %lu next %lu handle %ld/%u |", nb, h, key, (unsigned long)out[0], (unsigned long)out[1], k_fw_fetch(out[0]),
             (long)k_fw_find(key), (unsigned long)k_fw_mapsize(), (unsigned long)k_fw_nextslot(), (long)k_fw_handle_slot(), k_fw_handle_has_node());
      for (int j = 0; j < 8; j++) if (k_fw_slot_set(j)) printf(" %d:%u", j, k_fw_slot_key(j)); printf("\n");
    }
  }
  return 0;
}
"""


def _cut_trygrow(t):
    names = []
    while True:
        m = re.search(r"^define [^\n]*@(_ZN7souffle\w+7tryGrowEm)\(([^\n]*)\)[^\n]*\{\n.*?^\}\n", t, re.M | re.S)
        if not m:
            break
        names.append(m.group(1))
        hdr = t[m.start():t.index("\n", m.start())]
        decl = re.sub(r"^define (?:linkonce_odr |dso_local |internal |weak_odr )*", "declare ", hdr)
        decl = re.sub(r"\)[^()]*\{$", ")", decl)
        decl = re.sub(r" %\d+(?=[,)])", "", decl)
        t = t[:m.start()] + decl + "\n" + t[m.end():]
    return t, names


def _prepare_fw(work):
    cpp = os.path.join(work, "fw.cpp")
    open(cpp, "w").write(FW_WRAPPER)
    ll = K.lower(cpp, os.path.join(work, "fw.ll"), extra=["-fno-exceptions"])
    t, names = _cut_trygrow(open(ll).read())
    maps = [n for n in names if "ConcurrentInsertOnlyHashMap" in n]
    if len(maps) != 1:
        raise EngineError("hash-map tryGrow not found exactly once in the lowered flyweight IR: %s" % names)
    others = [n for n in names if n not in maps]
    open(ll, "w").write(t)
    c24.strip_personality(ll)
    c = K.translate(ll, os.path.join(work, "fw.c"))
    src = open(c).read().replace("__assert_fail", "verif_assert_fail")
    src, n = re.subn(r"^(struct S__struct_std____atomic_base_\w*_ \{ )struct S__\w*BucketList_\*( f0; \};)$", r"\1uint64_t\2", src, flags=re.M)
    if n != 1:
        raise EngineError("atomic bucket-head struct not recognised in the translated flyweight C (%d matches)" % n)
    m = re.search(r"^(struct S__\w*BucketList_)\* k_fw_mknode\(", src, re.M)
    if not m:
        raise EngineError("k_fw_mknode not found in the translated C")
    node_t = m.group(1)
    # virtual call Node::value() in findOrInsert: the translator drops constant initialisers, so the vtables are filled by a generated function
    init = []
    for mv in re.finditer(r"^@(_ZTV\w+) = [^\n]*\{ \[(\d+) x i8\*\] \[([^\n]*)\] \}", t, re.M):
        ents = re.findall(r"i8\* (null|bitcast \([^@]*@(\w+) to i8\*\))", mv.group(3))
        for k, (e, fn) in enumerate(ents):
            if fn and re.search(r"^[^\n;]*\b%s\([^;\n]*\) \{$" % re.escape(fn), src, re.M):
                init.append("  %s.f0.a[%d] = (uint8_t*)&%s;" % (mv.group(1), k, fn))
    if not any("5valueEv" in x for x in init):
        raise EngineError("vtable entry of BucketList::value() not found in the lowered IR")
    src += "\nvoid verif_init_vtables(void) {\n" + "\n".join(init) + "\n}\n"
    mg = re.search(r"^uint8_t %s\(([^)]*)\);" % re.escape(maps[0]), src, re.M)
    if not mg:
        raise EngineError("declaration of the hash map's tryGrow not found in the translated flyweight C")
    args = ", ".join("%s a%d" % (a.strip(), i) for i, a in enumerate(mg.group(1).split(",")))
    if others:
        raise EngineError("flyweight tryGrow was not inlined into findOrInsert (%s): harness out of date" % others)
    src = "#define NODE_T %s\n#define TRYGROW %s\n#define TRYGROW_ARGS %s\n" % (node_t, maps[0], args) + src
    open(c, "w").write(src)
    drv = os.path.join(work, "drvfw.c")
    open(drv, "w").write(FW_DRIVER.replace("TRYGROW", maps[0]))
    nlines = K.differential(work, drv, c, cpp, extra_cxx=["-fno-exceptions"], extra_c=["-D__dso_handle=verif_dso_handle"])
    h = os.path.join(work, "hfw.c")
    open(h, "w").write(FW_HARNESS)
    return {"h": h, "cpp": cpp, "nlines": nlines}


def _fw_configs(tier):
    return [(2, 1), (1, 2)] if tier == "quick" else [(p, nb) for nb in (1, 2) for p in (0, 1, 2, 3)]


def _fw_obligation(pf, cfg, tier):
    pre, nb = cfg
    name = "findOrInsert/indexed-keys=%d/buckets=%d" % (pre, nb)
    return K.Obligation(name, [pf["h"]], defines=["PRE=%d" % pre, "NB=%d" % nb], unwind=max(pre + 2, 3), timeout=120 if tier == "quick" else 900,
                        extra=["--pointer-check", "--bounds-check"], includes=[os.path.dirname(pf["h"])],
                        meta={"indexed_keys": pre, "buckets": nb, "lane_state": "no reservation / reserved slot with prepared node (symbolic)",
                              "NextSlot": "symbolic <= 6 of 8 slots", "FirstSlotIsReserved": "both", "_fw": cfg})


def _fw_replay(work, pf, o):
    pre, nb = o.meta["_fw"]
    names = ["FW_NEXT0", "FW_RF"] + [x for i in range(pre) for x in ("FW_PK%d" % i, "FW_PX%d" % i)] + ["FW_HASRES"]
    vals = [_int64(o.res, n) for n in names]
    if any(v is None for v in vals):
        return None, "inputs could not be read from the trace", vals, ""
    if vals[-1] == 1:
        names.append("FW_S")
        vals.append(_int64(o.res, "FW_S"))
    names.append("FW_KEY")
    vals.append(_int64(o.res, "FW_KEY"))
    if any(v is None for v in vals):
        return None, "inputs could not be read from the trace", vals, ""
    defs = ["-DPRE=%d" % pre, "-DNB=%d" % nb, "-DVERIF_NATIVE", "-DVERIF_REAL"]
    ob, exe = os.path.join(work, "rpfw_%d_%d.o" % cfg_tag(pre, nb)), os.path.join(work, "rpfw_%d_%d" % cfg_tag(pre, nb))
    rc, out, err = sh(["gcc", "-O0", "-w", "-c"] + defs + ["-I", K.HERE, "-I", work, pf["h"], "-o", ob], timeout=120)
    if rc == 0:
        rc, out, err = sh(["g++", "-std=c++17", "-O1", "-w", "-fno-exceptions", "-I", os.path.join(common.REPO, "src", "include"), "-I", os.path.join(common.REPO, "src"),
                           ob, pf["cpp"], "-o", exe], timeout=300)
    cmd = ("gcc -O0 -w -c %s -I /verif/engine_k -I . hfw.c -o h.o && g++ -std=c++17 -O1 -w -fno-exceptions -I %s/src/include -I %s/src h.o fw.cpp -o replay && ./replay %s"
           % (" ".join(defs), common.REPO, common.REPO, " ".join(str(v) for v in vals)))
    if rc != 0:
        return None, "native replay build failed: " + err[-400:], vals, cmd
    rc, out, err = sh([exe] + [str(v) for v in vals], timeout=20)
    return (rc == 3 and "ASSERTION-FAILED" in out), "g++ build of the real wrapper TU: rc=%d %s; inputs %s" % (rc, out.strip()[-300:], dict(zip(names, vals))), vals, cmd


def cfg_tag(pre, nb):
    return (pre, nb)


def _int64(r, nm):
    v = r.trace_values([nm]).get(nm)
    if not v:
        return None
    if v[1]:
        u = int(v[1].replace(" ", ""), 2)
        return u - (1 << 64) if u >= (1 << 63) else u
    try:
        return int(v[0].rstrip("uUlL"))
    except ValueError:
        return None


# ------------------------------------------------------------------------------------------------------------------
# (d) ConcurrentFlyweight::findOrInsert + fetch under interference of another lane (above the hash map)
# ------------------------------------------------------------------------------------------------------------------
FWC_WRAPPER = FW_WRAPPER[:FW_WRAPPER.index('extern "C" {')].replace("static FW::Handle HANDLES[1];", "static FW::Handle HANDLES[2];") + r"""extern "C" {
__attribute__((noinline)) void k_fw_init(int nb, unsigned long nextslot, unsigned long slotcount, int reserve_first) {
    g_fw = &HOLD.f; FW* f = g_fw;
    new (&f->Lanes) SeqConcurrentLanes(2);
    f->HandleCount = 2;
    new (&f->Handles) std::unique_ptr<FW::Handle[]>(HANDLES);
    new (&f->Slots) std::unique_ptr<const VT*[]>(SLOTS);
    Map* m = &f->Mapping;
    new (&m->Lanes) SeqConcurrentLanes(2);
    m->BucketCount = (std::size_t)nb;
    new (&m->Buckets) std::unique_ptr<std::atomic<BL*>[]>(BUCKETS);
    slot(0) = 0; slot(1) = 0;
    *reinterpret_cast<std::size_t*>(&m->Size) = 0;
    m->MaxSizeBeforeGrow = 1000; m->LoadFactor = 1.0;
    *reinterpret_cast<std::size_t*>(&f->NextSlot) = nextslot;
    *reinterpret_cast<std::size_t*>(&f->SlotCount) = slotcount;
    const_cast<bool&>(f->FirstSlotIsReserved) = reserve_first != 0;
    for (int l = 0; l < 2; l++) { HANDLES[l].NextSlot = FW::NONE; HANDLES[l].NextNode = nullptr; }
    for (int i = 0; i < 8; i++) SLOTS[i] = nullptr;
}
/* the two operations under test, through lane `lane`; out: [0] index, [1] inserted */
__attribute__((noinline)) void k_fw_find_or_insert(unsigned long lane, int key, unsigned long* out) {
    auto r = F()->findOrInsert(lane, key);
    out[0] = r.first; out[1] = r.second ? 1 : 0;
}
__attribute__((noinline)) int k_fw_fetch(unsigned long lane, unsigned long idx) { return F()->fetch(lane, idx); }
/* harness accessors */
__attribute__((noinline)) BL* k_fw_mknode(unsigned long idx) { return static_cast<BL*>(F()->Mapping.node(idx)); }
__attribute__((noinline)) void k_fw_link(BL* n, int key) {
    Map* m = &F()->Mapping; const_cast<int&>(n->Value.first) = key;
    std::size_t b = (std::size_t)(unsigned)key % m->BucketCount;
    n->Next = reinterpret_cast<BL*>(slot((int)b)); slot((int)b) = reinterpret_cast<std::uintptr_t>(n);
    *reinterpret_cast<std::size_t*>(&m->Size) += 1;
}
__attribute__((noinline)) void k_fw_set_slot(unsigned long i, BL* n) { SLOTS[i] = n ? &n->Value : nullptr; }
__attribute__((noinline)) void k_fw_set_handle(unsigned long lane, unsigned long s, BL* n) { HANDLES[lane].NextSlot = s; HANDLES[lane].NextNode = n; }
__attribute__((noinline)) long k_fw_find(int key) { auto p = F()->Mapping.weakFind(0, key); return p ? (long)p->second : -1; }
__attribute__((noinline)) unsigned long k_fw_mapsize(void) { return *reinterpret_cast<std::size_t*>(&F()->Mapping.Size); }
__attribute__((noinline)) unsigned long k_fw_nextslot(void) { return *reinterpret_cast<std::size_t*>(&F()->NextSlot); }
__attribute__((noinline)) unsigned long k_fw_handle_slot(unsigned long lane) { return HANDLES[lane].NextSlot; }
__attribute__((noinline)) int k_fw_handle_has_node(unsigned long lane) { return HANDLES[lane].NextNode != nullptr; }
__attribute__((noinline)) int k_fw_slot_key(unsigned long i) { return SLOTS[i] ? SLOTS[i]->first : -1; }
__attribute__((noinline)) long k_fw_slot_index(unsigned long i) { return SLOTS[i] ? (long)SLOTS[i]->second : -1; }
__attribute__((noinline)) int k_fw_slot_set(unsigned long i) { return SLOTS[i] != nullptr; }
}
"""

# CBMC: IR-derived C (yield translation: a hook before every atomic access and every plain store / load through a pointer inside
# findOrInsert and the hash map's get); native -DVERIF_NATIVE: the same with the inputs from argv (replay at a forced site)
FWC_HARNESS = r"""
#include "verif_rt.h"
#define MAXN (PRE + 4)
static void env_point(int site);
#ifdef LOGSITES
static void log_site(int site, void* p);
#define VERIF_YIELD_ATP(k, p) log_site(k, (void*)(p))
#else
#define VERIF_YIELD_ATP(k, p) env_point(k)
#endif
#include "fwc_y.c"
typedef NODE_T NODE;
/* operator new -> typed static cells.  Set-up allocations take POOL[0..PRE+2); the (at most one) allocation inside lane A's operation and
   the one inside lane B's have fixed cells: node identity stays concrete whatever the lanes' reservation state is */
NODE POOL[MAXN]; int pool_used = 0; int setup = 1, usedA = 0, usedB = 0;
int in_op = 0, in_env = 0, env_taken = 0;
uint8_t* _Znwm(uint64_t n) {
  VERIF_ASSERT(n == sizeof(NODE), "only bucket nodes are allocated");
  if (setup) { VERIF_ASSERT(pool_used < PRE + 2, "pool large enough"); return (uint8_t*)&POOL[pool_used++]; }
  if (in_env) { VERIF_ASSERT(!usedB, "one allocation per operation"); usedB = 1; return (uint8_t*)&POOL[PRE + 3]; }
  VERIF_ASSERT(!usedA, "one allocation per operation"); usedA = 1; return (uint8_t*)&POOL[PRE + 2];
}
uint8_t* _Znam(uint64_t n) { VERIF_ASSERT(0, "operator new[] (growth) is outside the claim and must not be reached"); __CPROVER_assume(0); return 0; }
void _ZdlPv(uint8_t* p) { VERIF_ASSERT(0, "nothing is freed"); }
void _ZdaPv(uint8_t* p) { VERIF_ASSERT(0, "nothing is freed"); }
uint8_t TRYGROW(TRYGROW_ARGS) { VERIF_ASSERT(0, "growth is outside the claim and must not be reached"); __CPROVER_assume(0); return 0; }
void verif_assert_fail(uint8_t* a, uint8_t* f, uint32_t l, uint8_t* fn) { VERIF_ASSERT(0, "assert() inside the real code failed"); __CPROVER_assume(0); }
#ifdef VERIF_NATIVE
static int ai = 1, ac; static char** av;
static int64_t nondet_i64(void) { if (ai >= ac) { printf("not enough inputs\n"); exit(2); } return (int64_t)strtoll(av[ai++], 0, 0); }
#else
int64_t nondet_i64(void);
#endif
#define NONE 0xffffffffffffffffULL
/* inputs, one variable each so that they can be read from the trace */
int64_t FC_PK0, FC_PK1, FC_RESA, FC_RESB, FC_KA, FC_KB;
int32_t PK[PRE + 1]; NODE* PN[PRE + 1];
int32_t KA, KB; uint64_t outA[2], outB[2];
/* lane B: a complete findOrInsert(KB) through its own lane, then it uses the index it learned at once */
static void lane_b(void) {
  in_env = 1; env_taken = 1;
  k_fw_find_or_insert(1, KB, outB);
  VERIF_ASSERT(outB[0] < 8 && k_fw_slot_set(outB[0]), "the slot of an index returned to another lane is filled (fetch would dereference it)");
  VERIF_ASSERT((int32_t)k_fw_fetch(1, outB[0]) == KB, "an index returned to another lane can be fetched at once and yields the key");
  in_env = 0;
}
static void env_point(int site) { if (in_op && !in_env && !env_taken && site == SITE) lane_b(); }
#ifdef LOGSITES
/* native discovery run: which sites does lane A's operation pass, and does the access go to node memory (private until published)? */
static void log_site(int site, void* p) { if (in_op && !in_env) printf("SITE %d %s\n", site, p == 0 ? "atomic" : ((char*)p >= (char*)POOL && (char*)p < (char*)(POOL + MAXN)) ? "node" : "shared"); fflush(stdout); }
#endif
#ifdef VERIF_NATIVE
int main(int argc, char** argv) {
  ac = argc; av = argv;
#else
int main(void) {
#endif
  verif_init_vtables();
  /* canonical layout: the PRE indexed keys have indices 0..PRE-1, slot PRE belongs to lane A, slot PRE+1 to lane B (reserved with its prepared
     node, or simply unused), NextSlot = PRE+2 of 8 slots: no growth */
  k_fw_init(1, PRE + 2, 8, 0);
  for (int i = 0; i < PRE; i++) {
    int64_t k = nondet_i64(); __CPROVER_assume(k >= 0 && k < 8);
    if (i == 0) FC_PK0 = k; else FC_PK1 = k;
    PK[i] = (int32_t)k; for (int j = 0; j < i; j++) __CPROVER_assume(PK[j] != PK[i]);
    PN[i] = k_fw_mknode(i); k_fw_link(PN[i], PK[i]); k_fw_set_slot(i, PN[i]); }
  NODE* ra = k_fw_mknode(PRE); NODE* rb = k_fw_mknode(PRE + 1);
  /* the lanes' reservation state is enumerated outside the query (symbolic: 4x larger formulas, measured) */
  FC_RESA = RESA; if (FC_RESA) k_fw_set_handle(0, PRE, ra);
  FC_RESB = RESB; if (FC_RESB) k_fw_set_handle(1, PRE + 1, rb);
  FC_KA = nondet_i64(); FC_KB = nondet_i64(); __CPROVER_assume(FC_KA >= 0 && FC_KA < 8 && FC_KB >= 0 && FC_KB < 8); KA = (int32_t)FC_KA; KB = (int32_t)FC_KB;
  setup = 0;
  in_op = 1;
  k_fw_find_or_insert(0, KA, outA);
  in_op = 0;
  if (SITE == NSITES && !env_taken) lane_b();           /* lane B after lane A's operation has returned */
  __CPROVER_assume(env_taken);                          /* executions that do not reach the chosen site belong to other queries */
  /* lane A uses its index */
  VERIF_ASSERT(outA[0] < 8 && k_fw_slot_set(outA[0]) && (int32_t)k_fw_fetch(0, outA[0]) == KA, "the index returned to the operation's lane fetches its key");
  VERIF_ASSERT((KA == KB) == (outA[0] == outB[0]), "equal keys get the same index, different keys different indices");
  VERIF_ASSERT(!(KA == KB && outA[1] && outB[1]), "a key is inserted by at most one lane");
  /* the table: every key of the map has its slot, the slot points to its entry */
  int na = -1, nb = -1; for (int j = 0; j < PRE; j++) { if (PK[j] == KA) na = j; if (PK[j] == KB) nb = j; }
  for (int j = 0; j < PRE; j++) VERIF_ASSERT(k_fw_find(PK[j]) == j && (int32_t)k_fw_slot_key(j) == PK[j] && k_fw_slot_index(j) == j, "existing entries keep their index and slot");
  if (na >= 0) VERIF_ASSERT(outA[0] == (uint64_t)na && !outA[1], "an indexed key returns its index and is not re-inserted");
  if (nb >= 0) VERIF_ASSERT(outB[0] == (uint64_t)nb && !outB[1], "an indexed key returns its index and is not re-inserted");
  VERIF_ASSERT(k_fw_find(KA) == outA[0] && (int32_t)k_fw_slot_key(outA[0]) == KA && k_fw_slot_index(outA[0]) == outA[0], "the slot of the returned index points to the entry of the key, which maps to the index");
  VERIF_ASSERT(k_fw_find(KB) == outB[0] && (int32_t)k_fw_slot_key(outB[0]) == KB && k_fw_slot_index(outB[0]) == outB[0], "the slot of the returned index points to the entry of the key, which maps to the index");
  VERIF_ASSERT(k_fw_mapsize() == PRE + (na < 0) + (nb < 0 && KB != KA), "the map holds exactly the old keys and the new ones");
  /* lanes: a lane that did not insert keeps a reservation whose slot is empty and is nobody's index; one that inserted has none */
  for (int l = 0; l < 2; l++) {
    uint64_t ins = l ? outB[1] : outA[1]; uint64_t hs = k_fw_handle_slot(l);
    if (ins) VERIF_ASSERT(hs == NONE && !k_fw_handle_has_node(l), "a lane that inserted has consumed its reservation");
    else VERIF_ASSERT(hs != NONE && hs < k_fw_nextslot() && hs < 8 && k_fw_handle_has_node(l) && !k_fw_slot_set(hs) && hs != outA[0] && hs != outB[0], "a lane that did not insert keeps its reservation: slot empty, not the index of any key");
  }
  VERIF_ASSERT(k_fw_handle_slot(0) == NONE || k_fw_handle_slot(0) != k_fw_handle_slot(1), "the two lanes never hold the same reserved slot");
  VERIF_ASSERT(k_fw_nextslot() == PRE + 2 + (FC_RESA ? 0 : 1) + (FC_RESB ? 0 : 1), "NextSlot advances exactly once per newly reserved slot");
#ifdef WITNESS
  __CPROVER_assert(0, "witness");
#endif
#ifdef VERIF_NATIVE
  printf("replay finished without assertion failure: A idx=%lu ins=%lu, B idx=%lu ins=%lu\n", (unsigned long)outA[0], (unsigned long)outA[1], (unsigned long)outB[0], (unsigned long)outB[1]);
#endif
  return 0;
}
"""

FWC_DRIVER = r"""
#include <stdio.h>
#include <stdint.h>
#include <stdlib.h>
void k_fw_init(uint32_t, uint64_t, uint64_t, uint32_t); void k_fw_find_or_insert(uint64_t, uint32_t, uint64_t*); uint64_t k_fw_find(uint32_t); uint64_t k_fw_mapsize(void);
uint32_t k_fw_fetch(uint64_t, uint64_t); uint64_t k_fw_nextslot(void); uint64_t k_fw_handle_slot(uint64_t); uint32_t k_fw_handle_has_node(uint64_t); uint32_t k_fw_slot_key(uint64_t); uint32_t k_fw_slot_set(uint64_t);
__attribute__((weak)) void verif_init_vtables(void) {}
__attribute__((weak)) void* _Znwm(uint64_t n) { return calloc(1, n); }
__attribute__((weak)) void* _Znam(uint64_t n) { printf("operator new[] reached\n"); exit(5); }
__attribute__((weak)) void _ZdlPv(void* p) { }
__attribute__((weak)) void _ZdaPv(void* p) { }
__attribute__((weak)) uint8_t TRYGROW(void* m, uint64_t h) { printf("tryGrow reached\n"); exit(5); }
__attribute__((weak)) void verif_assert_fail(void* a, void* f, uint32_t l, void* fn) { printf("assert failed\n"); exit(6); }
int main(void) {
  unsigned s = 2463534242u;
  verif_init_vtables();
  for (int h = 0; h < 120; h++) {
    k_fw_init(1 + (h & 1), 0, 8, 0);
    for (int i = 0; i < 10; i++) {
      s = s * 1103515245u + 12345u; uint32_t key = (s >> 16) % 6; uint64_t lane = (s >> 27) & 1;
      uint64_t out[2]; k_fw_find_or_insert(lane, key, out);
      printf("h%d lane %lu foi %u -> idx %lu ins %lu fetch %u find %ld size %lu next %lu handles %ld/%u %ld/%u |", h, (unsigned long)lane, key, (unsigned long)out[0], (unsigned long)out[1],
             k_fw_fetch(lane, out[0]), (long)k_fw_find(key), (unsigned long)k_fw_mapsize(), (unsigned long)k_fw_nextslot(), (long)k_fw_handle_slot(0), k_fw_handle_has_node(0),
             (long)k_fw_handle_slot(1), k_fw_handle_has_node(1));
      for (int j = 0; j < 8; j++) if (k_fw_slot_set(j)) printf(" %d:%u", j, k_fw_slot_key(j)); printf("\n");
    }
  }
  return 0;
}
"""


def _post_fw(src, t, maps, what):
    """shared post-processing of a translated flyweight TU: assert hook, integer-typed bucket heads, vtables, harness macros"""
    src = src.replace("__assert_fail", "verif_assert_fail")
    src, n = re.subn(r"^(struct S__struct_std____atomic_base_\w*_ \{ )struct S__\w*BucketList_\*( f0; \};)$", r"\1uint64_t\2", src, flags=re.M)
    if n != 1:
        raise EngineError("atomic bucket-head struct not recognised in the translated %s C (%d matches)" % (what, n))
    m = re.search(r"^(struct S__\w*BucketList_)\* k_fw_mknode\(", src, re.M)
    if not m:
        raise EngineError("k_fw_mknode not found in the translated %s C" % what)
    node_t = m.group(1)
    init = []
    for mv in re.finditer(r"^@(_ZTV\w+) = [^\n]*\{ \[(\d+) x i8\*\] \[([^\n]*)\] \}", t, re.M):
        ents = re.findall(r"i8\* (null|bitcast \([^@]*@(\w+) to i8\*\))", mv.group(3))
        for k, (e, fn) in enumerate(ents):
            if fn and re.search(r"^[^\n;]*\b%s\([^;\n]*\) \{$" % re.escape(fn), src, re.M):
                init.append("  %s.f0.a[%d] = (uint8_t*)&%s;" % (mv.group(1), k, fn))
    if not any("5valueEv" in x for x in init):
        raise EngineError("vtable entry of BucketList::value() not found in the lowered IR (%s)" % what)
    src += "\nvoid verif_init_vtables(void) {\n" + "\n".join(init) + "\n}\n"
    mg = re.search(r"^uint8_t %s\(([^)]*)\);" % re.escape(maps[0]), src, re.M)
    if not mg:
        raise EngineError("declaration of the hash map's tryGrow not found in the translated %s C" % what)
    args = ", ".join("%s a%d" % (a.strip(), i) for i, a in enumerate(mg.group(1).split(",")))
    return "#define NODE_T %s\n#define TRYGROW %s\n#define TRYGROW_ARGS %s\n" % (node_t, maps[0], args) + src


def _prepare_fwc(work, tier):
    cpp = os.path.join(work, "fwc.cpp")
    open(cpp, "w").write(FWC_WRAPPER)
    ll = K.lower(cpp, os.path.join(work, "fwc.ll"), extra=["-fno-exceptions"])
    t, names = _cut_trygrow(open(ll).read())
    maps = [n for n in names if "ConcurrentInsertOnlyHashMap" in n]
    if len(maps) != 1 or len(names) != 1:
        raise EngineError("expected exactly the hash map's tryGrow as a separate function in the lowered two-lane flyweight IR: %s" % names)
    open(ll, "w").write(t)
    c24.strip_personality(ll)
    plain = K.translate(ll, os.path.join(work, "fwc.c"))
    psrc = _post_fw(open(plain).read(), t, maps, "two-lane flyweight")
    open(plain, "w").write(psrc)
    drv = os.path.join(work, "drvfwc.c")
    open(drv, "w").write(FWC_DRIVER.replace("TRYGROW", maps[0]))
    nlines = K.differential(work, drv, plain, cpp, extra_cxx=["-fno-exceptions"], extra_c=["-D__dso_handle=verif_dso_handle"])
    ypath = K.translate(ll, os.path.join(work, "fwc_y.c"), yield_mode=True)
    ysrc = open(ypath).read()
    # yield sites: inside findOrInsert and the hash map's get (wherever the compiler put it): every atomic access (already marked by the
    # translator) and every plain load / store through a pointer that is not a local of the function
    funcs = [m for m in re.finditer(r"^[^\n;{}]*\b(\w*(?:12findOrInsert|3getI)\w*)\([^;\n]*\) \{\n.*?^\}\n", ysrc, re.M | re.S)]
    if not any("12findOrInsert" in m.group(1) for m in funcs):
        raise EngineError("findOrInsert not found as a function in the translated two-lane flyweight C")
    kinds = {}
    cnt = [0]
    pieces, pos = [], 0
    for m in funcs:
        out = []
        for ln in m.group(0).splitlines():
            kind, ptr = None, "0"
            if "VERIF_YIELD();" in ln:
                kind = "atomic-write" if re.search(r"VERIF_CMPXCHG|VERIF_ATOMIC_RMW|VERIF_ATOMIC_STORE", ln) else "atomic-read"
                ln = ln.replace("VERIF_YIELD();", "")
            else:
                ms = re.match(r"^\s*\*(.+?) = [^;]*;\s*$", ln)
                ml = re.match(r"^\s*v_\w+ = \(\*(.*)\);\s*$", ln)
                if ms and not re.match(r"^\(*&?v_\w+_mem\b", ms.group(1)):
                    kind, ptr = "store", ms.group(1)
                elif ml and "_mem" not in ml.group(1):
                    kind, ptr = "load", ml.group(1)
            if kind:
                ind = re.match(r"^\s*", ln).group(0)
                out.append("%sVERIF_YIELD_ATP(%d, %s); %s" % (ind, cnt[0], ptr, ln.strip()))
                kinds[cnt[0]] = {"kind": kind, "statement": ln.strip()[:80], "function": "findOrInsert" if "12findOrInsert" in m.group(1) else "get"}
                cnt[0] += 1
            else:
                out.append(ln)
        pieces.append(ysrc[pos:m.start()])
        pieces.append("\n".join(out) + "\n")
        pos = m.end()
    pieces.append(ysrc[pos:])
    ysrc = "".join(pieces).replace("VERIF_YIELD();", "")
    ysrc = _post_fw(ysrc, t, maps, "two-lane flyweight (yield)")
    open(ypath, "w").write(ysrc)
    # the yield translation is what CBMC and the replays see: validate it too
    yw = os.path.join(work, "fwc_y_plain.c")
    open(yw, "w").write('#define VERIF_YIELD_ATP(k, p)\n#include "fwc_y.c"\n')
    nlines += K.differential(work, drv, yw, cpp, extra_cxx=["-fno-exceptions"], extra_c=["-D__dso_handle=verif_dso_handle"])
    h = os.path.join(work, "hfwc.c")
    open(h, "w").write(FWC_HARNESS)
    # discovery (native, IR-derived C): which sites lane A passes for each reservation state, and whether the access is to node memory
    nsites = cnt[0]
    reach = {0: set(), 1: set()}
    reach0 = {0: set(), 1: set()}             # the same with no old key in the table
    for pre, rset in ((1, reach), (0, reach0)):
        for resa in (0, 1):
            exe = os.path.join(work, "fwc_log%d_%d" % (pre, resa))
            rc, out, err = sh(["gcc", "-O0", "-w", "-D__dso_handle=verif_dso_handle", "-DVERIF_NATIVE", "-DLOGSITES", "-DPRE=%d" % pre, "-DSITE=-1", "-DNSITES=%d" % nsites,
                               "-DRESA=%d" % resa, "-DRESB=0", "-I", K.HERE, "-I", work, h, "-o", exe], timeout=120)
            if rc != 0:
                raise EngineError("native site-discovery build failed: " + err[-400:])
            for ka in (3, 5):                      # key already indexed (3, when there is an old key) / fresh (5)
                rc, out, err = sh([exe] + (["3"] if pre else []) + [str(ka), "6"], timeout=20)
                for mm in re.finditer(r"^SITE (\d+) (\w+)$", out, re.M):
                    k = int(mm.group(1))
                    rset[resa].add(k)
                    kinds[k]["target"] = mm.group(2) if kinds[k].get("target", mm.group(2)) == mm.group(2) else "mixed"
    if not (reach[0] | reach[1]):
        raise EngineError("site discovery found no yield site on lane A's path")
    return {"h": h, "cpp": cpp, "nlines": nlines, "sites": kinds, "nsites": nsites, "reach": reach, "reach0": reach0}


def _fwc_configs(p, tier):
    """(site, RESA, RESB, PRE).  Lane B runs, as one step, before the access at `site` of lane A (site == nsites: after A returned).
    quick: every write of lane A to shared memory (atomic read-modify-writes / stores, plain stores outside node memory) and `after`, one
    reservation state each; thorough: every access on A's path (reads too); the writes with two complementary reservation states and with no old key."""
    cfgs = []
    n = p["nsites"]
    allsites = sorted(p["reach"][0] | p["reach"][1]) + [n]
    flip = 0
    for k in allsites:
        info = p["sites"].get(k, {"kind": "after", "target": "shared"})
        write = k == n or info["kind"] == "atomic-write" or (info["kind"] == "store" and info.get("target") != "node")
        if tier == "quick" and not write:
            continue
        ras = [r for r in (0, 1) if k == n or k in p["reach"][r]]
        flip ^= 1
        ra = ras[flip % len(ras)]
        cfgs.append((k, ra, flip, 1))
        if tier != "quick" and write:
            ra2 = ras[(flip + 1) % len(ras)]
            cfgs.append((k, ra2, 1 - flip, 1))
            if k == n or k in p["reach0"][ra]:
                cfgs.append((k, ra, 1 - flip, 0))
    return cfgs


def _fwc_obligation(p, cfg, tier):
    site, ra, rb, pre = cfg
    info = p["sites"].get(site, {"kind": "after lane A returned", "statement": "", "function": ""})
    name = "findOrInsert+fetch/laneB-before-site=%s/%s/resA=%d/resB=%d/old-keys=%d" % ("after" if site == p["nsites"] else site, info["kind"].replace(" ", "-"), ra, rb, pre)
    return K.Obligation(name, [p["h"]], defines=["PRE=%d" % pre, "SITE=%d" % site, "NSITES=%d" % p["nsites"], "RESA=%d" % ra, "RESB=%d" % rb], unwind=3,
                        timeout=120 if tier == "quick" else 900, extra=["--pointer-check", "--bounds-check"], includes=[os.path.dirname(p["h"])],
                        meta={"lane_B_runs_before": dict(info, site=site), "lane_A_has_reservation": bool(ra), "lane_B_has_reservation": bool(rb), "old_keys": pre,
                              "keys": "A's and B's key symbolic in 0..7 (equal or different, old or fresh)", "_fwc": cfg})


def _fwc_replay(work, p, o):
    """native replay on the IR-derived C with lane B forced at the same site"""
    site, ra, rb, pre = o.meta["_fwc"]
    names = ["FC_PK%d" % i for i in range(pre)] + ["FC_KA", "FC_KB"]
    vals = [_int64(o.res, n) for n in names]
    if any(v is None for v in vals):
        return None, "inputs could not be read from the trace", vals, ""
    defs = ["-DPRE=%d" % pre, "-DSITE=%d" % site, "-DNSITES=%d" % p["nsites"], "-DRESA=%d" % ra, "-DRESB=%d" % rb, "-DVERIF_NATIVE"]
    exe = os.path.join(work, "rpfwc_%d_%d_%d_%d" % (site, ra, rb, pre))
    rc, out, err = sh(["gcc", "-O0", "-w", "-D__dso_handle=verif_dso_handle"] + defs + ["-I", K.HERE, "-I", work, p["h"], "-o", exe], timeout=120)
    cmd = "gcc -O0 -w -D__dso_handle=verif_dso_handle %s -I /verif/engine_k -I . hfwc.c -o replay && ./replay %s" % (" ".join(defs), " ".join(str(v) for v in vals))
    if rc != 0:
        return None, "native replay build failed: " + err[-400:], vals, cmd
    rc, out, err = sh([exe] + [str(v) for v in vals], timeout=20)
    crashed = rc < 0 or rc in (139, 134)
    return ((rc == 3 and "ASSERTION-FAILED" in out) or crashed), "natively compiled IR-derived C, lane B forced at the site: rc=%d %s; inputs %s" % (
        rc, out.strip()[-300:], dict(zip(names, vals))), vals, cmd


def run(tier, seed, only=None):
    t0 = time.time()
    res = common.Result(PID, "other")
    work = common.scratch_dir("c31")
    try:
        p = _prepare(work)
        obls = [_obligation(p, c, tier) for c in _configs(tier)]
        fw_error = None
        try:
            pf = _prepare_fw(work)
            obls += [_fw_obligation(pf, c, tier) for c in _fw_configs(tier)]
        except EngineError as e:
            pf, fw_error = None, str(e)[:500]
        fwc_error = None
        try:
            pc = _prepare_fwc(work, tier)
            obls += [_fwc_obligation(pc, c, tier) for c in _fwc_configs(pc, tier)]
        except EngineError as e:
            pc, fwc_error = None, str(e)[:500]
        if only:
            obls = [o for o in obls if only in o.name]
        K.run_all(obls, jobs=6)
        dropped = []
        if fw_error:
            dropped.append({"obligation": "findOrInsert/*", "reason": "kernel could not be prepared: " + fw_error})
            res.inconc("ConcurrentFlyweight::findOrInsert kernel could not be prepared: " + fw_error)
        if fwc_error:
            dropped.append({"obligation": "findOrInsert+fetch/*", "reason": "kernel could not be prepared: " + fwc_error})
            res.inconc("two-lane ConcurrentFlyweight kernel could not be prepared: " + fwc_error)
        for o in obls:
            if "_fwc" in o.meta:
                if o.verdict == "violated":
                    failed = "; ".join(sorted(set(d for n, d in o.res.failed)))
                    ok, info, vals, cmd = _fwc_replay(work, pc, o)
                    mine = sorted(set(d_ for n, d_ in o.res.failed if re.match(r"line \d+ [a-z]", d_) and "dereference" not in d_)) or sorted(set(d_ for n, d_ in o.res.failed))
                    if ok:
                        d = K.save_replay(PID, re.sub(r"[^A-Za-z0-9_.-]", "_", o.name)[:100], {
                            "hfwc.c": open(pc["h"]).read(), "fwc_y.c": open(os.path.join(work, "fwc_y.c")).read(), "fwc.cpp": FWC_WRAPPER, "trace.txt": o.res.out[-30000:],
                            "README": "%s\nlane B runs before: %s\nfailed: %s\nreproduced: %s\nrebuild: %s\n" % (o.name, o.meta["lane_B_runs_before"], failed, info, cmd)})
                        res.violation("findOrInsert-2lanes:%s" % re.sub(r"[^A-Za-z0-9]+", "-", re.sub(r"^line \d+ ", "", mine[0]))[:70],
                                      "ConcurrentFlyweight::findOrInsert / fetch with a second lane: %s [%s; %s]" % (failed[:600], o.name, info), d)
                    else:
                        res.inconc("counterexample for %s (%s) did not reproduce natively: %s" % (o.name, failed[:300], info))
                elif o.verdict != "holds":
                    res.inconc("%s: %s" % (o.name, o.why))
                    dropped.append({"obligation": o.name, "reason": o.why[:200]})
                continue
            if "_fw" in o.meta:
                if o.verdict == "violated":
                    failed = "; ".join(sorted(set(d for n, d in o.res.failed)))
                    ok, info, vals, cmd = _fw_replay(work, pf, o)
                    if ok:
                        d = K.save_replay(PID, re.sub(r"[^A-Za-z0-9_.-]", "_", o.name), {
                            "hfw.c": open(pf["h"]).read(), "fw.cpp": FW_WRAPPER, "trace.txt": o.res.out[-30000:],
                            "README": "%s\nfailed: %s\nreproduced: %s\nrebuild: %s\n" % (o.name, failed, info, cmd)})
                        first = sorted(set(d_ for n, d_ in o.res.failed))[0]
                        res.violation("findOrInsert:%s" % re.sub(r"[^A-Za-z0-9]+", "-", first)[:60],
                                      "ConcurrentFlyweight::findOrInsert: %s [%s; %s]" % (failed, o.name, info), d)
                    else:
                        res.inconc("counterexample for %s (%s) did not reproduce natively: %s" % (o.name, failed, info))
                elif o.verdict != "holds":
                    res.inconc("%s: %s" % (o.name, o.why))
                    dropped.append({"obligation": o.name, "reason": o.why[:200]})
                continue
            pre, env, nb, keymax = o.meta["_cfg"]
            if o.verdict == "violated":
                failed = "; ".join(sorted(set(d for n, d in o.res.failed)))
                ok, info, vals, cmd = _replay(work, p, o)
                labels = ["initial key %d" % i for i in range(pre)] + [x for j in range(env) for x in ("environment key %d" % j, "yield point of environment step %d" % j)] + ["get key"]
                desc = ", ".join("%s=%s" % lv for lv in zip(labels, vals))
                if ok:
                    d = K.save_replay(PID, re.sub(r"[^A-Za-z0-9_.-]", "_", o.name), {
                        "h31.c": open(p["h"]).read(), "hm_y.c": open(os.path.join(work, "hm_y.c")).read(), "hm.cpp": WRAPPER, "trace.txt": o.res.out[-30000:],
                        "README": "%s\nfailed: %s\ninputs: %s\nreproduced: %s\nrebuild: %s\n" % (o.name, failed, desc, info, cmd)})
                    first = sorted(set(d_ for n, d_ in o.res.failed))[0]
                    res.violation("get:%s" % re.sub(r"[^A-Za-z0-9]+", "-", first)[:60],
                                  "ConcurrentInsertOnlyHashMap::get: %s [%s; %s]" % (failed, o.name, desc), d)
                else:
                    res.inconc("counterexample for %s (%s; %s) did not reproduce natively: %s" % (o.name, failed, desc, info))
            elif o.verdict != "holds":
                res.inconc("%s: %s" % (o.name, o.why))
                dropped.append({"obligation": o.name, "reason": o.why[:200]})
        held = [o for o in obls if o.verdict == "holds"]
        for o in obls:
            o.meta.pop("_cfg", None)
            o.meta.pop("_fw", None)
            o.meta.pop("_fwc", None)
        nprops = sum(o.res.n_props for o in obls if o.res)
        res.coverage = {
            "explanation": "ConcurrentInsertOnlyHashMap<SeqConcurrentLanes,int,int,identity hash>::get decided by CBMC on the IR-derived C: one query per "
                           "(initial nodes, environment insertions, buckets, key domain); inside a query the keys, the initial table and the positions "
                           "(yield points before each atomic step of get) of the environment's insertions are universally quantified. "
                           "env=0 is the sequential claim (a), env=1,2 the bounded-interference claim (b).  (c) ConcurrentFlyweight<SeqConcurrentLanes,int>::"
                           "findOrInsert, sequential: from every table of 0..3 indexed keys (symbolic keys and indices), every lane state (no reservation / "
                           "a reserved slot with its prepared node) and every NextSlot <= 6 of 8 slots: an indexed key returns its index and keeps the lane's "
                           "reservation, a fresh key gets the reserved (or next free) slot, unique among the indices, the slot points to its entry, the "
                           "reservation is consumed and NextSlot advances exactly when a slot is reserved.  (d) the same findOrInsert on lane A with a second lane B "
                           "running, as one step placed before a chosen shared access of A (every atomic access, every plain load/store through a pointer in "
                           "findOrInsert and the inlined get; the site is enumerated outside the query), a complete findOrInsert(kB) through its own lane followed "
                           "at once by fetch(returned index): the fetched key is kB (slot filled and pointing to the entry from the moment the node is published), "
                           "then A fetches its own index; equal keys get the same index and are inserted by one lane only, different keys different indices; every "
                           "key's slot points to its entry; the losing lane keeps its reservation with an empty slot that is nobody's index; the lanes never share a "
                           "reserved slot; NextSlot counts the reservations.",
            "obligations": len(obls), "discharged": len(held),
            "properties_decided": nprops,
            "exhaustive": False,
            "functions_encoded": ["souffle::ConcurrentInsertOnlyHashMap<SeqConcurrentLanes,int,int,IdHash>::get", "::node", "::weakFind (translation validation only)",
                                  "souffle::SeqConcurrentLanes::lock/unlock", "souffle::details::Factory<int>::replace",
                                  "souffle::ConcurrentFlyweight<SeqConcurrentLanes,int,IdHash>::findOrInsert (+ Handle::clear, the inlined but unreachable tryGrow), ::fetch "
                                  "(one lane sequentially; two lanes with lane B as an environment step)"],
            "atomic_steps_of_get": p["sites"],
            "source": {HDR: common.file_sha(common.repo_file(HDR)), PAR: common.file_sha(common.repo_file(PAR)), FW_HDR: common.file_sha(common.repo_file(FW_HDR))},
            "bounds": {"initial nodes": "0..3 (%s; every table state with that many nodes: distinct symbolic keys)" % ("all counts x all interference levels" if tier == "thorough" else "quick: the combinations listed in samples"),
                       "environment insertions": "<= 2, before any atomic step",
                       "buckets": "1 and 2", "keys": "0..15 (every equality / bucket pattern of <= 6 keys) and, where listed, all 32-bit keys",
                       "lanes": "the operation's lane; other lanes only through their insertions", "memory_model": "SC"},
            "queries": sum((1 if o.res else 0) + (1 if o.wres else 0) for o in obls),
            "solver_time_s": round(sum((o.res.time if o.res else 0) + (o.wres.time if o.wres else 0) for o in obls), 1),
            "translation_validation_lines": p["nlines"] + (pf["nlines"] if pf else 0) + (pc["nlines"] if pc else 0),
            "two_lane_yield_sites": ({"sites_in_findOrInsert_and_get": pc["nsites"], "reachable_on_lane_A": sorted(pc["reach"][0] | pc["reach"][1]),
                                      "by_kind": {k: sum(1 for v in pc["sites"].values() if v["kind"] == k) for k in ("atomic-write", "atomic-read", "store", "load")},
                                      "selection": "quick: lane A's writes to shared memory (atomic writes, plain stores outside node memory) + after A returned, one reservation "
                                                   "state each; thorough: every access on A's path, two complementary reservation states, writes also with no old key"} if pc else None),
            "checker_cmd": obls[0].res.cmd if obls and obls[0].res else "",
            "samples": [o.sample() for o in obls],
            "dropped_from_the_claim": dropped,
            "outside": [
                "two (or more) native CBMC threads each running get(): measured, CBMC 6.11 stops with `pointer handling for concurrency is unsound` after 2.6 s "
                "(its concurrency mode rejects dereferences of pointers read from shared memory: bucket heads, Next links); replaced by the environment-insertion model above, which is exact for what another lane's get() does to shared memory under SC",
                "growth: tryGrow (lock-all, rehash) is cut out of the IR and asserted unreachable (MaxSizeBeforeGrow = 1000); iteration across growth",
                "the constructor (ToPrime table, >= 13 buckets): the table is set up with 1 or 2 buckets by the harness",
                "ConcurrentFlyweight: more than one interfering lane step, lane B interleaved step by step (B is one atomic step: sound for what A observes, and for B's "
                "own fetch only at B's end), same-lane contention (MutexConcurrentLanes), canonical index layout (old keys 0..PRE-1, lane slots PRE, PRE+1), growth of the slot "
                "array (tryGrow, lock-all), the Iterator (iteration lists every symbol once, also across growth), setNumLanes",
                "SymbolTableImpl / RecordTableImpl (std::string keys, per-arity record maps, nil record)",
                "MutexConcurrentLanes (std::mutex): same-lane exclusion is not modelled, every lane is its own lane",
                "weak memory (acquire/release/relaxed orderings)"],
        }
        res.assumptions = [
            "sequentially consistent memory",
            "another lane's get() affects shared memory only by one atomic push of a node whose key is not in the table at that moment, followed by ++Size "
            "(this is what (b) proves for the operation itself: rely = guarantee)",
            "private access lifted by `#define private public` in the wrapper TU only; table set up by the harness instead of the constructor; operator new -> typed static pool",
            "bucket-head slots are modelled as 64-bit integers in the C model (the atomics access them as such)",
            "translation clang IR -> C validated differentially on %d output lines of sequential histories" % p["nlines"],
        ]
        if obls and len(dropped) == len(obls):
            raise EngineError("C31: no obligation could be brought to a verdict: " + "; ".join(d["reason"] for d in dropped[:3]))
    finally:
        common.rm_rf(work)
    return res

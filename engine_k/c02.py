"""C02 — compiled code agrees with the interpreter, kernels only (engine K).

(a) intrinsic operator / constraint expressions: shared with C24 (imported and re-run under this property id);
(b) index comparators: every `struct t_comparator_N` the real `souffle -g` emits for relations over i/u/f attribute
    combinations and several column orders (arity <= 3: DirectRelation; arity 7: IndirectRelation, whose comparators
    take pointers to tuples), cut verbatim from the generated C++: strict weak order,
    operator()/less/equal mutually consistent, equal to the typed lexicographic order over the index's column order,
    same tuple identity as the interpreter's index comparator (index_utils::comparator, cut from interpreter/Util.h);
(c) range-bound padding: the emitted `lowerUpperRange_*` member function (verbatim) is compiled against an abstract
    ordered-index model (lower_bound/upper_bound/find defined through the emitted comparator) and called with the bound
    tuples emitted at the call site (verbatim, with their MIN_RAM_*/MAX_RAM_* sentinels): the selected tuples are exactly
    the tuples matching the bound columns, for all bound values and all tuples;
(d) aggregates: emitted initial value / initial shouldRunNested / fold step vs Engine::initValue / runNested (verbatim)
    and vs the identity-element specification.
Float columns are checked on three domains: ordinary values (no NaN, no negative zero; finite for (c)/(d)) where
everything must hold, and the special values (negative zero, NaN, infinities) separately, so that a defect on special
values is reported under its own key and does not mask regressions on ordinary values."""
import os
import re
import time

from vlib import common
from vlib.common import EngineError, log, sh
from . import kcommon as K
from . import c24

PID = "C02"
TY = {"i": "number", "u": "unsigned", "f": "float"}

# ------------------------------------------------------------------------------------------------------------------
# generated program: relations, search patterns (one rule per pattern), aggregates
# ------------------------------------------------------------------------------------------------------------------
EDB = {"e_iuf": "iuf", "e_fui": "fui", "e_ufi": "ufi", "e_uf": "uf", "e_fi": "fi", "e_iu": "iu", "e_ff": "ff", "e_f": "f", "e_i": "i", "e_u": "u",
       # wide relations (arity > 6): the synthesiser's IndirectRelation class (comparators over tuple pointers, own range code)
       "w_iiiiiiu": "iiiiiiu", "w_ifiuiii": "ifiuiii", "w_uiifiif": "uiifiif"}
SRC = {"s1i": "i", "s1u": "u", "s1f": "f", "s2iu": "iu", "s2uf": "uf", "s2fi": "fi", "s2ff": "ff", "s2ii": "ii", "s2if": "if", "s2uf2": "uf"}
# rule: (name, source relation, edb relation, constraints [(edb column, op, source column)]); op in eq/le/ge
RULES = [
    ("o1", "s1i", "e_iuf", [(0, "eq", 0)]),
    ("o2", "s1f", "e_iuf", [(2, "eq", 0)]),
    ("o3", "s2iu", "e_iuf", [(0, "eq", 0), (1, "le", 1)]),
    ("o4", "s2uf", "e_iuf", [(1, "eq", 0), (2, "eq", 1)]),
    ("o5", "s1u", "e_fui", [(1, "eq", 0)]),
    ("o6", "s2fi", "e_fui", [(0, "eq", 0), (2, "ge", 1)]),
    ("o7", "s2uf", "e_ufi", [(0, "eq", 0), (1, "le", 1)]),
    ("o8", "s1f", "e_uf", [(1, "eq", 0)]),
    ("o9", "s1i", "e_fi", [(1, "eq", 0)]),
    ("o10", "s1i", "e_iu", [(0, "eq", 0)]),
    ("o11", "s1u", "e_iu", [(1, "ge", 0)]),
    ("o12", "s1f", "e_fi", [(0, "ge", 0)]),
    ("o13", "s1f", "e_ff", [(0, "eq", 0)]),
    ("o14", "s2ff", "e_ff", [(0, "eq", 0), (1, "le", 1)]),
    ("o15", "s1f", "e_f", [(0, "le", 0)]),
    ("o16", "s1i", "e_i", [(0, "ge", 0)]),
    ("o17", "s1u", "e_u", [(0, "le", 0)]),
    ("o18", "s2ii", "e_iuf", [(0, "ge", 0), (0, "le", 1)]),
    # wide relations: equality on the first attribute; ranges on non-first unsigned / float attributes (non-identity index orders)
    ("o19", "s1i", "w_iiiiiiu", [(0, "eq", 0)]),
    ("o20", "s1u", "w_iiiiiiu", [(6, "ge", 0)]),
    ("o21", "s1i", "w_ifiuiii", [(0, "eq", 0)]),
    ("o22", "s1f", "w_ifiuiii", [(1, "le", 0)]),
    ("o23", "s2iu", "w_ifiuiii", [(2, "eq", 0), (3, "ge", 1)]),
    ("o24", "s2if", "w_ifiuiii", [(0, "eq", 0), (1, "ge", 1)]),
    ("o25", "s1u", "w_uiifiif", [(0, "eq", 0)]),
    ("o26", "s1f", "w_uiifiif", [(6, "ge", 0)]),
    ("o27", "s2uf2", "w_uiifiif", [(0, "le", 0), (3, "eq", 1)]),
]
INTERP_ARITIES = (1, 2, 3, 7)
AGGS = [(op, t) for op in ("min", "max", "sum") for t in "iuf"] + [("mean", "f")]
AGG_ENUM = {("min", "i"): "MIN", ("min", "u"): "UMIN", ("min", "f"): "FMIN", ("max", "i"): "MAX", ("max", "u"): "UMAX", ("max", "f"): "FMAX",
            ("sum", "i"): "SUM", ("sum", "u"): "USUM", ("sum", "f"): "FSUM", ("mean", "f"): "MEAN"}


def program_text():
    out = []
    for r, ts in list(SRC.items()) + list(EDB.items()):
        out.append(".decl %s(%s)\n.input %s" % (r, ", ".join("c%d:%s" % (k, TY[t]) for k, t in enumerate(ts)), r))
    for name, src, edb, cons in RULES:
        ts = EDB[edb]
        out.append(".decl %s(%s)\n.output %s" % (name, ", ".join("c%d:%s" % (k, TY[t]) for k, t in enumerate(ts)), name))
        svars = ["y%d" % k for k in range(len(SRC[src]))]
        evars = ["x%d" % k for k in range(len(ts))]
        body = ["%s(%s)" % (src, ", ".join(svars)), "%s(%s)" % (edb, ", ".join(evars))]
        for col, op, sc in cons:
            body.append("x%d %s y%d" % (col, {"eq": "=", "le": "<=", "ge": ">="}[op], sc))
        out.append("%s(%s) :- %s." % (name, ", ".join(evars), ", ".join(body)))
    for op, t in AGGS:
        rt = "f" if op == "mean" else t
        out.append(".decl a_%s_%s(x:%s)\n.input a_%s_%s\n.decl g_%s_%s(v:%s)\n.output g_%s_%s" % (op, t, TY[t], op, t, op, t, TY[rt], op, t))
        out.append("g_%s_%s(y) :- y = %s x : { a_%s_%s(x) }." % (op, t, op, op, t))
    return "\n".join(out) + "\n"


# ------------------------------------------------------------------------------------------------------------------
# cutting the generated C++
# ------------------------------------------------------------------------------------------------------------------
class Gen:
    pass


def cut_generated(work):
    souffle = common.ensure_souffle()
    dl = os.path.join(work, "idx.dl")
    gen = os.path.join(work, "idx_gen.cpp")
    open(dl, "w").write(program_text())
    rc, out, err = sh([souffle, "-g", gen, dl], timeout=600, cwd=work)
    if rc != 0 or not os.path.exists(gen):
        raise EngineError("souffle -g failed on the generated index program: rc=%d %s" % (rc, (out + err)[-2000:]))
    txt = open(gen).read()
    g = Gen()
    g.sha = common.file_sha(gen)
    # relation -> type namespace
    g.reltype = {}
    for m in re.finditer(r"^Own<(t_btree_\w+)::Type> rel_(\w+?)_[0-9a-f]{16};", txt, re.M):
        g.reltype[m.group(2)] = m.group(1)
    g.types = {}
    for edb, ts in EDB.items():
        if edb not in g.reltype:
            raise EngineError("generated code has no relation member for %s (emission pattern `Own<t_btree_..::Type> rel_..` changed?)" % edb)
        ns = g.reltype[edb]
        if ns in g.types:
            continue
        # declaration block and definition block of the type
        blocks = re.findall(r"^namespace souffle::%s \{\n(.*?)^\} // namespace souffle::%s" % (ns, ns), txt, re.M | re.S)
        if len(blocks) != 2:
            raise EngineError("expected declaration + definition namespace blocks for %s, found %d" % (ns, len(blocks)))
        decl, defs = blocks
        stext = K.extract_braced(decl, r"\nstruct Type \{", "struct Type of " + ns).strip() + ";\n"
        comps = re.findall(r"^struct (t_comparator_\d+)\{", stext, re.M)
        inds = re.findall(r"^using t_ind_(\d+) = (btree_\w+)<(?:const t_tuple\*|t_tuple),(t_comparator_\d+)>;", stext, re.M)
        indirect = bool(re.search(r"^using t_ind_\d+ = btree_\w+<const t_tuple\*,", stext, re.M))
        if indirect != bool(re.search(r"operator\(\)\(const t_tuple \*a, const t_tuple \*b\)", stext)):
            raise EngineError("index element type and comparator parameter type of %s disagree / not recognised" % ns)
        usings = re.findall(r"^using \w+ = Type::\w+;$", defs, re.M)
        if not comps or len(comps) != len(inds):
            raise EngineError("comparators/indices of %s not recognised (%s / %s)" % (ns, comps, inds))
        orders = {}
        for m in re.finditer(r'index (\d+) lex-order \[([0-9,]*)\]', defs):
            orders[int(m.group(1))] = [int(x) for x in m.group(2).split(",") if x != ""]
        for k, kind, cmpn in inds:
            if int(k) not in orders:
                raise EngineError("lex-order of index %s of %s not found in printStatistics" % (k, ns))
        rfuncs = {}
        for m in re.finditer(r"^(range<[^\n]*?> Type::(lowerUpperRange_\d+)\(const t_tuple& lower, const t_tuple& upper, context& h\) const \{)", defs, re.M):
            rfuncs[m.group(2)] = K.extract_braced(defs[m.start():], re.escape(m.group(1)[:-1]) + r"\{", ns + "::" + m.group(2))
        t = Gen()
        t.ns, t.attr, t.struct, t.inds, t.orders, t.rfuncs = ns, ts, stext, [(int(k), kind, c) for k, kind, c in inds], orders, rfuncs
        t.short = "%s%d" % (ts, sum(1 for x in g.types.values() if x.attr == ts))
        t.indirect, t.usings = indirect, usings
        g.types[ns] = t
    # call sites
    g.calls = {}
    lines = txt.splitlines()
    for i, ln in enumerate(lines):
        m = re.match(r"^rel_(o\d+)_[0-9a-f]{16}->insert\(tuple,", ln)
        if not m:
            continue
        name = m.group(1)
        shape = [lines[i - 4], lines[i - 3], lines[i - 2], lines[i - 1]]
        mc = re.match(r"^auto range = rel_(\w+?)_[0-9a-f]{16}->(lowerUpperRange_\d+)\((.*),READ_OP_CONTEXT\(rel_\w+_op_ctxt\)\);$", shape[1])
        if not (re.match(r"^for\(const auto& env0 : \*rel_s\d\w+_[0-9a-f]{16}\) \{$", shape[0]) and mc
                and shape[2] == "for(const auto& env1 : range) {" and re.match(r"^Tuple<RamDomain,\d> tuple\{\{.*\}\};$", shape[3])):
            raise EngineError("unexpected code shape emitted for rule %s (constraints not all folded into the index bounds?):\n%s" % (name, "\n".join(shape)))
        proj = re.match(r"^Tuple<RamDomain,\d> tuple\{\{(.*)\}\};$", shape[3]).group(1)
        g.calls[name] = (mc.group(1), mc.group(2), mc.group(3), proj)
    for name, src, edb, cons in RULES:
        if name not in g.calls:
            raise EngineError("no range query found in generated code for rule %s" % name)
        if g.calls[name][0] != edb:
            raise EngineError("rule %s queries %s instead of %s" % (name, g.calls[name][0], edb))
        if g.calls[name][1] not in g.types[g.reltype[edb]].rfuncs:
            raise EngineError("definition of %s::%s not found" % (g.reltype[edb], g.calls[name][1]))
    # aggregates
    g.aggs = {}
    for i, ln in enumerate(lines):
        m = re.match(r"^rel_g_(\w+?)_([iuf])_[0-9a-f]{16}->insert\(tuple,", ln)
        if not m:
            continue
        name = m.group(1) + "_" + m.group(2)
        j = i
        while j > 0 and not lines[j].startswith("bool shouldRunNested = "):
            j -= 1
        if j == 0:
            raise EngineError("aggregate prologue not found for g_%s" % name)
        blk = lines[j:i]
        inits = [l for l in blk if re.match(r"^Ram\w+ res\d = .*;$", l)]
        try:
            k0 = next(k for k, l in enumerate(blk) if l == "shouldRunNested = true;")
            k1 = next(k for k in range(k0, len(blk)) if blk[k] == "}")
        except StopIteration:
            raise EngineError("aggregate loop body not found for g_%s" % name)
        g.aggs[name] = (blk[0], inits, blk[k0 + 1:k1])
    for op, t in AGGS:
        if "%s_%s" % (op, t) not in g.aggs or not g.aggs["%s_%s" % (op, t)][1]:
            raise EngineError("emitted aggregate code not found for %s over %s" % (op, TY[t]))
    return g


def slice_interp():
    util = common.read_repo("src/interpreter/Util.h")
    cmp_txt, _, _ = K.extract_between(util, r"// -------- generic tuple comparator ----------", r"\n\}\s*// namespace index_utils", "index_utils::comparator")
    if "struct comparator<>" not in cmp_txt or "bool less(" not in cmp_txt:
        raise EngineError("sliced interpreter comparator lacks expected members; template out of date")
    eng = common.read_repo("src/interpreter/Engine.cpp")
    initv = K.extract_braced(eng, r"\nRamDomain Engine::initValue\(const ram::Aggregator& aggregator, const Shadow& shadow, Context& ctxt\) \{", "Engine::initValue")
    nested = K.extract_braced(eng, r"\nbool runNested\(const ram::Aggregator& aggregator\) \{", "runNested")
    return cmp_txt, initv.strip(), nested.strip()


MODEL = r'''
#include "souffle/RamTypes.h"
#include "souffle/SouffleInterface.h"
#include "souffle/utility/Iteration.h"
#include "souffle/utility/MiscUtil.h"
#include "AggregateOp.h"
#include <algorithm>
#include <cstddef>
#include <ostream>
#include <vector>
/* abstract ordered index: positions are described, not stored; membership of a tuple in [from, to) is defined through the
   index's comparator: lower_bound(k) = first element not less than k, upper_bound(k) = first element greater than k,
   find(k) = the element equal to k */
namespace verif_model {
enum { K_BEGIN, K_END, K_LB, K_UB, K_AT, K_AFTER };
template <class T, class C> struct It {
    int kind; T key;
    bool operator!=(const It& o) const { return kind != o.kind; }
    bool operator==(const It& o) const { return kind == o.kind; }
    It& operator++() { kind = K_AFTER; return *this; }
    const T& operator*() const { return key; }
};
template <class T, class C> struct Index {
    using iterator = It<T, C>;
    struct operation_hints {};
    iterator begin() const { return iterator{K_BEGIN, T{}}; }
    iterator end() const { return iterator{K_END, T{}}; }
    iterator lower_bound(const T& k, operation_hints&) const { return iterator{K_LB, k}; }
    iterator upper_bound(const T& k, operation_hints&) const { return iterator{K_UB, k}; }
    iterator find(const T& k, operation_hints&) const { return iterator{K_AT, k}; }
    bool insert(const T&, operation_hints&); bool contains(const T&, operation_hints&) const; std::size_t size() const; bool empty() const;
    std::vector<souffle::range<iterator>> getChunks(std::size_t) const; void clear(); void printStats(std::ostream&) const;
};
template <class T, class C> bool member(const T& t, const souffle::range<It<T, C>>& r) {
    C c; auto x = r.begin(); auto y = r.end();
    bool ge = x.kind == K_BEGIN ? true : (x.kind == K_LB || x.kind == K_AT) ? !c.less(t, x.key) : x.kind == K_UB || x.kind == K_AFTER ? c.less(x.key, t) : false;
    bool lt = y.kind == K_END ? true : (y.kind == K_UB || y.kind == K_AFTER) ? !c.less(y.key, t) : (y.kind == K_LB || y.kind == K_AT) ? c.less(t, y.key) : false;
    return ge && lt;
}
}
'''

INTERP = r'''
namespace verif_interp_idx {
using namespace souffle;
namespace index_utils {
/* ---- verbatim from src/interpreter/Util.h ---- */
@ICMP@
}
}
namespace verif_interp_agg {
using namespace souffle;
namespace ram {
struct Aggregator { int kind; };
struct IntrinsicAggregator : Aggregator { AggregateOp f; AggregateOp getFunction() const { return f; } };
struct UserDefinedAggregator : Aggregator {};
}
template <class T> struct KindOf;
template <> struct KindOf<ram::IntrinsicAggregator> { static constexpr int k = 1; };
template <> struct KindOf<ram::UserDefinedAggregator> { static constexpr int k = 2; };
template <class T, class U> const T* as(const U& u) { return u.kind == KindOf<T>::k ? static_cast<const T*>(&u) : nullptr; }
template <class T, class U> bool isA(const U& u) { return u.kind == KindOf<T>::k; }
struct Node; struct Context {};
/* hides souffle::fatal (tinyformat/iostream): reaching it is a trap, which the harness reports */
[[noreturn]] inline void fatal(const char*, ...) { __builtin_trap(); }
struct Shadow { const Node* getInit() const { return nullptr; } };
struct Engine {
    RamDomain execute(const Node*, Context&) { __builtin_trap(); }
    RamDomain initValue(const ram::Aggregator& aggregator, const Shadow& shadow, Context& ctxt);
};
/* ---- verbatim from src/interpreter/Engine.cpp ---- */
@INITVALUE@
@RUNNESTED@
}
'''


def _args(prefix, n):
    return ", ".join("RamDomain %s%d" % (prefix, k) for k in range(n))


def build_tu(g, icmp, initv, nested):
    out = [MODEL, INTERP.replace("@ICMP@", icmp).replace("@INITVALUE@", initv).replace("@RUNNESTED@", nested)]
    kern = []
    for ns, t in g.types.items():
        out.append("namespace vs_%s {\nusing namespace souffle;\n"
                   "template <class T, class C> using btree_set = verif_model::Index<T, C>;\n"
                   "template <class T, class C> using btree_multiset = verif_model::Index<T, C>;\n"
                   "/* storage of wide (indirect) relations is not part of the kernel: the indices order pointers to tuples */\n"
                   "template <class T> struct Table {}; struct Lock {}; template <class I> using IterDerefWrapper = I;\n"
                   "/* ---- verbatim: struct Type emitted by the synthesiser ---- */\n%s" % (ns, t.struct))
        out.append("/* ---- verbatim: using-declarations of the emitted definition block ---- */\n" + "\n".join(t.usings))
        out.append("/* ---- verbatim: emitted range functions ---- */")
        for fn, body in t.rfuncs.items():
            out.append(body)
        out.append("}")
        n = len(t.attr)
        for k, kind, cmpn in t.inds:
            cid = "%s_%d" % (t.short, k)
            decl = lambda p: "const Tuple<RamDomain, %d> t%s{{%s}};" % (n, p, ", ".join("%s%d" % (p, j) for j in range(n)))
            ref = "&t%s" if t.indirect else "t%s"
            for fn, ret, call in (("cmp", "int", "c(%s, %s)"), ("less", "bool", "c.less(%s, %s)"), ("equal", "bool", "c.equal(%s, %s)")):
                kern.append("__attribute__((noinline)) %s kc_%s_%s(%s, %s) { vs_%s::Type::%s c; %s %s return %s; }"
                            % (ret, cid, fn, _args("a", n), _args("b", n), ns, cmpn, decl("a"), decl("b"), call % (ref % "a", ref % "b")))
    for n in INTERP_ARITIES:
        cols = ", ".join(str(j) for j in range(n))
        tup = lambda p: "Tuple<RamDomain, %d>{{%s}}" % (n, ", ".join("%s%d" % (p, j) for j in range(n)))
        for fn, ret, call in (("cmp", "int", "c(%s, %s)"), ("less", "bool", "c.less(%s, %s)"), ("equal", "bool", "c.equal(%s, %s)")):
            kern.append("__attribute__((noinline)) %s kic_%d_%s(%s, %s) { verif_interp_idx::index_utils::comparator<%s> c; return %s; }"
                        % (ret, n, fn, _args("a", n), _args("b", n), cols, call % (tup("a"), tup("b"))))
    for name, src, edb, cons in RULES:
        ns = g.reltype[edb]
        t = g.types[ns]
        rel, fn, args, proj = g.calls[name]
        n, m = len(t.attr), len(SRC[src])
        kern.append("__attribute__((noinline)) bool kr_%s(%s, %s) {\n  const Tuple<RamDomain, %d> env0{{%s}};\n  vs_%s::Type rel; vs_%s::Type* rel_e = &rel; vs_%s::Type::context ctxt;\n"
                    "  /* ---- verbatim: bound tuples emitted at the call site ---- */\n  auto range = rel_e->%s(%s, ctxt);\n"
                    "  const Tuple<RamDomain, %d> tt{{%s}};\n  return verif_model::member(%s, range);\n}"
                    % (name, _args("e", m), _args("t", n), m, ", ".join("e%d" % j for j in range(m)), ns, ns, ns, fn, args, n,
                       ", ".join("t%d" % j for j in range(n)), "&tt" if t.indirect else "tt"))
    for op, t in AGGS:
        name = "%s_%s" % (op, t)
        nest0, inits, fold = g.aggs[name]
        rty = re.match(r"^(Ram\w+) res0 = ", inits[0]).group(1)
        kern.append("__attribute__((noinline)) RamDomain ka_%s_init() { %s return ramBitCast(res0); }" % (name, " ".join(inits)))
        kern.append("__attribute__((noinline)) bool ka_%s_nested0() { %s return shouldRunNested; }" % (name, nest0))
        if op != "mean":
            kern.append("__attribute__((noinline)) RamDomain ka_%s_step(RamDomain r, RamDomain x) { const Tuple<RamDomain, 1> env0{{x}}; %s res0 = ramBitCast<%s>(r); %s return ramBitCast(res0); }"
                        % (name, rty, rty, " ".join(fold)))
        kern.append("__attribute__((noinline)) RamDomain kia_%s_init() { using namespace verif_interp_agg; ram::IntrinsicAggregator ia; ia.kind = 1; ia.f = AggregateOp::%s; "
                    "Engine e; Shadow s; Context c; return e.initValue(ia, s, c); }" % (name, AGG_ENUM[(op, t)]))
        kern.append("__attribute__((noinline)) bool kia_%s_nested0() { using namespace verif_interp_agg; ram::IntrinsicAggregator ia; ia.kind = 1; ia.f = AggregateOp::%s; "
                    "return runNested(ia); }" % (name, AGG_ENUM[(op, t)]))
    KERNEL_TEXT[0] = "\n".join(kern)
    out.append('using namespace souffle;\nextern "C" {\n%s\n}' % "\n".join(kern))
    return "\n".join(out)


# ------------------------------------------------------------------------------------------------------------------
# checks (shared by the CBMC harness and the native replay driver)
# ------------------------------------------------------------------------------------------------------------------
def _tless(t, x, y):
    return {"i": "SLT(%s, %s)", "u": "ULT(%s, %s)", "f": "flt(%s, %s)"}[t] % (x, y)


def _lexless(attr, order, a, b):
    e = "0"
    for col in reversed(order):
        x, y = "%s[%d]" % (a, col), "%s[%d]" % (b, col)
        e = "(%s || (%s == %s && %s))" % (_tless(attr[col], x, y), x, y, e)
    return e


def _fdom(cols, arrs, variant):
    """domain restriction of the float cells for a variant"""
    conds = []
    for arr, col in ((a, c) for a in arrs for c in cols):
        x = "%s[%d]" % (arr, col)
        if variant == "ordinary":
            conds.append("(!fnan(%s) && %s != 0x80000000u)" % (x, x))
        elif variant == "finite":
            conds.append("(((%s >> 23) & 0xff) != 0xff && %s != 0x80000000u)" % (x, x))
        elif variant == "signed-zero":
            conds.append("(!fnan(%s))" % x)
        elif variant == "nan":
            conds.append("(%s != 0x80000000u)" % x)
        elif variant == "inf":
            conds.append("(!fnan(%s) && %s != 0x80000000u)" % (x, x))
    return " && ".join(conds) if conds else "1"


class Check:
    def __init__(self, cid, group, nin, body, doms, what, meta):
        self.cid, self.group, self.nin, self.body, self.doms, self.what, self.meta = cid, group, nin, body, doms, what, meta
        # doms: {variant: (domain expr over IN[], finding key or None)}


def build_checks(g):
    checks = []
    # (b) emitted comparators
    for ns, t in g.types.items():
        n = len(t.attr)
        fcols_all = [j for j in range(n) if t.attr[j] == "f"]
        for k, kind, cmpn in t.inds:
            cid = "%s_%d" % (t.short, k)
            order = t.orders[k]
            full = sorted(order) == list(range(n))
            call = lambda fn, x, y: "K(kc_%s_%s(%s, %s))" % (cid, fn, ", ".join("%s[%d]" % (x, j) for j in range(n)), ", ".join("%s[%d]" % (y, j) for j in range(n)))
            seq = lambda x, y: " && ".join("%s[%d] == %s[%d]" % (x, c, y, c) for c in order)
            b = ["const uint32_t *a = IN, *b = IN + %d, *c = IN + %d;" % (n, 2 * n),
                 "int cab = (int32_t)%s, cba = (int32_t)%s;" % (call("cmp", "a", "b"), call("cmp", "b", "a")),
                 "int lab = %s & 1, lba = %s & 1, lbc = %s & 1, lcb = %s & 1, lac = %s & 1, lca = %s & 1, laa = %s & 1;" % (
                     call("less", "a", "b"), call("less", "b", "a"), call("less", "b", "c"), call("less", "c", "b"), call("less", "a", "c"),
                     call("less", "c", "a"), call("less", "a", "a")),
                 "int eab = %s & 1, eaa = %s & 1;" % (call("equal", "a", "b"), call("equal", "a", "a")),
                 'CHECK(!laa, "less is irreflexive");',
                 'CHECK(!(lab && lba), "less is asymmetric");',
                 'CHECK(!(lab && lbc) || lac, "less is transitive");',
                 'CHECK(!(!lab && !lba && !lbc && !lcb) || (!lac && !lca), "incomparability is transitive (strict weak order)");',
                 'CHECK((cab < 0) == lab && (cab > 0) == lba, "operator() agrees with less");',
                 'CHECK((cab == 0) == eab, "operator() == 0 agrees with equal");',
                 'CHECK((cab < 0) == (cba > 0) && (cab == 0) == (cba == 0), "operator() is antisymmetric");',
                 'CHECK(eaa, "equal is reflexive");',
                 'CHECK(lab == (%s), "less is the typed lexicographic order over columns %s");' % (_lexless(t.attr, order, "a", "b"), order),
                 'CHECK(eab == (%s), "equal is cell identity on the index columns %s");' % (seq("a", "b"), order)]
            if full:
                enc = lambda x: ", ".join("%s[%d]" % (x, j) for j in range(n))
                b.append('CHECK(eab == (K(kic_%d_equal(%s, %s)) & 1), "same tuple identity as the interpreter index comparator");' % (n, enc("a"), enc("b")))
            fcols = [c for c in order if t.attr[c] == "f"]
            doms = {"ordinary": (_fdom(fcols_all, ("a", "b", "c"), "ordinary"), None)}
            if fcols:
                doms["signed-zero"] = (_fdom(fcols_all, ("a", "b", "c"), "signed-zero"), "cmp-float-signed-zero")
                doms["nan"] = (_fdom(fcols_all, ("a", "b", "c"), "nan"), "cmp-float-nan")
            checks.append(Check("cmp_" + cid, "comparator", 3 * n, b, doms,
                                "emitted %s::%s over %s, lex-order %s" % (ns, cmpn, "/".join(TY[x] for x in t.attr), order),
                                {"relation_type": ns, "relation_class": "indirect (wide)" if t.indirect else "direct", "comparator": cmpn,
                                 "attribute_types": t.attr, "lex_order": order, "full_index": full}))
    # interpreter comparators
    for n in INTERP_ARITIES:
        call = lambda fn, x, y: "K(kic_%d_%s(%s, %s))" % (n, fn, ", ".join("%s[%d]" % (x, j) for j in range(n)), ", ".join("%s[%d]" % (y, j) for j in range(n)))
        order = list(range(n))
        b = ["const uint32_t *a = IN, *b = IN + %d, *c = IN + %d;" % (n, 2 * n),
             "int cab = (int32_t)%s, cba = (int32_t)%s;" % (call("cmp", "a", "b"), call("cmp", "b", "a")),
             "int lab = %s & 1, lba = %s & 1, lbc = %s & 1, lcb = %s & 1, lac = %s & 1, lca = %s & 1, laa = %s & 1, eab = %s & 1;" % (
                 call("less", "a", "b"), call("less", "b", "a"), call("less", "b", "c"), call("less", "c", "b"), call("less", "a", "c"),
                 call("less", "c", "a"), call("less", "a", "a"), call("equal", "a", "b")),
             'CHECK(!laa && !(lab && lba), "less is irreflexive and asymmetric");',
             'CHECK(!(lab && lbc) || lac, "less is transitive");',
             'CHECK(!(!lab && !lba && !lbc && !lcb) || (!lac && !lca), "incomparability is transitive (strict weak order)");',
             'CHECK((cab < 0) == lab && (cab > 0) == lba && (cab == 0) == eab, "operator(), less and equal agree");',
             'CHECK((cab < 0) == (cba > 0), "operator() is antisymmetric");',
             'CHECK(lab == (%s), "less is the signed lexicographic order of the cells");' % _lexless("i" * n, order, "a", "b"),
             'CHECK(eab == (%s), "equal is cell identity");' % " && ".join("a[%d] == b[%d]" % (j, j) for j in range(n))]
        checks.append(Check("icmp_%d" % n, "interpreter-comparator", 3 * n, b, {"all": ("1", None)},
                            "interpreter index_utils::comparator<%s>" % ",".join(map(str, order)), {"arity": n}))
    # (c) ranges
    for name, src, edb, cons in RULES:
        ns = g.reltype[edb]
        t = g.types[ns]
        n, m = len(t.attr), len(SRC[src])
        match = []
        for col, op, sc in cons:
            x, y, ty = "t[%d]" % col, "e[%d]" % sc, t.attr[col]
            if op == "eq":
                match.append("%s == %s" % (x, y))
            elif op == "le":
                match.append("!%s" % _tless(ty, y, x))
            else:
                match.append("!%s" % _tless(ty, x, y))
        b = ["const uint32_t *e = IN, *t = IN + %d;" % m,
             "int sel = K(kr_%s(%s, %s)) & 1;" % (name, ", ".join("e[%d]" % j for j in range(m)), ", ".join("t[%d]" % j for j in range(n))),
             "int want = (%s);" % " && ".join(match),
             'CHECK(!want || sel, "every tuple matching the bound columns is inside the emitted index range");',
             'CHECK(!sel || want, "every tuple inside the emitted index range matches the bound columns");']
        fe = [j for j in range(m) if SRC[src][j] == "f"]
        ft = [j for j in range(n) if t.attr[j] == "f"]
        dom = lambda v: " && ".join(x for x in (_fdom(fe, ("e",), v), _fdom(ft, ("t",), v)) if x != "1") or "1"
        doms = {"finite": (dom("finite"), None)}
        if ft or fe:
            doms["inf"] = (dom("inf"), "pad-float-inf")
        desc = "%s(..) :- %s(y..), %s(x..), %s" % (name, src, edb, ", ".join("x%d %s y%d" % (c, {"eq": "=", "le": "<=", "ge": ">="}[o], s) for c, o, s in cons))
        checks.append(Check("range_" + name, "range", m + n, b, doms, desc,
                            {"rule": desc, "relation_type": ns, "range_function": g.calls[name][1], "emitted_bounds": g.calls[name][2]}))
    # (d) aggregates
    fold = {"min": lambda t, r, x: "(%s ? %s : %s)" % (_tless(t, x, r), x, r), "max": lambda t, r, x: "(%s ? %s : %s)" % (_tless(t, r, x), x, r),
            "sum": lambda t, r, x: "B(Fl(%s) + Fl(%s))" % (r, x) if t == "f" else "(uint32_t)(%s + %s)" % (r, x)}
    for op, t in AGGS:
        name = "%s_%s" % (op, t)
        same = "same_float" if t == "f" else "same_bits"
        b = ["uint32_t r = IN[0], x = IN[1];", "uint32_t si = K(ka_%s_init()), ii = K(kia_%s_init());" % (name, name),
             'CHECK(si == ii, "emitted initial value equals the interpreter initValue");',
             'CHECK((K(ka_%s_nested0()) & 1) == (K(kia_%s_nested0()) & 1), "emitted initial shouldRunNested equals the interpreter runNested");' % (name, name)]
        doms = {"finite": (_fdom([0, 1] if t == "f" else [], ("IN",), "finite"), None)}
        if op != "mean":
            b += ["uint32_t st = K(ka_%s_step(r, x));" % name,
                  'CHECK(%s(st, %s), "emitted fold step equals the aggregate specification");' % (same, fold[op](t, "r", "x")),
                  'CHECK(%s(K(ka_%s_step(si, x)), x), "the initial value is an identity element of the fold");' % (same, name)]
            if t == "f" and op in ("min", "max"):
                doms["inf"] = (_fdom([0, 1], ("IN",), "inf"), "agg-init-float-inf")
        checks.append(Check("agg_" + name, "aggregate", 2, b, doms, "%s over %s" % (op, TY[t]),
                            {"aggregate": op, "type": TY[t], "emitted_init": g.aggs[name][1], "emitted_fold": g.aggs[name][2]}))
    return checks


def _cells(text, offs):
    """a[k] / b[k] / c[k] / e[k] / t[k] -> IN[offset + k]: constant indices into one global array (no pointer checks needed)"""
    return re.sub(r"\b([abcet])\[(\d+)\]", lambda m: "IN[%d]" % (offs[m.group(1)] + int(m.group(2))), text)


KERNEL_TEXT = [""]


def checks_header(checks):
    out = ["/* generated: checks shared by the CBMC harness and the native replay driver */", "uint32_t IN[32];"]
    protos = set()
    for c in checks:
        for m in re.finditer(r"\b(k[a-z]+_\w+?)\(", "\n".join(c.body)):
            protos.add(m.group(1))
    for p in sorted(protos):
        # full prototypes: bool kernels return only the low byte, and 14-argument calls need the parameter list
        m = re.search(r"__attribute__\(\(noinline\)\) (\w+) %s\(([^)]*)\)" % re.escape(p), KERNEL_TEXT[0])
        if not m:
            raise EngineError("kernel %s used by a check is not defined in the wrapper TU" % p)
        nargs = len([a for a in m.group(2).split(",") if a.strip() and a.strip() != "void"])
        out.append("%s %s(%s);" % ("uint8_t" if m.group(1) == "bool" else "uint32_t", p, ", ".join(["uint32_t"] * nargs) or "void"))
    for c in checks:
        n3 = c.nin // 3
        offs = {"a": 0, "b": n3, "c": 2 * n3, "e": 0, "t": c.meta.get("_m", 0)}
        body = [l for l in c.body if not l.startswith("const uint32_t *")]
        out.append("static void chk_%s(void) {\n  %s\n}" % (c.cid, _cells("\n  ".join(body), offs)))
        for v, (dom, key) in c.doms.items():
            out.append("static int dom_%s_%s(void) { return %s; }" % (c.cid, v.replace("-", "_"), _cells(dom, offs)))
    return "\n".join(out) + "\n"


HARNESS = r'''
#include "verif_rt.h"
#include "c24_spec.h"
/* the translated kernels (k02.c) are compiled once per run into the goto binary k02.gb, which is passed to cbmc
   next to this harness (parsing the kernels for every query dominated the run time) */
#define K(x) ((uint32_t)(x))
#define CHECK(c, msg) __CPROVER_assert(c, msg)
uint32_t nondet_u32(void);
@INDECL@
#include "c02_checks.h"
int main(void) {
@INASSIGN@
  __CPROVER_assume(dom_@CID@_@VAR@());
  chk_@CID@();
#ifdef WITNESS
  __CPROVER_assert(0, "witness");
#endif
  return 0;
}
'''

DRIVER = r'''
#include <stdio.h>
#include <stdlib.h>
#include <string.h>
#include "c24_spec.h"
/* referenced by header-level destructors in the translated C; only the generated-C build lacks it */
__attribute__((weak)) void _ZdlPv(void* p) { free(p); }
static uint32_t khash; static int bad; static int verbose;
static uint32_t krec(uint32_t v) { khash = khash * 16777619u ^ v; return v; }
#define K(x) krec((uint32_t)(x))
#define CHECK(c, msg) do { if (!(c)) { bad = 1; if (verbose) printf("CHECK-FAILED: %s\n", msg); } } while (0)
#include "c02_checks.h"
typedef void (*chk_t)(void); typedef int (*dom_t)(void);
static const struct { const char* cid; const char* var; int nin; chk_t chk; dom_t dom; } T[] = { @TABLE@ };
static const uint32_t BV[] = { @BV@ };
#define NBV (sizeof(BV) / sizeof(BV[0]))
int main(int argc, char** argv) {
  if (argc >= 4 && !strcmp(argv[1], "one")) {
    verbose = 1;
    for (unsigned k = 0; k < sizeof(T) / sizeof(T[0]); k++) if (!strcmp(T[k].cid, argv[2]) && !strcmp(T[k].var, argv[3])) {
      for (int i = 0; i < T[k].nin && 4 + i < argc; i++) IN[i] = (uint32_t)strtoul(argv[4 + i], 0, 0);
      if (!T[k].dom()) { printf("outside the domain of the obligation\n"); return 0; }
      T[k].chk();
      if (bad) { printf("MISMATCH\n"); return 3; }
      printf("all checks hold for this input\n"); return 0;
    }
    printf("unknown obligation\n"); return 2;
  }
  unsigned s = 2463534242u;
  for (unsigned k = 0; k < sizeof(T) / sizeof(T[0]); k++) {
    for (int it = 0; it < 400; it++) {
      for (int i = 0; i < T[k].nin; i++) { s = s * 1103515245u + 12345u; IN[i] = (s >> 30) ? BV[(s >> 8) % NBV] : ((s >> 8) ^ (s << 11)); }
      if (!T[k].dom()) continue;
      khash = 2166136261u; bad = 0; T[k].chk();
      printf("%s/%s %d %x\n", T[k].cid, T[k].var, it, khash);
    }
  }
  return 0;
}
'''


def prepare(work):
    g = cut_generated(work)
    icmp, initv, nested = slice_interp()
    cpp = os.path.join(work, "k02.cpp")
    open(cpp, "w").write(build_tu(g, icmp, initv, nested))
    open(os.path.join(work, "c24_spec.h"), "w").write(c24.SPEC_H)
    ll = c24.strip_personality(K.lower(cpp, os.path.join(work, "k02.ll")))
    c = K.translate(ll, os.path.join(work, "k02.c"))
    checks = build_checks(g)
    for ck in checks:
        if ck.group == "range":
            ck.meta["_m"] = len(SRC[[r for r in RULES if "range_" + r[0] == ck.cid][0][1]])
    hdr = checks_header(checks)
    open(os.path.join(work, "c02_checks.h"), "w").write(hdr)
    kk = os.path.join(work, "k02_unit.c")
    open(kk, "w").write('#include "verif_rt.h"\n#define VERIF_NO_EXTERN_DECLS\n#include "k02.c"\n')
    rc, out, err = sh(["goto-cc", "-c", "-I", K.HERE, "-I", work, kk, "-o", os.path.join(work, "k02.gb")], timeout=300)
    if rc != 0 or not os.path.exists(os.path.join(work, "k02.gb")):
        raise EngineError("goto-cc failed on the translated kernels: " + (out + err)[-1500:])
    table = ", ".join('{"%s", "%s", %d, chk_%s, dom_%s_%s}' % (ck.cid, v, ck.nin, ck.cid, ck.cid, v.replace("-", "_")) for ck in checks for v in ck.doms)
    drv = os.path.join(work, "drv02.c")
    open(drv, "w").write(DRIVER.replace("@TABLE@", table).replace("@BV@", ", ".join("0x%xu" % v for v in c24.BOUNDARY)))
    nlines = K.differential(work, drv, c, cpp, extra_c=["-D__dso_handle=verif_dso_handle"], timeout=600)
    return g, checks, cpp, c, nlines


def obligations(work, checks, tier, only=None):
    obls = []
    for ck in checks:
        for v, (dom, key) in ck.doms.items():
            name = "%s/%s/%s" % (ck.group, ck.cid, v)
            if only and only not in name:
                continue
            if tier == "quick" and ck.group == "comparator" and key and ck.meta.get("relation_class", "").startswith("indirect"):
                continue   # float special-value domains (known findings) of the wide comparators: thorough tier only
            h = os.path.join(work, "h02_%s_%s.c" % (ck.cid, v.replace("-", "_")))
            txt = (HARNESS.replace("@NIN@", str(ck.nin)).replace("@CID@", ck.cid).replace("@VAR@", v.replace("-", "_"))
                   .replace("@INDECL@", "uint32_t %s;" % ", ".join("IN%d" % i for i in range(ck.nin)))
                   .replace("@INASSIGN@", "\n".join("  IN%d = nondet_u32(); IN[%d] = IN%d;" % (i, i, i) for i in range(ck.nin))))
            open(h, "w").write(txt)
            meta = dict(ck.meta)
            meta.pop("_m", None)
            meta.update({"what": ck.what, "float_domain": v, "_ck": ck, "_var": v, "_key": key})
            obls.append(K.Obligation(name, [h, os.path.join(work, "k02.gb")], unwind=6, timeout=60 if tier == "quick" else 600, includes=[work], meta=meta))
    return obls

BATCH_HARNESS = r'''
#include "verif_rt.h"
#include "c24_spec.h"
#define K(x) ((uint32_t)(x))
#define CHECK(c, msg) __CPROVER_assert(c, msg)
uint32_t nondet_u32(void);
#include "c02_checks.h"
int main(void) {
@BLOCKS@
  return 0;
}
'''


def run_batched(work, obls, tier, jobs=6, size=8):
    """Decide several obligations (different checks, same group and float domain) in one CBMC query: the fixed cost of
    a CBMC start dominates these small queries.  Properties are attributed to a check through the name of its chk_
    function; a check counts as discharged only if all its properties succeed AND its own witness assertion is
    violated in the -DWITNESS twin.  Everything else (a failed or unattributable property, a capped run) falls back to
    the one-obligation-per-query path, which also produces the counterexample trace used for replay."""
    import concurrent.futures as cf
    groups = {}
    for o in obls:
        groups.setdefault((o.meta["_ck"].group, o.meta["_var"]), []).append(o)
    batches = []
    for key in sorted(groups):
        lst = groups[key]
        for i in range(0, len(lst), size):
            batches.append(lst[i:i + size])
    gb = os.path.join(work, "k02.gb")
    stats = {"batch_queries": 0, "batched_obligations": 0}

    def one(idx_b):
        idx, b = idx_b
        blocks = []
        for o in b:
            ck, v = o.meta["_ck"], o.meta["_var"].replace("-", "_")
            blocks.append("  { %s\n    if (dom_%s_%s()) {\n      chk_%s();\n#ifdef WITNESS\n      __CPROVER_assert(0, \"witness %s\");\n#endif\n    } }"
                          % (" ".join("IN[%d] = nondet_u32();" % i for i in range(ck.nin)), ck.cid, v, ck.cid, ck.cid))
        h = os.path.join(work, "hb02_%d.c" % idx)
        open(h, "w").write(BATCH_HARNESS.replace("@BLOCKS@", "\n".join(blocks)))
        to = (60 if tier == "quick" else 600)
        r = K.cbmc([h, gb], unwind=6, timeout=to, includes=[work], trace=False, extra=["--object-bits", "12"])
        n = 1
        if r.status not in ("success", "failed"):
            return b, n
        bad = set()
        for pname, desc in r.failed:
            m = re.match(r"chk_(\w+)\.assertion\.\d+$", pname)
            if not m:
                return b, n          # failure inside a kernel or helper: decide every obligation separately
            bad.add(m.group(1))
        w = K.cbmc([h, gb], defines=["WITNESS"], unwind=6, timeout=to, includes=[work], trace=False, extra=["--object-bits", "12"])
        n = 2
        if w.status != "failed":
            return b, n
        reached = set()
        for pname, desc in w.failed:
            m = re.search(r"\bwitness (\w+)$", desc)
            if m and pname.startswith("main."):
                reached.add(m.group(1))
                continue
            m = re.match(r"chk_(\w+)\.assertion\.\d+$", pname)
            if not (m and m.group(1) in bad):
                return b, n
        left = []
        for o in b:
            cid = o.meta["_ck"].cid
            if cid in bad or cid not in reached:
                left.append(o)
            else:
                o.verdict, o.res, o.wres = "holds", r, w
                o.meta["decided_in_batch_of"] = len(b)
        return left, n

    with cf.ThreadPoolExecutor(max_workers=jobs) as ex:
        results = list(ex.map(one, enumerate(batches)))
    left = []
    for l, n in results:
        left += l
        stats["batch_queries"] += n
    stats["batched_obligations"] = len(obls) - len(left)
    K.run_all(left, jobs=jobs)
    stats["single_queries"] = sum((1 if o.res else 0) + (1 if o.wres else 0) for o in left)
    return stats


def _bits(r, nm):
    v = r.trace_values([nm]).get(nm)
    if not v:
        return None
    if v[1]:
        return int(v[1].replace(" ", ""), 2)
    try:
        return int(v[0].rstrip("uUlL")) & 0xffffffff
    except ValueError:
        return None


def _fmt(v, ty=None):
    import struct
    s = "0x%08x" % v
    if ty == "f":
        s += "(%r)" % struct.unpack("<f", struct.pack("<I", v))[0]
    return s


def triage(work, obls, res, cpp):
    native = os.path.join(work, "diff_real")
    seen = {}
    instances = {}
    for o in obls:
        ck, var, key = o.meta["_ck"], o.meta["_var"], o.meta["_key"]
        if o.verdict == "violated":
            failed = "; ".join(sorted(set(d for n, d in o.res.failed)))
            vals = [_bits(o.res, "IN%d" % i) for i in range(ck.nin)]
            if any(v is None for v in vals):
                res.inconc("counterexample for %s (%s) but inputs could not be read from the trace" % (o.name, failed))
                continue
            rc, out, err = sh([native, "one", ck.cid, var] + ["0x%x" % v for v in vals], timeout=30)
            if rc == 3 and "MISMATCH" in out:
                k = key or ("%s:%s" % (ck.group, ck.cid))
                instances.setdefault(k, []).append(o.name)
                if k in seen:
                    continue
                seen[k] = True
                d = K.save_replay(PID, re.sub(r"[^A-Za-z0-9_.-]", "_", o.name), {
                    "k02.cpp": open(cpp).read(), "drv02.c": open(os.path.join(work, "drv02.c")).read(),
                    "c02_checks.h": open(os.path.join(work, "c02_checks.h")).read(), "c24_spec.h": c24.SPEC_H, "trace.txt": o.res.out[-20000:],
                    "README": "%s\n%s\nfailed: %s\ninputs: %s\nnative run of the real wrapper:\n%s\nrebuild: gcc -c -w -I. drv02.c -o drv.o && "
                              "g++ -std=c++17 -O1 -w -I %s/src/include -I %s/src drv.o k02.cpp -o replay && ./replay one %s %s %s\n"
                              % (o.name, ck.what, failed, " ".join("0x%08x" % v for v in vals), out.strip(), common.REPO, common.REPO, ck.cid, var,
                                 " ".join("0x%x" % v for v in vals))})
                res.violation(k, "%s [%s]: %s; inputs %s; native: %s" % (ck.what, o.name, failed, " ".join("0x%08x" % v for v in vals),
                                                                     " | ".join(out.strip().splitlines()[:3])), d)
            else:
                res.inconc("counterexample for %s (%s) with inputs %s did not reproduce natively (rc=%d %s)" % (
                    o.name, failed, " ".join("0x%08x" % v for v in vals), rc, out.strip()[-200:]))
        elif o.verdict != "holds":
            res.inconc("%s: %s" % (o.name, o.why))
    return instances


def run(tier, seed, only=None):
    res = common.Result(PID, "other")
    work = common.scratch_dir("c02")
    work24 = common.scratch_dir("c02a")
    try:
        t0 = time.time()
        # (a) shared with C24
        obls_a, p24 = [], None
        # --only ops[:<substr>] restricts to part (a); any other --only value restricts parts (b)(c)(d) and skips (a)
        if not only or only.startswith("ops"):
            p24 = c24.prepare(work24, tier, seed, only[4:] if only and only.startswith("ops:") else None)
            obls_a = c24.obligations(p24, tier)
        g, checks, cpp, c, nlines = prepare(work)
        obls = [] if (only and only.startswith("ops")) else obligations(work, checks, tier, only)
        K.run_all(obls_a, jobs=6)
        bstats = run_batched(work, obls, tier, jobs=6)
        if p24:
            c24.triage(p24, obls_a, res, pid=PID)
        instances = triage(work, obls, res, cpp)
        held = [o for o in obls_a + obls if o.verdict == "holds"]
        samples = []
        for o in obls:
            s = o.sample()
            for k in ("_ck", "_var", "_key"):
                s.pop(k, None)
            samples.append(s)
        for o in obls_a:
            o.meta.pop("_op", None)
        for o in obls:
            for k in ("_ck", "_var", "_key"):
                o.meta.pop(k, None)
        groups = {}
        for o in obls:
            gname = o.name.split("/")[0]
            groups.setdefault(gname, [0, 0])
            groups[gname][0] += 1
            groups[gname][1] += 1 if o.verdict == "holds" else 0
        srcs = ("src/synthesiser/Synthesiser.cpp", "src/synthesiser/Relation.cpp", "src/interpreter/Util.h", "src/interpreter/Index.h",
                "src/interpreter/Engine.cpp", "src/include/souffle/RamTypes.h")
        res.coverage = {
            "explanation": "kernel-level agreement of compiled code and interpreter: (a) %d operator/constraint expressions (C24 machinery), "
                           "(b) %d emitted comparators (direct and indirect relation classes) + interpreter comparators, (c) %d emitted range queries against an abstract ordered-index model, "
                           "(d) %d aggregates; one CBMC query per (kernel, float domain) over all 32-bit cells; every query has a witness twin"
                           % (len(obls_a), sum(1 for c_ in checks if c_.group == "comparator"), sum(1 for c_ in checks if c_.group == "range"),
                              sum(1 for c_ in checks if c_.group == "aggregate")),
            "obligations": len(obls_a) + len(obls), "discharged": len(held),
            "by_group": dict({k: {"obligations": v[0], "discharged": v[1]} for k, v in groups.items()},
                             **({"operators(C24)": {"obligations": len(obls_a), "discharged": sum(1 for o in obls_a if o.verdict == "holds")}} if obls_a else {})),
            "finding_instances": instances,
            "checker_cmd": (obls or obls_a)[0].res.cmd if (obls or obls_a) and (obls or obls_a)[0].res else "",
            "functions_encoded": ["emitted struct t_comparator_N::{operator(),less,equal} of %d relation types" % len(g.types),
                                  "emitted Type::lowerUpperRange_* member functions and call-site bound tuples of %d rules" % len(RULES),
                                  "emitted aggregate prologue/fold of %d aggregates" % len(AGGS),
                                  "interpreter index_utils::comparator (Util.h)", "Engine::initValue", "runNested"] +
                                 (["C24 operator kernels: %d" % len(obls_a)] if obls_a else []),
            "source": {s: common.file_sha(common.repo_file(s)) for s in srcs},
            "generated_cpp_sha": g.sha,
            "relation_types": sorted(g.types),
            "bounds": {"arity": "<= 3 (direct relations) and 7 (indirect/wide relations)", "attribute_types": "i/u/f", "cells": "all 32-bit values (float special values in separate obligations)", "unwind": 6},
            "queries": sum((1 if o.res else 0) + (1 if o.wres else 0) for o in obls_a) + bstats["batch_queries"] + bstats["single_queries"],
            "batching": bstats,
            "solver_time_s": round(sum(r.time for r in set(x for o in obls_a + obls for x in (o.res, o.wres) if x is not None)), 1),
            "translation_validation_lines": nlines + (p24.nlines if p24 else 0),
            "samples": samples[:4] + [s for s in samples if s["obligation"].startswith("range/")][:3] + [s for s in samples if s["obligation"].startswith("aggregate/")][:2],
            "outside": ["generated loop nests, relation wrapper classes beyond lowerUpperRange_*, multi-file splitting (-C/-G), souffle-compile.py",
                        "the B-tree itself: lower_bound/upper_bound/find are modelled abstractly through the emitted comparator (C25 not applicable)",
                        "interpreter-side bound construction (CAL_SEARCH_BOUND / Order::encode) — C08",
                        "strict inequalities and multiple inequalities per query (emitted as weak bound + residual filter; only weak single bounds are generated here)",
                        "parallel-aggregate reduction expression and record pack/unpack order (DESIGN C02 d/e): not emitted by the sequential -g programs used here",
                        "eqrel / brie representations"],
        }
        res.assumptions = [
            "the B-tree implements an ordered set/multiset w.r.t. the emitted comparator (lower_bound = first element not less, upper_bound = first element greater)",
            "float special values (NaN, negative zero, infinities) are separated into their own obligations",
            "the column order of each index is read from the emitted printStatistics text; the search-pattern semantics is checked against it in (c)",
            "translation clang IR -> C validated differentially on %d output lines" % (nlines + (p24.nlines if p24 else 0)),
        ] + (["(a): " + a for a in [
            "defined domain per operator as in C24 (signed overflow, division by zero, out-of-range float->integer excluded)"]] if obls_a else [])
    finally:
        common.rm_rf(work)
        common.rm_rf(work24)
    return res

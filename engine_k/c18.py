"""C18 — fact input accepts exactly valid, in-range numeric literals (engine K, string kernels).

Real code, sliced verbatim: RamSignedFromString, RamUnsignedFromString, canBeParsedAsRamSigned, canBeParsedAsRamUnsigned,
isPrefix (src/include/souffle/utility/StringUtil.h); readRamUnsigned, the 'i' / 'u' cases and the
`charactersRead != element.size()` completeness test of ReadStreamCSV::readNextTuple (src/include/souffle/io/ReadStreamCSV.h).
std::string -> bounded vstd::string, std::sto* -> strtol-style model (c17_vstd.h), throw -> verif_throw().
For EVERY byte string of <= L bytes CBMC decides: accepted => complete valid in-range literal (lenient grammar) and the stored
value is the literal's value; strict valid in-range literal => accepted; no assert()/abort is reachable.
Counterexamples are replayed on the natively compiled real ReadStreamCSV / StringUtil with real std::string."""
import os
import random
import re
import time

from vlib import common
from vlib.common import EngineError, log, sh
from . import kcommon as K

PID = "C18"
SRC_SU = "src/include/souffle/utility/StringUtil.h"
SRC_CSV = "src/include/souffle/io/ReadStreamCSV.h"
VSTD = os.path.join(K.HERE, "c17_vstd.h")

KINDS = ["fact-signed", "fact-unsigned", "text-signed", "text-unsigned"]
# input classes that can be excluded by assumption once reported (class id -> stable key suffix)
CLASSES = {
    0: "other",
    1: "empty-field",
    2: "sign-or-space-after-0b-prefix",
    3: "unsigned-minus-after-whitespace",
    4: "unsigned-out-of-range",
}


def _rewrite(txt):
    """std:: -> vstd:: in the pasted slice only; throw -> verif_throw()"""
    txt = re.sub(r"throw\s+std::\w+\s*\((?:[^;])*\);", "verif_throw();", txt, flags=re.S)
    txt = re.sub(r"\bstd::string\b", "vstd::string", txt)
    txt = re.sub(r"\bstd::(stoi|stol|stoll|stoul|stoull)\b", r"vstd::\1", txt)
    txt = re.sub(r"\bstd::stringstream\b", "vstd::stringstream", txt)
    if re.search(r"\bthrow\b", txt):
        raise EngineError("unhandled throw expression in slice:\n" + txt[:400])
    return txt


def _slices():
    su = common.read_repo(SRC_SU)
    csv = common.read_repo(SRC_CSV)
    f = {}
    f["isPrefix"] = K.extract_braced(su, r"inline bool isPrefix\(const std::string& prefix, const std::string& element\)\s*\{", "isPrefix")
    f["RamSignedFromString"] = K.extract_braced(su, r"inline RamSigned RamSignedFromString\(", "RamSignedFromString")
    f["RamUnsignedFromString"] = K.extract_braced(su, r"inline RamUnsigned RamUnsignedFromString\(", "RamUnsignedFromString")
    f["canBeParsedAsRamSigned"] = K.extract_braced(su, r"inline bool canBeParsedAsRamSigned\(", "canBeParsedAsRamSigned")
    f["canBeParsedAsRamUnsigned"] = K.extract_braced(su, r"inline bool canBeParsedAsRamUnsigned\(", "canBeParsedAsRamUnsigned")
    f["readRamUnsigned"] = K.extract_braced(csv, r"RamUnsigned readRamUnsigned\(const std::string& element, std::size_t& charactersRead\)\s*\{", "readRamUnsigned")
    rnt = K.extract_braced(csv, r"Own<RamDomain\[\]> readNextTuple\(\) override\s*\{", "readNextTuple")
    f["case_i"], _, _ = K.extract_between(rnt, r"case 'i': \{", r"case 'u': \{", "readNextTuple case 'i'")
    f["case_u"], _, _ = K.extract_between(rnt, r"case 'u': \{", r"case 'f': \{", "readNextTuple case 'u'")
    f["complete_check"] = K.extract_braced(rnt, r"if \(charactersRead\s*[!=<>]+\s*element\.size\(\)\)\s*\{", "completeness check")
    for k in ("case_i", "case_u"):
        if "charactersRead" not in f[k]:
            raise EngineError("slice %s does not mention charactersRead" % k)
    return {k: _rewrite(v) for k, v in f.items()}


def _wrapper(sl):
    return r'''
#include "souffle/RamTypes.h"
#include <limits>
#include <cstdint>
#include "c17_vstd.h"
#undef assert
#define assert(c) do { if (!(c)) verif_abort(); } while (0)
#define try if (1)
#define catch(...) else
namespace souffle {
inline bool isPrefix(const vstd::string& prefix, const vstd::string& element);
''' + sl["RamSignedFromString"] + "\n" + sl["RamUnsignedFromString"] + "\n" + sl["canBeParsedAsRamSigned"] + "\n" + \
        sl["canBeParsedAsRamUnsigned"] + "\n" + sl["isPrefix"] + r'''
struct H {
  vstd::string delimiter;
''' + sl["readRamUnsigned"] + r'''
  RamDomain field(char tyc, const vstd::string& element) {
    struct { RamDomain v; RamDomain& operator[](int) { return v; } } tuple;
    struct { int operator[](uint32_t) const { return 0; } } inputMap;
    uint32_t column = 0; std::size_t charactersRead = 0;
    tuple.v = 0;
    switch (tyc) {
''' + sl["case_i"] + sl["case_u"] + r'''
      default: verif_unsupported();
    }
''' + sl["complete_check"] + r'''
    return tuple.v;
  }
};
}
static vstd::string mk(const char* s, unsigned len) { vstd::string v; for (unsigned i = 0; i < len; i++) v.push_back(s[i]); return v; }
extern "C" {
__attribute__((noinline,flatten)) int32_t k_fact_signed(const char* s, unsigned len) { souffle::H h; h.delimiter.push_back('\t'); return h.field('i', mk(s, len)); }
__attribute__((noinline,flatten)) int32_t k_fact_unsigned(const char* s, unsigned len) { souffle::H h; h.delimiter.push_back('\t'); return h.field('u', mk(s, len)); }
__attribute__((noinline,flatten)) int32_t k_can_signed(const char* s, unsigned len) { return souffle::canBeParsedAsRamSigned(mk(s, len)) ? 1 : 0; }
__attribute__((noinline,flatten)) int32_t k_can_unsigned(const char* s, unsigned len) { return souffle::canBeParsedAsRamUnsigned(mk(s, len)) ? 1 : 0; }
__attribute__((noinline,flatten)) int32_t k_text_signed(const char* s, unsigned len) { return souffle::RamSignedFromString(mk(s, len), nullptr, 0); }
__attribute__((noinline,flatten)) int32_t k_text_unsigned(const char* s, unsigned len) { return (int32_t)souffle::RamUnsignedFromString(mk(s, len), nullptr, 0); }
// the sto* model on its own (validated against libstdc++ natively on every run)
__attribute__((noinline,flatten)) int64_t k_model(int which, const char* s, unsigned len, int base, uint64_t* idx) {
  std::size_t p = 777; vstd::string v = mk(s, len); int64_t r;
  if (which == 0) r = vstd::stoi(v, &p, base); else if (which == 1) r = (int64_t)vstd::stoul(v, &p, base); else r = vstd::stol(v, &p, base);
  *idx = p; return r;
}
}
'''


# native driver for the differential validation of the translation (generated C vs g++ build of the same wrapper TU):
# the slice kernels on a systematic + random corpus; verif_throw -> longjmp
DRIVER = r'''
#include <stdio.h>
#include <stdint.h>
#include <string.h>
#include <setjmp.h>
#include <stdlib.h>
static jmp_buf jb;
void verif_throw(void){ longjmp(jb, 1); }
void verif_overflow(void){ longjmp(jb, 2); }
void verif_abort(void){ longjmp(jb, 3); }
void verif_unsupported(void){ longjmp(jb, 4); }
void verif_oob(void){ longjmp(jb, 5); }
int32_t k_fact_signed(const char*, unsigned); int32_t k_fact_unsigned(const char*, unsigned);
int32_t k_can_signed(const char*, unsigned); int32_t k_can_unsigned(const char*, unsigned);
int32_t k_text_signed(const char*, unsigned); int32_t k_text_unsigned(const char*, unsigned);
static void one(const char* s, unsigned n){
  for (int k = 0; k < 6; k++) {
    int j = setjmp(jb);
    if (j) { printf("%d:T%d ", k, j); continue; }
    int32_t r = k==0 ? k_fact_signed(s,n) : k==1 ? k_fact_unsigned(s,n) : k==2 ? k_can_signed(s,n) : k==3 ? k_can_unsigned(s,n) : k==4 ? k_text_signed(s,n) : k_text_unsigned(s,n);
    printf("%d:%d ", k, r);
  }
  printf("\n");
}
int main(int argc, char** argv){
  static const char alpha[] = " \t-+0129abfxX8\0z";   /* 16 symbols incl. NUL */
  unsigned seed = argc > 1 ? (unsigned)atoi(argv[1]) : 1;
  char b[16];
  for (unsigned len = 0; len <= 3; len++) {
    unsigned tot = 1; for (unsigned i = 0; i < len; i++) tot *= 16;
    for (unsigned c = 0; c < tot; c++) { unsigned x = c; for (unsigned i = 0; i < len; i++) { b[i] = alpha[x % 16]; x /= 16; } one(b, len); }
  }
  static const char* fixed[] = {"2147483647","2147483648","-2147483648","-2147483649","4294967295","4294967296","0x7fffffff","0x80000000","-0x80000000","-0x80000001",
    "0xffffffff","0x100000000","0b1","-0b101","0b","0x","0b102","99999999999","+12","  12","12 ","0X1F","0B1","1e3","18446744073709551615","18446744073709551616","-18446744073709551615", 0};
  for (int i = 0; fixed[i]; i++) one(fixed[i], (unsigned)strlen(fixed[i]));
  for (int it = 0; it < 3000; it++) { seed = seed * 1103515245u + 12345u; unsigned len = (seed >> 16) % 13;
    for (unsigned i = 0; i < len; i++) { seed = seed * 1103515245u + 12345u; b[i] = alpha[(seed >> 16) % 16]; } one(b, len); }
  return 0;
}
'''

# native validation of the sto* MODEL against the real libstdc++ (every run): same corpus, real std::stoi/stoul/stol
MODEL_VALID = r'''
#include <string>
#include <stdexcept>
#include <cstdio>
#include <cstdint>
#include <cstring>
#include <cstdlib>
#include <csetjmp>
static jmp_buf jb;
extern "C" { void verif_throw(){ longjmp(jb, 1); } void verif_overflow(){ longjmp(jb, 2); } void verif_abort(){ longjmp(jb, 3); } void verif_unsupported(){ longjmp(jb, 4); } void verif_oob(){ longjmp(jb, 5); } }
extern "C" int64_t k_model(int which, const char* s, unsigned len, int base, uint64_t* idx);
static long long bad = 0, n = 0;
static void one(const char* s, unsigned len){
  static const int bases[] = {10, 16, 2};
  for (int which = 0; which < 3; which++) for (int bi = 0; bi < 3; bi++) {
    int base = bases[bi]; std::string str(s, len);
    int rthrow = 0; long long rv = 0; std::size_t ridx = 777;
    try { if (which == 0) rv = std::stoi(str, &ridx, base); else if (which == 1) rv = (long long)std::stoul(str, &ridx, base); else rv = std::stol(str, &ridx, base); }
    catch (...) { rthrow = 1; }
    int mthrow = 0; long long mv = 0; uint64_t midx = 777;
    if (setjmp(jb)) mthrow = 1; else mv = k_model(which, s, len, base, &midx);
    n++;
    if (rthrow != mthrow || (!rthrow && (rv != mv || ridx != midx))) { if (bad < 10) { printf("MISMATCH which=%d base=%d len=%u bytes=", which, base, len); for (unsigned i=0;i<len;i++) printf("%02x", (unsigned char)s[i]); printf(" real(throw=%d v=%lld idx=%zu) model(throw=%d v=%lld idx=%llu)\n", rthrow, rv, ridx, mthrow, mv, (unsigned long long)midx); } bad++; }
  }
}
int main(int argc, char** argv){
  static const char alpha[] = " \t\n\v\f\r-+0129abfFxX8gz\0";   /* 24 symbols incl. NUL */
  const unsigned A = 24;
  unsigned seed = argc > 1 ? (unsigned)atoi(argv[1]) : 1;
  char b[32];
  for (unsigned len = 0; len <= 3; len++) {
    unsigned tot = 1; for (unsigned i = 0; i < len; i++) tot *= A;
    for (unsigned c = 0; c < tot; c++) { unsigned x = c; for (unsigned i = 0; i < len; i++) { b[i] = alpha[x % A]; x /= A; } one(b, len); }
  }
  static const char* fixed[] = {"2147483647","2147483648","-2147483648","-2147483649","4294967295","4294967296","0x7fffffff","0x80000000","-0x80000000","-0x80000001",
    "9223372036854775807","9223372036854775808","-9223372036854775808","-9223372036854775809","18446744073709551615","18446744073709551616","-18446744073709551615","-18446744073709551616",
    "0xffffffffffffffff","0x10000000000000000","-0xffffffffffffffff","111111111111111111111111","0b1111111111111111111111", 0};
  for (int i = 0; fixed[i]; i++) one(fixed[i], (unsigned)strlen(fixed[i]));
  for (int it = 0; it < 60000; it++) { seed = seed * 1103515245u + 12345u; unsigned len = (seed >> 16) % 15;
    for (unsigned i = 0; i < len; i++) { seed = seed * 1103515245u + 12345u; b[i] = alpha[(seed >> 16) % A]; } one(b, len); }
  printf("compared %lld mismatches %lld\n", n, bad);
  return bad ? 1 : 0;
}
'''

HARNESS = r'''
#include <stdint.h>
#include <stdlib.h>
#define VERIF_NO_EXTERN_DECLS
#ifdef WITNESS
#define VASSERT(c, m) ((void)0)
#else
#define VASSERT(c, m) __CPROVER_assert(c, m)
#endif
int g_must = 0;      /* the independent recogniser says: strict, complete, in range -> must be accepted */
#ifdef WITNESS
/* non-vacuity: the rejecting path counts as reached as well (an input class may consist of rejected inputs only) */
void verif_throw(void){ __CPROVER_assert(0, "witness (reject path)"); __CPROVER_assume(0); }
#else
void verif_throw(void){ VASSERT(!g_must, "a complete, valid, in-range literal is rejected"); __CPROVER_assume(0); }
#endif
void verif_overflow(void){ __CPROVER_assert(0, "bounded string capacity exceeded (bound too small)"); __CPROVER_assume(0); }
void verif_abort(void){ VASSERT(0, "assert()/abort reached: the loader crashes on this field"); __CPROVER_assume(0); }
void verif_unsupported(void){ __CPROVER_assert(0, "construct outside the modelled fragment reached"); __CPROVER_assume(0); }
void verif_oob(void){ VASSERT(0, "string indexed beyond its size (undefined behaviour in the real std::string)"); __CPROVER_assume(0); }
#include "num_k.c"
uint8_t nondet_u8(void); unsigned nondet_uint(void);
/* ---------------- independent recogniser (written from the grammar; wide accumulation) ----------------
   lenient: ws* sign? ( digits | 0x hexdigits | 0b bindigits )   complete, at least one digit
            prefixes only where the column/context allows them: unsigned fact fields and program-text constants
            (signed fact fields are base 10 only); unsigned: sign may only be '+'
   strict : lenient without white space and without '+'                                                  */
static int is_ws(uint8_t c){ return c==' ' || (c>=9 && c<=13); }
static int dig(uint8_t c){ if (c>='0'&&c<='9') return c-'0'; if (c>='a'&&c<='f') return c-'a'+10; if (c>='A'&&c<='F') return c-'A'+10; return 99; }
#define SAT (1ull<<40)
int r_lenient, r_strict, r_inrange, r_class; int64_t r_val;
static void recognise(const uint8_t* s, unsigned len, int kind){
  unsigned i = 0; int ws = 0, neg = 0, plus = 0, base = 10, pfx = 0; unsigned nd = 0; uint64_t acc = 0;
  int uns = (kind == 1 || kind == 3);
  while (i < len && is_ws(s[i])) { i++; ws = 1; }
  if (i < len && s[i] == '-') { neg = 1; i++; } else if (i < len && s[i] == '+') { plus = 1; i++; }
  if (kind != 0 && i + 1 < len && s[i] == '0' && s[i+1] == 'x') { base = 16; pfx = 1; i += 2; }
  else if (kind != 0 && i + 1 < len && s[i] == '0' && s[i+1] == 'b') { base = 2; pfx = 1; i += 2; }
  int inner = pfx && base == 2 && i < len && (is_ws(s[i]) || s[i] == '-' || s[i] == '+');
  while (i < len && dig(s[i]) < base) { acc = acc > SAT ? SAT + 1 : acc * (uint64_t)base + (uint64_t)dig(s[i]); nd++; i++; }
  int complete = (i == len) && nd > 0;
  r_lenient = complete && !(uns && neg);
  r_strict = r_lenient && !ws && !plus;
  r_val = neg ? -(int64_t)acc : (int64_t)acc;
  r_inrange = uns ? (acc <= 4294967295ull) : (r_val >= -2147483648ll && r_val <= 2147483647ll);
  /* input classes (shape of the input only) used to exclude reported classes by assumption */
  r_class = 0;
  if (len == 0 && kind == 1) r_class = 1;
  else if (inner) r_class = 2;
  else if (uns && neg) r_class = 3;
  else if (uns && complete && acc > 4294967295ull) r_class = 4;
}
uint8_t in_s0, in_s1, in_s2, in_s3, in_s4, in_s5, in_s6, in_s7, in_s8, in_s9, in_s10, in_s11, in_s12, in_s13; unsigned in_len; int in_class;
int main(){
  uint8_t s[14] = {0,0,0,0,0,0,0,0,0,0,0,0,0,0};
  for (int i = 0; i < LEN; i++) s[i] = nondet_u8();
  unsigned len = nondet_uint(); __CPROVER_assume(len <= LEN);
#if KIND <= 1
  /* bytes the line/field splitting of the CSV reader never hands to the number parser as part of a field */
  for (int i = 0; i < LEN; i++) if (i < len) __CPROVER_assume(s[i] != '\t' && s[i] != '\n');
  if (len > 0) __CPROVER_assume(s[len-1] != '\r');
#endif
#ifdef SHAPE_LONG
  /* long numerals: optional white space, optional sign, then digits only (covers the 2^63 / 2^64 boundaries of strtol/strtoul) */
  { unsigned i = 0; if (i < len && s[i] == ' ') i++; if (i < len && (s[i] == '-' || s[i] == '+')) i++; for (; i < LEN; i++) if (i < len) __CPROVER_assume(s[i] >= '0' && s[i] <= '9'); }
#endif
#ifdef SHAPE_HEX
  /* long hexadecimal numerals: optional sign, 0x, hex digits */
  { unsigned i = 0; if (i < len && (s[i] == '-' || s[i] == '+')) i++; __CPROVER_assume(i + 2 <= len && s[i] == '0' && s[i+1] == 'x'); i += 2;
    for (; i < LEN; i++) if (i < len) __CPROVER_assume(dig(s[i]) < 16); }
#endif
  recognise(s, len, KIND);
  __CPROVER_assume(!((EXCL_MASK >> r_class) & 1));
#ifdef ONLY_CLASS
  __CPROVER_assume(r_class == ONLY_CLASS);
#endif
  in_s0=s[0]; in_s1=s[1]; in_s2=s[2]; in_s3=s[3]; in_s4=s[4]; in_s5=s[5]; in_s6=s[6]; in_s7=s[7]; in_s8=s[8]; in_s9=s[9]; in_s10=s[10]; in_s11=s[11]; in_s12=s[12]; in_s13=s[13];
  in_len = len; in_class = r_class;
  g_must = r_strict && r_inrange;
  int may = r_lenient && r_inrange;
#if KIND == 0
  int32_t v = (int32_t)k_fact_signed(s, len);
  VASSERT(may, "accepted a field that is not a complete, valid, in-range literal");
  VASSERT((int64_t)v == r_val, "stored value differs from the value written");
#elif KIND == 1
  uint32_t v = (uint32_t)k_fact_unsigned(s, len);
  VASSERT(may, "accepted a field that is not a complete, valid, in-range literal");
  VASSERT((int64_t)v == r_val, "stored value differs from the value written");
#elif KIND == 2
  uint32_t c = k_can_signed(s, len);
  if (c) { VASSERT(may, "accepted a constant that is not a complete, valid, in-range literal");
           int32_t v = (int32_t)k_text_signed(s, len); VASSERT((int64_t)v == r_val, "stored value differs from the value written"); }
  else VASSERT(!g_must, "a complete, valid, in-range literal is rejected");
#else
  uint32_t c = k_can_unsigned(s, len);
  if (c) { VASSERT(may, "accepted a constant that is not a complete, valid, in-range literal");
           uint32_t v = (uint32_t)k_text_unsigned(s, len); VASSERT((int64_t)v == r_val, "stored value differs from the value written"); }
  else VASSERT(!g_must, "a complete, valid, in-range literal is rejected");
#endif
#ifdef WITNESS
  __CPROVER_assert(0, "witness");
#endif
  return 0;
}
'''

# native replay on the REAL code (real ReadStreamCSV::readNextTuple, canBeParsedAsRam*, Ram*FromString, real std::string)
REPLAY = r'''
#include "souffle/RamTypes.h"
#include "souffle/SymbolTable.h"
#include "souffle/RecordTable.h"
#include "souffle/datastructure/SymbolTableImpl.h"
#include "souffle/datastructure/RecordTableImpl.h"
#include "souffle/io/ReadStreamCSV.h"
#include "souffle/utility/StringUtil.h"
#include <cstdio>
#include <sstream>
#include <string>
#include <map>
using namespace souffle;
struct R : ReadStreamCSV { using ReadStreamCSV::ReadStreamCSV; Own<RamDomain[]> next() { return readNextTuple(); } };
static std::string unhex(const char* h){ std::string s; for (size_t i=0; h[i] && h[i+1]; i+=2){ unsigned v; sscanf(h+i, "%2x", &v); s.push_back((char)v);} return s; }
int main(int argc, char** argv){
  // argv: kind hexbytes ; kind: 0 signed fact field, 1 unsigned fact field, 2 signed program-text constant, 3 unsigned program-text constant
  int kind = atoi(argv[1]); std::string s = argc > 2 ? unhex(argv[2]) : std::string();
  if (kind <= 1) {
    std::map<std::string,std::string> rw = {{"operation","input"},{"IO","file"},{"name","a"},{"attributeNames","x"},{"auxArity","0"},
      {"types", kind==0 ? "{\"relation\": {\"arity\": 1, \"types\": [\"i:number\"]}}" : "{\"relation\": {\"arity\": 1, \"types\": [\"u:unsigned\"]}}"}};
    SymbolTableImpl st; SpecializedRecordTable<0> rt;
    std::istringstream in(s + "\n");
    try { R r(in, rw, st, rt); auto t = r.next(); if (!t) { printf("NOTUPLE\n"); return 0; }
      if (kind==0) printf("ACCEPT %lld\n", (long long)t[0]); else printf("ACCEPT %llu\n", (unsigned long long)ramBitCast<RamUnsigned>(t[0])); }
    catch (std::exception& e) { printf("REJECT %s\n", e.what()); }
  } else if (kind == 2) {
    bool c = canBeParsedAsRamSigned(s); if (c) printf("ACCEPT %lld\n", (long long)RamSignedFromString(s, nullptr, 0)); else printf("REJECT\n");
  } else {
    bool c = canBeParsedAsRamUnsigned(s); if (c) printf("ACCEPT %llu\n", (unsigned long long)RamUnsignedFromString(s, nullptr, 0)); else printf("REJECT\n");
  }
  return 0;
}
'''


def py_recognise(b, kind):
    """third, independent implementation of the grammar (Python ints): (lenient, strict, in_range, value, class)"""
    ws = lambda c: c == 0x20 or 9 <= c <= 13
    i = 0
    n = len(b)
    w = neg = plus = False
    while i < n and ws(b[i]):
        i += 1
        w = True
    if i < n and b[i] == 0x2d:
        neg = True
        i += 1
    elif i < n and b[i] == 0x2b:
        plus = True
        i += 1
    base = 10
    pfx = False
    if kind != 0 and i + 1 < n and b[i] == 0x30 and b[i + 1] == ord('x'):
        base, pfx, i = 16, True, i + 2
    elif kind != 0 and i + 1 < n and b[i] == 0x30 and b[i + 1] == ord('b'):
        base, pfx, i = 2, True, i + 2
    inner = pfx and base == 2 and i < n and (ws(b[i]) or b[i] in (0x2d, 0x2b))
    acc = 0
    nd = 0
    while i < n:
        c = chr(b[i])
        d = int(c, 36) if c.isalnum() and ord(c) < 128 else 99
        if d >= base:
            break
        acc = acc * base + d
        nd += 1
        i += 1
    uns = kind in (1, 3)
    complete = i == n and nd > 0
    len_ok = complete and not (uns and neg)
    strict = len_ok and not w and not plus
    val = -acc if neg else acc
    inr = (acc <= 0xFFFFFFFF) if uns else (-2**31 <= val <= 2**31 - 1)
    cls = 0
    if n == 0 and kind == 1:
        cls = 1
    elif inner:
        cls = 2
    elif uns and neg:
        cls = 3
    elif uns and complete and acc > 0xFFFFFFFF:
        cls = 4
    return len_ok, strict, inr, val, cls


def _prepare(work):
    for rel in (SRC_SU, SRC_CSV):
        if not os.path.exists(common.repo_file(rel)):
            raise EngineError("source file missing: " + rel)
    sl = _slices()
    cpp = os.path.join(work, "num_k.cpp")
    open(cpp, "w").write(_wrapper(sl))
    cap = ["-DCAP=24"]
    ll = K.lower(cpp, os.path.join(work, "num_k.ll"), extra=["-fno-exceptions", "-I", K.HERE] + cap)
    c = K.translate(ll, os.path.join(work, "num_k.c"))
    drv = os.path.join(work, "drv.c")
    open(drv, "w").write(DRIVER)
    gen = os.path.join(work, "num_gen_native.c")
    open(gen, "w").write('#define __dso_handle verif_dso_handle_\n#include "num_k.c"\n')
    nlines = K.differential(work, drv, gen, cpp, extra_cxx=["-fno-exceptions", "-I", K.HERE] + cap, runs=[("1",), ("77",)])
    if nlines < 1000:
        raise EngineError("differential driver produced only %d lines (crash?)" % nlines)
    # the sto* model against the real libstdc++
    mv = os.path.join(work, "model_valid.cpp")
    open(mv, "w").write(MODEL_VALID)
    exe = os.path.join(work, "model_valid")
    rc, out, err = sh(["g++", "-std=c++17", "-O1", "-w", "-I", os.path.join(common.REPO, "src", "include"), "-I", K.HERE] + cap +
                      [mv, cpp, "-o", exe], timeout=300)
    if rc != 0:
        raise EngineError("model validation build failed:\n" + err[-2000:])
    rc, out, err = sh([exe, "3"], timeout=300)
    m = re.search(r"compared (\d+) mismatches (\d+)", out)
    if rc != 0 or not m or int(m.group(2)) != 0:
        raise EngineError("the std::sto* model disagrees with libstdc++:\n" + out[-1500:])
    nmodel = int(m.group(1))
    open(os.path.join(work, "num_h.c"), "w").write(HARNESS)
    rexe = None
    return nlines, nmodel, rexe, sl


def _loopset(work, length):
    """per-loop unwinding bounds from cbmc --show-loops: every loop in the kernels walks a string of <= CAP bytes"""
    rc, out, err = sh(["cbmc", os.path.join(work, "num_h.c"), "--show-loops", "-I", K.HERE, "-I", work, "-DLEN=%d" % length, "-DKIND=0", "-DEXCL_MASK=0"], timeout=120)
    ids = re.findall(r"^Loop (\S+):", out, re.M)
    if not ids:
        raise EngineError("no loops listed by cbmc --show-loops")
    return ids


def _inputs_from_traces(res):
    """one input per counterexample trace in the CBMC output (a trace is printed for every failed property)"""
    outs = []
    seen = set()
    for chunk in re.split(r"^Trace for ", res.out, flags=re.M)[1:]:
        vals = {}
        for nm, val, bits in re.findall(r"^\s*(in_s\d+|in_len|in_class)=(-?\d+)[uUlL]*\s*(?:\(([01 ]+)\))?", chunk, re.M):
            vals[nm] = int(bits.replace(" ", ""), 2) if bits else int(val)
        n = vals.get("in_len")
        if n is None or n > 14 or any(("in_s%d" % i) not in vals for i in range(n)):
            continue
        b = bytes(vals["in_s%d" % i] for i in range(n))
        if b not in seen:
            seen.add(b)
            outs.append(b)
    return outs


_REPLAY = {}


def _replay_exe(work):
    """g++ build of the real ReadStreamCSV / StringUtil replay program (built on first use)"""
    if "error" in _REPLAY:
        raise EngineError(_REPLAY["error"])
    if "exe" not in _REPLAY or not os.path.exists(_REPLAY["exe"]):
        rp = os.path.join(work, "replay.cpp")
        open(rp, "w").write(REPLAY)
        rexe = os.path.join(work, "replay")
        rc, out, err = sh(["g++", "-std=c++17", "-O1", "-w", "-I", os.path.join(common.REPO, "src", "include"), "-I", os.path.join(common.REPO, "src"),
                           rp, "-o", rexe, "-lpthread"], timeout=600)
        if rc != 0:
            raise EngineError("native replay build (real ReadStreamCSV/StringUtil) failed:\n" + err[-2000:])
        _REPLAY["exe"] = rexe
    return _REPLAY["exe"]


def _try_build(work):
    try:
        _replay_exe(work)
    except EngineError as e:
        _REPLAY["error"] = str(e)


def native_verdict(rexe, kind, b):
    """run the real code natively on the bytes and judge it with the Python recogniser"""
    rc, out, err = sh([rexe, str(kind), b.hex()], timeout=20)
    len_ok, strict, inr, val, cls = py_recognise(b, kind)
    line = (out.strip().splitlines() or [""])[-1]
    desc = "kind=%s input=%r (hex %s): real code -> rc=%d %s %s" % (KINDS[kind], b, b.hex(), rc, line[:160], err.strip()[-200:].replace("\n", " "))
    if rc != 0:
        return "crash", desc + " [the loader aborts/crashes]"
    m = re.match(r"ACCEPT (-?\d+)", line)
    if m:
        got = int(m.group(1))
        if not (len_ok and inr):
            return "accepts-invalid", desc + " [not a complete valid in-range literal, yet accepted]"
        if got != val:
            return "wrong-value", desc + " [literal value %d]" % val
        return None, desc
    if line.startswith("REJECT") or line.startswith("NOTUPLE"):
        if strict and inr:
            return "rejects-valid", desc + " [valid in-range literal rejected]"
        return None, desc
    return None, desc + " [unrecognised replay output]"


def run(tier, seed, only=None):
    t0 = time.time()
    res = common.Result(PID, "other")
    work = common.scratch_dir("c18")
    thorough = tier == "thorough"
    try:
        import threading
        _REPLAY.clear()
        bt = threading.Thread(target=lambda: _try_build(work))   # real-code replay binary is built while the solver runs
        bt.start()
        nlines, nmodel, rexe, sl = _prepare(work)
        hfile = os.path.join(work, "num_h.c")
        # (kind, L, shape, classes): one obligation per input class (class 0 = everything not in a reported class = the proof of the rest)
        if not thorough:
            cfgs = [(1, 10, "digits", [4, 0]), (0, 11, "digits", [None]), (1, 5, "", [2, 3, 1, 0]), (0, 5, "", [None])]
        else:
            cfgs = [(0, 8, "", [None]), (1, 8, "", [0, 1, 2, 3]), (2, 6, "", [0, 2]), (3, 6, "", [0, 2, 3]),
                    (1, 12, "digits", [0, 3, 4]), (0, 12, "digits", [None]), (1, 12, "hex", [0, 4]), (2, 12, "hex", [None]),
                    (0, 11, "", [None])]
        loop_ids = _loopset(work, 6)
        obls = []
        for kind, length, shape, classes in cfgs:
            for cls in classes:
                name = "%s:L=%d:%s:%s" % (KINDS[kind], length, shape or "allbytes", "class=" + CLASSES[cls] if cls is not None else "allclasses")
                if only and only not in name:
                    continue
                defs = ["LEN=%d" % length, "KIND=%d" % kind, "EXCL_MASK=0"]
                if shape == "digits":
                    defs.append("SHAPE_LONG")
                if shape == "hex":
                    defs.append("SHAPE_HEX")
                if cls is not None:
                    defs.append("ONLY_CLASS=%d" % cls)
                obls.append(K.Obligation(name, [hfile], defines=defs, unwind=length + 3, unwindset={lid: length + 3 for lid in loop_ids},
                                         timeout=280 if not thorough else 900, includes=[work], mem_gb=10, extra=["--external-sat-solver", "kissat"],
                                         meta={"kind": KINDS[kind], "L": length, "alphabet": {"": "all 256 byte values", "digits": "ws? sign? digits", "hex": "sign? 0x hexdigits"}[shape],
                                               "input_class": CLASSES[cls] if cls is not None else "all", "_kind": kind}))
        K.run_all(obls, jobs=6)
        bt.join()
        found = {}
        for o in obls:
            if o.verdict == "holds":
                continue
            if o.verdict != "violated":
                res.inconc("%s: %s" % (o.name, o.why))
                continue
            failed = "; ".join(sorted(set(d for n_, d in o.res.failed)))
            inputs = _inputs_from_traces(o.res)
            if not inputs:
                res.inconc("%s: counterexample (%s) but input bytes not found in the trace" % (o.name, failed))
                continue
            kind = o.meta["_kind"]
            rexe = _replay_exe(work)
            reproduced = 0
            for b in inputs:
                what, desc = native_verdict(rexe, kind, b)
                if what is None:
                    continue
                reproduced += 1
                pcls = py_recognise(b, kind)[4]
                key = "%s:%s:%s" % (KINDS[kind], CLASSES.get(pcls, "other"), what)
                if key not in found:
                    d = K.save_replay(PID, key, {"replay.cpp": REPLAY, "input.hex": b.hex() + "\n", "trace.txt": o.res.out[-30000:],
                                                 "README": "g++ -std=c++17 -O1 -I $REPO/src/include -I $REPO/src replay.cpp -o r -lpthread && ./r %d %s\n%s\nfailed solver assertions: %s\n" % (kind, b.hex(), desc, failed)})
                    found[key] = (desc, d)
                    res.violation(key, "%s — %s" % (failed[:200], desc), d)
            if not reproduced:
                K.save_replay(PID, o.name + ".unreplayed", {"trace.txt": o.res.out[-40000:], "README": "%s\n%s\ninputs %s\n" % (o.name, failed, inputs)})
                res.inconc("%s: solver counterexample(s) (%s) did not reproduce on the real code: inputs %s" % (o.name, failed[:200], inputs[:3]))
        for o in obls:
            for k in [k for k in o.meta if k.startswith("_")]:
                o.meta.pop(k)
        held = [o for o in obls if o.verdict == "holds"]
        res.coverage = {
            "explanation": "Engine K on verbatim slices of the number parsing code (clang IR -> C -> CBMC/kissat): for every byte string up to L bytes "
                           "(all 256 byte values, or the stated shape for long numerals) the solver decides accept => (complete valid in-range literal and "
                           "stored value = literal value), strict valid in-range literal => accept, and that no assert()/abort is reachable. The input "
                           "space is partitioned by input class (shape of the input only); each class is its own obligation, so a class with a defect "
                           "is reported (after replay on the natively compiled real ReadStreamCSV::readNextTuple / canBeParsedAsRam* / Ram*FromString) "
                           "while the remaining classes, in particular class 'other' = everything else, are still proved.",
            "obligations": len(obls), "discharged": len(held),
            "violated_obligations": sum(1 for o in obls if o.verdict == "violated"),
            "distinct_findings": sorted(found),
            "functions_encoded": ["souffle::RamSignedFromString", "souffle::RamUnsignedFromString", "souffle::canBeParsedAsRamSigned",
                                  "souffle::canBeParsedAsRamUnsigned", "souffle::isPrefix", "souffle::ReadStreamCSV::readRamUnsigned",
                                  "souffle::ReadStreamCSV::readNextTuple (cases 'i','u' and the charactersRead completeness test)"],
            "source": {SRC_SU: common.file_sha(common.repo_file(SRC_SU)), SRC_CSV: common.file_sha(common.repo_file(SRC_CSV)),
                       "engine_k/c17_vstd.h": common.file_sha(VSTD)},
            "bounds": {"configs": [{"kind": KINDS[k], "L": l, "alphabet": sh_ or "all 256 byte values", "classes": [CLASSES[c] if c is not None else "all" for c in cl]} for k, l, sh_, cl in cfgs],
                       "RAM_DOMAIN_SIZE": 32},
            "model_validation": {"sto_model_vs_libstdcxx_comparisons": nmodel, "mismatches": 0},
            "traces_validated_against_impl": nlines,
            "queries": sum(1 + (1 if o.wres else 0) for o in obls),
            "solver_time_s": round(sum((o.res.time if o.res else 0) + (o.wres.time if o.wres else 0) for o in obls), 1),
            "checker_cmd": obls[0].res.cmd if obls and obls[0].res else "",
            "samples": [o.sample() for o in obls[:14]],
            "exhaustive": False,
            "outside": ["RamFloatFromString / canBeParsedAsRamFloat (std::stof is library code; not modelled)",
                        "records/ADTs (readRecord/readADT), symbols, JSON/SQLite readers",
                        "whole-loader crash/hang freedom, error message text and exit status", "RAM_DOMAIN_SIZE=64",
                        "program-text constants (canBeParsedAsRam*) are in the thorough tier only"],
        }
        res.assumptions = [
            "std::stoi/stol/stoul modelled by a strtol-style reference (c17_vstd.h): skip isspace, optional sign, 0x prefix for base 16 only when a hex digit follows, "
            "ERANGE -> out_of_range, int range check in stoi, strtoul negates in unsigned arithmetic, idx = characters consumed; validated against libstdc++ on %d calls this run" % nmodel,
            "std::string -> bounded vstd::string (capacity 24, overflow reported), exceptions -> verif_throw() (try/catch in canBeParsedAs* = reaching it means 'false')",
            "fact fields: bytes that the CSV line/field splitting removes (tab, newline, trailing CR) are excluded from the field",
            "lenient grammar (may be accepted): ws* sign? (digits | 0x hex | 0b bin); strict grammar (must be accepted): no white space, no '+'",
            "translation validated differentially on %d driver output lines" % nlines,
        ]
    finally:
        common.rm_rf(work)
    return res

// Bounded stand-ins for std::string / std::ostream / std::sto* used ONLY inside pasted slices of the real souffle
// sources (std:: -> vstd:: rewriting in the slice text).  Shared by the C17 and C18 string kernels.
// Capacity overflow is a reported event (verif_overflow), never silent.
#ifndef C17_VSTD_H
#define C17_VSTD_H
#include <cstddef>
#include <cstdint>
extern "C" [[noreturn]] void verif_throw();       // any C++ exception thrown by the slice (the harness decides what it means)
extern "C" [[noreturn]] void verif_overflow();    // bounded string capacity exceeded: bound too small
extern "C" [[noreturn]] void verif_abort();       // assert() failure / abort inside the slice
extern "C" [[noreturn]] void verif_unsupported(); // construct outside the modelled fragment
extern "C" [[noreturn]] void verif_oob();         // string index beyond size(): undefined behaviour in the real std::string
#ifndef CAP
#define CAP 16
#endif
namespace vstd {
using size_t = ::std::size_t;
struct string {
    char d[CAP];
    size_t n = 0;
    static constexpr size_t npos = (size_t)-1;
    string() = default;
    string(const char* s) {
        for (size_t i = 0; s[i] != 0; i++) push_back(s[i]);
    }
    size_t length() const { return n; }
    size_t size() const { return n; }
    bool empty() const { return n == 0; }
    // s[size()] is the terminating NUL of std::string; anything beyond is undefined behaviour -> reported
    char operator[](size_t i) const { if (i > n) verif_oob(); return i == n ? (char)0 : d[i]; }
    char& operator[](size_t i) { if (i >= n) verif_oob(); return d[i]; }
    const char* begin() const { return d; }
    const char* end() const { return d + n; }
    char back() const { return d[n - 1]; }
    void pop_back() { n--; }
    void push_back(char c) {
        if (n >= CAP) verif_overflow();
        d[n++] = c;
    }
    string& operator+=(char c) { push_back(c); return *this; }
    string& operator+=(const string& s) { for (size_t i = 0; i < s.n; i++) push_back(s.d[i]); return *this; }
    size_t find(const string& s, size_t pos = 0) const {
        if (s.n == 0) return pos <= n ? pos : npos;
        for (size_t i = pos; i + s.n <= n; i++) {
            bool ok = true;
            for (size_t j = 0; j < s.n; j++)
                if (d[i + j] != s.d[j]) { ok = false; break; }
            if (ok) return i;
        }
        return npos;
    }
    size_t find(char c, size_t pos = 0) const {
        for (size_t i = pos; i < n; i++) if (d[i] == c) return i;
        return npos;
    }
    string substr(size_t pos, size_t len = npos) const {
        string r;
        if (pos > n) verif_throw();   // std::out_of_range
        for (size_t i = pos; i < n && i - pos < len; i++) r.push_back(d[i]);
        return r;
    }
};
inline string operator+(const string& a, const string& b) { string r = a; r += b; return r; }
inline string operator+(const char* a, const string& b) { string r(a); r += b; return r; }
inline string operator+(const string& a, const char* b) { string r = a; r += string(b); return r; }
inline string operator+(const string& a, char b) { string r = a; r.push_back(b); return r; }
inline bool operator==(const string& a, const string& b) {
    if (a.n != b.n) return false;
    for (size_t i = 0; i < a.n; i++) if (a.d[i] != b.d[i]) return false;
    return true;
}
struct ostream {
    string buf;
    ostream& operator<<(char c) { buf.push_back(c); return *this; }
    ostream& operator<<(const string& s) { for (size_t i = 0; i < s.n; i++) buf.push_back(s.d[i]); return *this; }
    ostream& operator<<(const char* s) { for (size_t i = 0; s[i] != 0; i++) buf.push_back(s[i]); return *this; }
};
// error-message builders: content is irrelevant to the kernels
struct stringstream {
    template <class T> stringstream& operator<<(const T&) { return *this; }
    string str() const { return string(); }
};
template <class T> const T& min(const T& a, const T& b) { return b < a ? b : a; }

// ------------------------------------------------------------------------------------------------------------
// std::stoi / stol / stoll / stoul / stoull  (libstdc++ __gnu_cxx::__stoa over glibc strtol/strtoul, LP64, "C" locale)
//   strtoX: skip isspace (' ', \t \n \v \f \r); optional '+'/'-'; base 16: optional "0x"/"0X" which is consumed only
//   when a hex digit follows (otherwise "0" is the number and parsing stops at the 'x'); digits of the base
//   (letters case-insensitive); the c_str() view ends at the first NUL byte; overflow -> ERANGE with all digits consumed;
//   strtoul negates in unsigned arithmetic when a '-' was given.
//   __stoa: no digits -> std::invalid_argument; ERANGE or (stoi only) value outside int -> std::out_of_range;
//   *idx = number of characters consumed (including white space, sign and prefix).
//   Only bases 2, 10, 16 are modelled (the only ones souffle passes).
// The model is validated against the real libstdc++ on every run of the checks (exhaustive small strings + random).
struct scan_t { unsigned long long mag; bool neg; bool any; bool ovf; size_t end; };
inline int digit_of(unsigned char c) {
    if (c >= '0' && c <= '9') return c - '0';
    if (c >= 'a' && c <= 'z') return c - 'a' + 10;
    if (c >= 'A' && c <= 'Z') return c - 'A' + 10;
    return 99;
}
inline scan_t scan(const string& s, int base) {
    if (base != 2 && base != 10 && base != 16) verif_unsupported();
    scan_t r; r.mag = 0; r.neg = false; r.any = false; r.ovf = false; r.end = 0;
    size_t i = 0;
    const size_t n = s.n;
#define VSTD_AT(k) ((k) < n ? (unsigned char)s.d[(k)] : (unsigned char)0)
    while (VSTD_AT(i) == ' ' || (VSTD_AT(i) >= 9 && VSTD_AT(i) <= 13)) i++;
    if (VSTD_AT(i) == '-') { r.neg = true; i++; } else if (VSTD_AT(i) == '+') { i++; }
    if (base == 16 && VSTD_AT(i) == '0' && (VSTD_AT(i + 1) == 'x' || VSTD_AT(i + 1) == 'X') && digit_of(VSTD_AT(i + 2)) < 16) i += 2;
    const unsigned long long ub = (unsigned long long)base;
    while (digit_of(VSTD_AT(i)) < base) {
        unsigned long long dg = (unsigned long long)digit_of(VSTD_AT(i));
        if (r.ovf || r.mag > (0xFFFFFFFFFFFFFFFFull - dg) / ub) r.ovf = true; else r.mag = r.mag * ub + dg;
        r.any = true;
        i++;
    }
#undef VSTD_AT
    r.end = i;
    return r;
}
inline long stol(const string& s, size_t* idx = nullptr, int base = 10) {
    scan_t r = scan(s, base);
    if (!r.any) verif_throw();                                                    // invalid_argument
    if (r.ovf || (r.neg ? r.mag > 0x8000000000000000ull : r.mag > 0x7FFFFFFFFFFFFFFFull)) verif_throw();   // ERANGE -> out_of_range
    if (idx) *idx = r.end;
    return r.neg ? (long)(0ull - r.mag) : (long)r.mag;
}
inline long long stoll(const string& s, size_t* idx = nullptr, int base = 10) { return stol(s, idx, base); }
inline int stoi(const string& s, size_t* idx = nullptr, int base = 10) {
    scan_t r = scan(s, base);
    if (!r.any) verif_throw();
    if (r.ovf || (r.neg ? r.mag > 0x8000000000000000ull : r.mag > 0x7FFFFFFFFFFFFFFFull)) verif_throw();
    long v = r.neg ? (long)(0ull - r.mag) : (long)r.mag;
    if (v < -2147483647L - 1 || v > 2147483647L) verif_throw();                    // out_of_range
    if (idx) *idx = r.end;
    return (int)v;
}
inline unsigned long stoul(const string& s, size_t* idx = nullptr, int base = 10) {
    scan_t r = scan(s, base);
    if (!r.any) verif_throw();
    if (r.ovf) verif_throw();
    if (idx) *idx = r.end;
    return r.neg ? (unsigned long)(0ull - r.mag) : (unsigned long)r.mag;
}
inline unsigned long long stoull(const string& s, size_t* idx = nullptr, int base = 10) { return stoul(s, idx, base); }
}  // namespace vstd
#endif

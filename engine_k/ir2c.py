#!/usr/bin/env python3
"""Prototype LLVM-14 textual IR -> C translator (typed pointers).  Feasibility probe only."""
import re, sys

class Ty:
    pass

def split_top(s, sep=','):
    out, depth, cur, inq = [], 0, '', False
    for ch in s:
        if ch == '"':
            inq = not inq
        if not inq:
            if ch in '([{<':
                depth += 1
            elif ch in ')]}>':
                depth -= 1
            if ch == sep and depth == 0:
                out.append(cur.strip()); cur = ''; continue
        cur += ch
    if cur.strip():
        out.append(cur.strip())
    return out

class Module:
    def __init__(self, text):
        self.text = text
        self.named = {}      # llvm type name -> body string
        self.cname = {}      # llvm type string -> c type name
        self.typedefs = []   # emitted struct defs (ordered)
        self.emitting = set()
        self.lit_count = 0
        self.globals = []
        self.funcs = []
        self.decls = {}
        self.parse()

    # ---------------- types ----------------
    def mangle(self, s):
        return re.sub(r'[^A-Za-z0-9_]', '_', s)

    def parse_type(self, s):
        """return (ctype string) for llvm type string s"""
        s = s.strip()
        if s in self.cname:
            return self.cname[s]
        r = self._ctype(s)
        self.cname[s] = r
        return r

    def _ctype(self, s):
        if s.endswith('*'):
            base = s[:-1].strip()
            if base.endswith(')') or base == 'i8' and False:
                return 'void*'
            # function pointer
            if re.search(r'\)$', base):
                return 'void*'
            if base.startswith('%') and not base.endswith('*') and self.is_opaque(base):
                return 'void*'
            return self.parse_type(base) + '*'
        m = re.fullmatch(r'i(\d+)', s)
        if m:
            n = int(m.group(1))
            if n == 1: return 'uint8_t'
            if n <= 8: return 'uint8_t'
            if n <= 16: return 'uint16_t'
            if n <= 32: return 'uint32_t'
            if n <= 64: return 'uint64_t'
            if n <= 128: return 'unsigned __int128'
        if s == 'float': return 'float'
        if s == 'double': return 'double'
        if s == 'void': return 'void'
        if s.startswith('%'):
            name = s[1:]
            cn = 'struct S_' + self.mangle(name)
            self.cname[s] = cn
            self.emit_struct(s, cn, self.named.get(name))
            return cn
        if s.startswith('['):
            m = re.fullmatch(r'\[\s*(\d+)\s*x\s*(.*)\]', s, re.S)
            n, el = int(m.group(1)), m.group(2).strip()
            elc = self.parse_type(el)
            cn = 'struct A%d_%s' % (n, self.mangle(elc))
            if cn not in self.emitting:
                self.emitting.add(cn)
                self.typedefs.append('%s { %s a[%d]; };' % (cn, elc, max(n, 1)))
            return cn
        if s.startswith('{') or s.startswith('<{'):
            self.lit_count += 1
            cn = 'struct L%d' % self.lit_count
            self.cname[s] = cn
            self.emit_struct(s, cn, s)
            return cn
        raise Exception('unknown type ' + s)

    def is_opaque(self, s):
        name = s[1:]
        return self.named.get(name) == 'opaque' or name not in self.named

    def struct_fields(self, body):
        body = body.strip()
        packed = body.startswith('<{')
        inner = body[2:-2] if packed else body[1:-1]
        return packed, split_top(inner)

    def emit_struct(self, key, cn, body):
        if cn in self.emitting:
            return
        self.emitting.add(cn)
        if body is None or body == 'opaque':
            self.typedefs.append('%s { char opaque; };' % cn)
            return
        packed, fields = self.struct_fields(body)
        fl = []
        for i, f in enumerate(fields):
            fl.append('%s f%d;' % (self.parse_type(f), i))
        if not fl:
            fl = ['char empty;']
        self.typedefs.append('%s { %s }%s;' % (cn, ' '.join(fl), ' __attribute__((packed))' if packed else ''))

    def fields_of(self, s):
        s = s.strip()
        if s.startswith('%'):
            body = self.named[s[1:]]
        else:
            body = s
        return self.struct_fields(body)[1]

    # ---------------- parsing ----------------
    def parse(self):
        lines = self.text.split('\n')
        i = 0
        while i < len(lines):
            ln = lines[i]
            m = re.match(r'(%[^ =]+|%"[^"]+")\s*=\s*type\s+(.*)$', ln)
            if m:
                self.named[m.group(1)[1:]] = m.group(2).strip()
            elif ln.startswith('@'):
                self.globals.append(ln)
            elif ln.startswith('define'):
                body = [ln]
                i += 1
                while lines[i] != '}':
                    body.append(lines[i]); i += 1
                self.funcs.append(body)
            elif ln.startswith('declare'):
                m = re.search(r'@([^\s(]+|"[^"]+")\(', ln)
                self.decls[m.group(1)] = ln
            i += 1

def take_type(s):
    """consume a type from the start of s; return (type, rest)"""
    s = s.lstrip()
    i = 0
    n = len(s)
    def skip_group(i):
        depth = 0
        inq = False
        while i < n:
            ch = s[i]
            if ch == '"': inq = not inq
            if not inq:
                if ch in '([{<': depth += 1
                elif ch in ')]}>':
                    depth -= 1
                    if depth == 0:
                        return i + 1
            i += 1
        return i
    if s.startswith('%"'):
        i = s.index('"', 2) + 1
    elif s[0] == '%':
        m = re.match(r'%[A-Za-z0-9_.$-]+', s); i = m.end()
    elif s[0] in '[{':
        i = skip_group(0)
    elif s.startswith('<{'):
        i = skip_group(0)
    else:
        m = re.match(r'(i\d+|float|double|void|ptr|half|x86_fp80|label|metadata)', s)
        if not m:
            raise Exception('take_type: ' + s[:60])
        i = m.end()
    # suffixes: *, (args)* for function types
    while True:
        j = i
        while j < n and s[j] == ' ': j += 1
        if j < n and s[j] == '*':
            i = j + 1; continue
        if j < n and s[j] == '(':
            # function type
            k = j; depth = 0
            while k < n:
                if s[k] == '(': depth += 1
                elif s[k] == ')':
                    depth -= 1
                    if depth == 0: break
                k += 1
            i = k + 1; continue
        break
    return s[:i].strip(), s[i:].lstrip()

PARAM_ATTRS = r'(noundef|nonnull|nocapture|readonly|readnone|writeonly|zeroext|signext|noalias|returned|immarg|inreg|nofree|nest|swiftself|byval\([^)]*\)|sret\([^)]*\)|align \d+|dereferenceable\(\d+\)|dereferenceable_or_null\(\d+\))'

def strip_attrs(s):
    prev = None
    while prev != s:
        prev = s
        s = re.sub(r'^\s*' + PARAM_ATTRS + r'\s+', '', s)
        s = re.sub(r'^\s*' + PARAM_ATTRS + r'$', '', s)
    return s.strip()

class FuncTr:
    def __init__(self, mod, body, out):
        self.m = mod
        self.body = body
        self.out = out
        self.vty = {}   # ssa name -> llvm type
        self.alloca_names = set()
        self.npc = 0
        self.seq = False

    def cval(self, ty, v):
        """C expression for llvm value v of type ty"""
        v = v.strip()
        ct = self.m.parse_type(ty) if ty != 'label' else ''
        if v.startswith('%'):
            return self.lname(v)
        if v.startswith('@'):
            return '((%s)&%s)' % (ct, gname(v)) if not v[1:] in ('',) else v
        if v in ('null',): return '((%s)0)' % ct
        if v in ('undef', 'poison', 'zeroinitializer'):
            if ct.startswith('struct'):
                return '((%s){0})' % ct
            return '((%s)0)' % ct
        if v == 'true': return '1'
        if v == 'false': return '0'
        if re.fullmatch(r'-?\d+', v):
            m = re.fullmatch(r'i(\d+)', ty)
            if m:
                n = int(m.group(1)); x = int(v) & ((1 << n) - 1)
                return '((%s)%dULL)' % (ct, x) if n <= 64 else str(x)
            return v
        if ty in ('float', 'double'):
            if v.startswith('0x'):
                bits = int(v, 16)
                if ty == 'double':
                    return 'verif_bits2double(0x%xULL)' % bits
                return '((float)verif_bits2double(0x%xULL))' % bits
            return '((%s)%s)' % (ct, v)
        m = re.match(r'(bitcast|getelementptr|inttoptr|ptrtoint)\b', v)
        if m:
            return self.constexpr(ty, v)
        if v.startswith('{') and v.endswith('}') and ct.startswith('struct'):
            # constant struct literal, e.g. `{ i64, i64 } { i64 1, i64 1 }` as a phi/ret/insertvalue operand
            return '((%s){ %s })' % (ct, ', '.join(self.cval(*take_type(p)) for p in split_top(v[1:-1])))
        raise Exception('cval: %s %s' % (ty, v))

    def constexpr(self, ty, v):
        ct = self.m.parse_type(ty)
        m = re.match(r'bitcast\s*\((.*)\s+to\s+(.*)\)$', v, re.S)
        if m:
            sty, rest = take_type(m.group(1))
            return '((%s)%s)' % (ct, self.cval(sty, rest))
        m = re.match(r'getelementptr\s+(inbounds\s+)?\((.*)\)$', v, re.S)
        if m:
            parts = split_top(m.group(2))
            return '((%s)%s)' % (ct, self.gep(parts))
        m = re.match(r'(inttoptr|ptrtoint)\s*\((.*)\s+to\s+(.*)\)$', v, re.S)
        if m:
            sty, rest = take_type(m.group(2))
            return '((%s)%s)' % (ct, self.cval(sty, rest))
        raise Exception('constexpr ' + v)

    def lname(self, v):
        n = v[1:]
        if n.startswith('"'):
            n = n.strip('"')
        return 'v_' + re.sub(r'[^A-Za-z0-9_]', '_', n)

    def gep(self, parts):
        base_ty = parts[0].strip()
        pty, pv = take_type(parts[1])
        pv = strip_attrs(pv)
        expr = self.cval(pty, pv)
        idx = []
        for p in parts[2:]:
            p = re.sub(r'^inrange\s+', '', p.strip())
            ity, iv = take_type(p)
            idx.append((ity, iv.strip()))
        # first index: pointer arithmetic
        ity, iv = idx[0]
        e = '(%s + (int64_t)%s)' % (expr, self.sx(ity, iv))
        cur = base_ty
        first = True
        acc = '(*%s)' % e
        for ity, iv in idx[1:]:
            cur = cur.strip()
            if cur.startswith('[') :
                m = re.fullmatch(r'\[\s*(\d+)\s*x\s*(.*)\]', cur, re.S)
                acc = '%s.a[(int64_t)%s]' % (acc, self.sx(ity, iv))
                cur = m.group(2)
            else:
                fields = self.m.fields_of(cur)
                k = int(iv)
                acc = '%s.f%d' % (acc, k)
                cur = fields[k]
        return '(&%s)' % acc

    def sx(self, ity, iv):
        """sign-extended index as C expr"""
        iv = iv.strip()
        if re.fullmatch(r'-?\d+', iv):
            return '(%s)' % iv
        n = int(ity[1:])
        sc = {8: 'int8_t', 16: 'int16_t', 32: 'int32_t', 64: 'int64_t'}[n]
        return '((%s)%s)' % (sc, self.cval(ity, iv))

    def signed(self, ty, e):
        n = int(ty[1:])
        sc = {1: 'int8_t', 8: 'int8_t', 16: 'int16_t', 32: 'int32_t', 64: 'int64_t'}[n]
        return '((%s)%s)' % (sc, e)

    def translate(self):
        hdr = self.body[0]
        m = re.match(r'define\s+(.*?)@([^\s(]+|"[^"]+")\((.*)\)\s*[^()]*\{$', hdr)
        if not m:
            raise Exception('hdr ' + hdr)
        pre, name, params = m.group(1), m.group(2), m.group(3)
        # return type = last type-looking token in pre
        pre = re.sub(r'(dereferenceable\(\d+\)|dereferenceable_or_null\(\d+\)|align \d+)', '', pre)
        pre = re.sub(r'\b(dso_local|internal|linkonce_odr|weak_odr|weak|available_externally|hidden|private|unnamed_addr|local_unnamed_addr|noundef|zeroext|signext|nonnull|noalias|fastcc)\b', '', pre).strip()
        rty = pre
        self.rty = rty
        plist = []
        for p in split_top(params):
            if p == '...':
                continue
            pty, rest = take_type(p)
            rest = strip_attrs(rest)
            self.vty[rest] = pty
            plist.append('%s %s' % (self.m.parse_type(pty), self.lname(rest)))
        self.name = name
        # parse blocks
        blocks = []
        cur = ('entry', [])
        blocks.append(cur)
        entry_label = None
        pend_switch = None   # multi-line 'switch ... [' ... ']' is joined into one instruction
        for ln in self.body[1:]:
            ln = ln.split(' ; ')[0] if not '"' in ln else ln
            if not ln.strip():
                continue
            if pend_switch is not None:
                pend_switch += ' ' + ln.strip()
                if ln.strip() == ']':
                    cur[1].append(pend_switch)
                    pend_switch = None
                continue
            if ln.strip().startswith('switch ') and ln.rstrip().endswith('['):
                pend_switch = ln.strip()
                continue
            mm = re.match(r'^([A-Za-z0-9_.$-]+|"[^"]+"):', ln)
            if mm:
                cur = (mm.group(1).strip('"'), [])
                blocks.append(cur)
                continue
            s = ln.strip()
            if s.startswith(';'):
                continue
            cur[1].append(s)
        # the entry block's implicit label = next unnamed number; find by counting params
        self.blocks = blocks
        # first pass: result types
        decls = []
        code = []
        self.phis = {}  # block -> list of (dest, ty, [(val, pred)])
        for bl, ins in blocks:
            for s in ins:
                mm = re.match(r'(%[^\s=]+|%"[^"]+")\s*=\s*phi\s+(.*)$', s)
                if mm:
                    ty, rest = take_type(mm.group(2))
                    inc = re.findall(r'\[\s*(.*?)\s*,\s*(%[^\s\]]+|%"[^"]+")\s*\]', rest)
                    self.phis.setdefault(bl, []).append((mm.group(1), ty, inc))
                    self.vty[mm.group(1)] = ty
        self.entry = None
        for bi, (bl, ins) in enumerate(blocks):
            code.append('L_%s: ;' % self.blab(bl))
            for s in ins:
                if ' = phi ' in s:
                    continue
                c = self.instr(s, bl)
                if c:
                    code.append('  ' + c)
        for v, ty in self.vty.items():
            if v.startswith('%') and not any(v == p.split()[-1].replace('v_', '%') for p in []):
                pass
        params_set = set(self.lname(p.split()[-1].replace('v_', '%')) for p in [])
        pnames = set(x.split()[-1] for x in plist)
        for v, ty in self.vty.items():
            ln_ = self.lname(v)
            if ln_ in pnames: continue
            if ty == 'void': continue
            decls.append('  %s %s;' % (self.m.parse_type(ty), ln_))
        for bl, ph in self.phis.items():
            for d, ty, inc in ph:
                decls.append('  %s %s_phi;' % (self.m.parse_type(ty), self.lname(d)))
        sig = '%s %s(%s)' % (self.m.parse_type(rty), gname('@' + name), ', '.join(plist) if plist else 'void')
        self.sig = sig
        if self.seq:
            fn = gname('@' + name)
            ninst = self.seq
            sigs = []
            for inst in range(ninst):
                pre = '%s_%d_' % (fn, inst)
                names = []
                self.out.append('int %spc; int %sdone;' % (pre, pre))
                if rty != 'void':
                    self.out.append('%s %sretv;' % (self.m.parse_type(rty), pre))
                for d in plist + [x.strip().rstrip(';') for x in decls + self.allocas]:
                    ty_, nm_ = d.rsplit(None, 1)
                    self.out.append('%s %s%s;' % (ty_, pre, nm_))
                    names.append(nm_)
                for n in names:
                    self.out.append('#define %s %s%s' % (n, pre, n))
                self.out.append('#define FPC %spc\n#define FDONE %sdone\n#define FRETV %sretv' % (pre, pre, pre))
                self.out.append('void step_%s_%d(void) {' % (fn, inst))
                self.out.append('  switch (FPC) { %s default: break; }' % ' '.join('case %d: goto S_%d;' % (i, i) for i in range(1, self.npc + 1)))
                self.out.extend([c.replace('F->pc', 'FPC').replace('F->done', 'FDONE').replace('F->retv', 'FRETV') for c in code])
                self.out.append('}')
                for n in names + ['FPC', 'FDONE', 'FRETV']:
                    self.out.append('#undef %s' % n)
                sigs.append('void step_%s_%d(void)' % (fn, inst))
            self.sig = '; '.join(sigs)
            return
        self.out.append(sig + ' {')
        self.out.extend(decls)
        self.out.extend(self.allocas)
        self.out.extend(code)
        self.out.append('}')

    allocas = []

    def blab(self, b):
        return re.sub(r'[^A-Za-z0-9_]', '_', b)

    def goto(self, cur, target):
        t = target.strip()[1:].strip('"')
        c = ''
        # phi copies: two-phase
        ph = self.phis.get(t, [])
        tmp = []
        for d, ty, inc in ph:
            for val, pred in inc:
                p = pred[1:].strip('"')
                if p == cur or (cur == 'entry' and p == self.entry_name()):
                    tmp.append('%s_phi = %s;' % (self.lname(d), self.cval(ty, val)))
                    break
        for d, ty, inc in ph:
            tmp.append('%s = %s_phi;' % (self.lname(d), self.lname(d)))
        return '{ %s goto L_%s; }' % (' '.join(tmp), self.blab(t))

    def entry_name(self):
        # implicit entry label number = number of unnamed params
        if hasattr(self, '_en'): return self._en
        n = 0
        for v in self.vty:
            pass
        hdr = self.body[0]
        params = re.match(r'define\s+.*?@(?:[^\s(]+|"[^"]+")\((.*)\)\s*[^()]*\{$', hdr).group(1)
        cnt = 0
        for p in split_top(params):
            if p == '...': continue
            pty, rest = take_type(p)
            rest = strip_attrs(rest)
            if re.fullmatch(r'%\d+', rest): cnt += 1
        self._en = str(cnt)
        return self._en

    def setv(self, dest, ty, expr):
        self.vty[dest] = ty
        return '%s = %s;' % (self.lname(dest), expr)

    def instr(self, s, bl):
        c = self.instr0(s, bl)
        if YIELD and c and re.search(r'VERIF_ATOMIC_|VERIF_CMPXCHG', c) and not getattr(self, 'seq', False):
            return 'VERIF_YIELD(); ' + c
        if not getattr(self, 'seq', False) or not c:
            return c
        body = re.sub(r'^(%[^\s=]+|%"[^"]+")\s*=\s*', '', s)
        op = body.split()[0]
        if op in ('tail', 'musttail', 'notail'):
            op = 'call'
        yield_it = False
        if op in ('load', 'store', 'atomicrmw', 'cmpxchg'):
            ptrs = re.findall(r'\*\s+(%[A-Za-z0-9_.]+|%"[^"]+")', body)
            p = ptrs[-1] if ptrs else None
            if op == 'store' and ptrs: p = ptrs[-1]
            if p is None or p not in self.alloca_names:
                yield_it = True
        if op == 'call' and re.search(r'@(pthread_mutex_|verif_sync)', body):
            yield_it = True
        if op == 'ret':
            m = re.match(r'return (.*);$', c)
            if m and m.group(1):
                return 'F->retv = %s; F->done = 1; F->pc = -1; return;' % m.group(1)
            return 'F->done = 1; F->pc = -1; return;'
        if yield_it:
            self.npc += 1
            return 'F->pc = %d; return; S_%d: ; %s' % (self.npc, self.npc, c)
        return c

    def instr0(self, s, bl):
        s = re.sub(r',\s*![a-zA-Z_.]+\s+!\d+', '', s)
        s = re.sub(r'\s+#\d+$', '', s)
        dest = None
        mm = re.match(r'(%[^\s=]+|%"[^"]+")\s*=\s*(.*)$', s)
        if mm:
            dest, s = mm.group(1), mm.group(2)
        op = s.split()[0]
        rest = s[len(op):].strip()
        M = self.m
        if op in ('add', 'sub', 'mul', 'udiv', 'sdiv', 'urem', 'srem', 'shl', 'lshr', 'ashr', 'and', 'or', 'xor'):
            rest = re.sub(r'^(nuw |nsw |exact )+', '', rest)
            ty, r2 = take_type(rest)
            a, b = split_top(r2)
            ca, cb = self.cval(ty, a), self.cval(ty, b)
            ct = M.parse_type(ty)
            n = int(ty[1:])
            mask = '' if n in (8, 16, 32, 64) else ' & %dULL' % ((1 << n) - 1)
            cop = {'add': '+', 'sub': '-', 'mul': '*', 'udiv': '/', 'urem': '%', 'and': '&', 'or': '|', 'xor': '^', 'shl': '<<', 'lshr': '>>'}
            if op in cop:
                wide = 'uint64_t' if n <= 64 else 'unsigned __int128'
                e = '(%s)(((%s)%s %s (%s)%s)%s)' % (ct, wide, ca, cop[op], wide, cb, mask)
                if op in ('shl', 'lshr'):
                    e = '(%s)(((%s)%s %s ((%s)%s & %d))%s)' % (ct, wide, ca, cop[op], wide, cb, 63 if n <= 64 else 127, mask)
            elif op == 'sdiv':
                e = '(%s)(%s / %s)' % (ct, self.signed(ty, ca), self.signed(ty, cb))
            elif op == 'srem':
                e = '(%s)(%s %% %s)' % (ct, self.signed(ty, ca), self.signed(ty, cb))
            elif op == 'ashr':
                e = '(%s)(%s >> (%s & %d))' % (ct, self.signed(ty, ca), cb, n - 1)
            return self.setv(dest, ty, e)
        if op in ('fadd', 'fsub', 'fmul', 'fdiv', 'frem'):
            rest = re.sub(r'^((fast|nnan|ninf|nsz|arcp|contract|afn|reassoc) )+', '', rest)
            ty, r2 = take_type(rest)
            a, b = split_top(r2)
            cop = {'fadd': '+', 'fsub': '-', 'fmul': '*', 'fdiv': '/'}[op]
            return self.setv(dest, ty, '(%s %s %s)' % (self.cval(ty, a), cop, self.cval(ty, b)))
        if op == 'fneg':
            ty, r2 = take_type(rest)
            return self.setv(dest, ty, '(-%s)' % self.cval(ty, r2))
        if op == 'icmp':
            pred, r2 = rest.split(None, 1)
            ty, r3 = take_type(r2)
            a, b = split_top(r3)
            ca, cb = self.cval(ty, a), self.cval(ty, b)
            if ty.endswith('*'):
                ca, cb = '(uintptr_t)' + ca, '(uintptr_t)' + cb
                ty2 = 'i64'
            else:
                ty2 = ty
            cop = {'eq': '==', 'ne': '!=', 'ugt': '>', 'uge': '>=', 'ult': '<', 'ule': '<=', 'sgt': '>', 'sge': '>=', 'slt': '<', 'sle': '<='}[pred]
            if pred.startswith('s'):
                ca, cb = self.signed(ty2, ca), self.signed(ty2, cb)
            return self.setv(dest, 'i1', '(%s %s %s)' % (ca, cop, cb))
        if op == 'fcmp':
            rest = re.sub(r'^((fast|nnan|ninf|nsz|arcp|contract|afn|reassoc) )+', '', rest)
            pred, r2 = rest.split(None, 1)
            ty, r3 = take_type(r2)
            a, b = split_top(r3)
            ca, cb = self.cval(ty, a), self.cval(ty, b)
            unord = '(%s != %s || %s != %s)' % (ca, ca, cb, cb)
            base = {'eq': '==', 'ne': '!=', 'gt': '>', 'ge': '>=', 'lt': '<', 'le': '<='}
            if pred == 'ord': e = '(!%s)' % unord
            elif pred == 'uno': e = unord
            elif pred == 'true': e = '1'
            elif pred == 'false': e = '0'
            elif pred[0] == 'o': e = '(!%s && %s %s %s)' % (unord, ca, base[pred[1:]], cb)
            else: e = '(%s || %s %s %s)' % (unord, ca, base[pred[1:]], cb)
            return self.setv(dest, 'i1', e)
        if op == 'select':
            parts = split_top(rest)
            cty, cv = take_type(parts[0])
            ty, a = take_type(parts[1])
            _, b = take_type(parts[2])
            return self.setv(dest, ty, '(%s ? %s : %s)' % (self.cval(cty, cv), self.cval(ty, a), self.cval(ty, b)))
        if op in ('zext', 'trunc', 'sext', 'bitcast', 'ptrtoint', 'inttoptr', 'sitofp', 'uitofp', 'fptosi', 'fptoui', 'fpext', 'fptrunc', 'freeze', 'addrspacecast'):
            if op == 'freeze':
                ty, v = take_type(rest)
                return self.setv(dest, ty, self.cval(ty, v))
            m2 = re.match(r'(.*)\s+to\s+(.*)$', rest, re.S)
            sty, sv = take_type(m2.group(1))
            dty = m2.group(2).strip()
            cv = self.cval(sty, sv)
            ct = M.parse_type(dty)
            if op == 'sext':
                e = '(%s)%s' % (ct, self.signed(sty, cv)) if sty != 'i1' else '(%s)(%s ? -1 : 0)' % (ct, cv)
                if sty != 'i1':
                    n = int(dty[1:])
                    sc = {8: 'int8_t', 16: 'int16_t', 32: 'int32_t', 64: 'int64_t'}[n]
                    e = '(%s)(%s)%s' % (ct, sc, self.signed(sty, cv))
            elif op == 'trunc':
                n = int(dty[1:])
                e = '(%s)(%s & %dULL)' % (ct, cv, (1 << n) - 1) if n not in (8, 16, 32, 64) else '(%s)%s' % (ct, cv)
            elif op == 'bitcast' and not sty.endswith('*') and sty != dty:
                e = 'verif_bitcast_%s_%s(%s)' % (M.mangle(sty), M.mangle(dty), cv)
            elif op == 'sitofp':
                e = '(%s)%s' % (ct, self.signed(sty, cv))
            elif op == 'fptosi':
                n = int(dty[1:])
                sc = {8: 'int8_t', 16: 'int16_t', 32: 'int32_t', 64: 'int64_t'}[n]
                e = '(%s)(%s)%s' % (ct, sc, cv)
            else:
                e = '(%s)%s' % (ct, cv)
            return self.setv(dest, dty, e)
        if op == 'getelementptr':
            rest = re.sub(r'^inbounds\s+', '', rest)
            parts = split_top(rest)
            # result type: compute by walking
            base_ty = parts[0].strip()
            cur = base_ty
            for p in parts[3:]:
                ity, iv = take_type(p)
                cur = cur.strip()
                if cur.startswith('['):
                    cur = re.fullmatch(r'\[\s*(\d+)\s*x\s*(.*)\]', cur, re.S).group(2)
                else:
                    cur = M.fields_of(cur)[int(iv)]
            rty = cur.strip() + '*'
            return self.setv(dest, rty, '(%s)%s' % (M.parse_type(rty), self.gep(parts)))
        if op == 'load':
            atomic = rest.startswith('atomic')
            rest = re.sub(r'^(atomic\s+)?(volatile\s+)?', '', rest)
            parts = split_top(rest)
            ty = parts[0].strip()
            pty, pv = take_type(parts[1])
            pv = pv.split()[0] if not pv.startswith(('bitcast', 'getelementptr')) else pv
            pe = self.cval(pty, pv)
            if atomic:
                return self.setv(dest, ty, 'VERIF_ATOMIC_LOAD(%s, %s)' % (M.parse_type(ty), pe))
            return self.setv(dest, ty, '(*%s)' % pe)
        if op == 'store':
            atomic = rest.startswith('atomic')
            rest = re.sub(r'^(atomic\s+)?(volatile\s+)?', '', rest)
            parts = split_top(rest)
            ty, v = take_type(parts[0])
            pty, pv = take_type(parts[1])
            if not pv.startswith(('bitcast', 'getelementptr')):
                pv = pv.split()[0]
            if atomic:
                return 'VERIF_ATOMIC_STORE(%s, %s, %s);' % (M.parse_type(ty), self.cval(pty, pv), self.cval(ty, v))
            return '*%s = %s;' % (self.cval(pty, pv), self.cval(ty, v))
        if op == 'atomicrmw':
            rest = re.sub(r'^volatile\s+', '', rest)
            rop, r2 = rest.split(None, 1)
            parts = split_top(r2)
            pty, pv = take_type(parts[0])
            rem = parts[1]
            ty, v = take_type(rem)
            v = v.split()[0]
            return self.setv(dest, ty, 'VERIF_ATOMIC_RMW_%s(%s, %s, %s)' % (rop, M.parse_type(ty), self.cval(pty, pv), self.cval(ty, v)))
        if op == 'cmpxchg':
            rest = re.sub(r'^(weak\s+)?(volatile\s+)?', '', rest)
            parts = split_top(rest)
            pty, pv = take_type(parts[0])
            ty, ev = take_type(parts[1])
            _, nv = take_type(parts[2])
            nv = nv.split()[0]
            rty = '{ %s, i1 }' % ty
            ct = M.parse_type(rty)
            self.vty[dest] = rty
            return 'VERIF_CMPXCHG(%s, %s, %s, %s, %s);' % (M.parse_type(ty), self.lname(dest), self.cval(pty, pv), self.cval(ty, ev), self.cval(ty, nv))
        if op == 'fence':
            return 'VERIF_FENCE();'
        if op == 'extractvalue':
            parts = split_top(rest)
            aty, av = take_type(parts[0])
            cur = aty
            acc = self.cval(aty, av)
            for k in parts[1:]:
                cur = cur.strip()
                if cur.startswith('['):
                    acc += '.a[%s]' % k; cur = re.fullmatch(r'\[\s*(\d+)\s*x\s*(.*)\]', cur, re.S).group(2)
                else:
                    acc += '.f%s' % k.strip(); cur = M.fields_of(cur)[int(k)]
            return self.setv(dest, cur.strip(), acc)
        if op == 'insertvalue':
            parts = split_top(rest)
            aty, av = take_type(parts[0])
            ety, ev = take_type(parts[1])
            cur = aty
            acc = self.lname(dest)
            for k in parts[2:]:
                cur = cur.strip()
                if cur.startswith('['):
                    acc += '.a[%s]' % k; cur = re.fullmatch(r'\[\s*(\d+)\s*x\s*(.*)\]', cur, re.S).group(2)
                else:
                    acc += '.f%s' % k.strip(); cur = M.fields_of(cur)[int(k)]
            self.vty[dest] = aty
            return '%s = %s; %s = %s;' % (self.lname(dest), self.cval(aty, av), acc, self.cval(ety, ev))
        if op == 'alloca':
            parts = split_top(rest)
            ty = parts[0].strip()
            cnt = None
            for p in parts[1:]:
                if not p.startswith('align'):
                    cty, cv = take_type(p); cnt = self.cval(cty, cv)
            self.vty[dest] = ty + '*'
            self.alloca_names.add(dest)
            nm = self.lname(dest) + '_mem'
            if cnt:
                return '%s = (%s*)malloc(sizeof(%s) * %s); __CPROVER_assume(%s != 0);' % (self.lname(dest), M.parse_type(ty), M.parse_type(ty), cnt, self.lname(dest))
            self.allocas = self.allocas + ['  %s %s;' % (M.parse_type(ty), nm)]
            return '%s = &%s;' % (self.lname(dest), nm)
        if op == 'br':
            if rest.startswith('label'):
                return self.goto(bl, rest.split()[1])
            parts = split_top(rest)
            cty, cv = take_type(parts[0])
            t = parts[1].split()[1]; f = parts[2].split()[1]
            return 'if (%s) %s else %s' % (self.cval(cty, cv), self.goto(bl, t), self.goto(bl, f))
        if op == 'switch':
            m2 = re.match(r'(.*?),\s*label\s+(%[^\s]+)\s*\[(.*)\]', rest, re.S)
            ty, v = take_type(m2.group(1))
            out = 'switch (%s) {' % self.cval(ty, v)
            for cm in re.finditer(r'(i\d+)\s+(-?\d+),\s*label\s+(%[^\s]+)', m2.group(3)):
                out += ' case %s: %s' % (self.cval(cm.group(1), cm.group(2)), self.goto(bl, cm.group(3)))
            out += ' default: %s }' % self.goto(bl, m2.group(2))
            return out
        if op == 'ret':
            if rest.strip() == 'void':
                return 'return;'
            ty, v = take_type(rest)
            return 'return %s;' % self.cval(ty, v)
        if op == 'unreachable':
            return 'VERIF_UNREACHABLE();'
        if op in ('call', 'tail', 'musttail', 'notail', 'invoke'):
            if op in ('tail', 'musttail', 'notail'):
                rest = rest.split(None, 1)[1]
            return self.call(dest, rest, bl, op == 'invoke')
        raise Exception('unhandled instr: ' + s)

    def call(self, dest, rest, bl, invoke):
        M = self.m
        rest = re.sub(r'^((fastcc|ccc|noundef|zeroext|signext|nonnull|noalias|nnan|ninf|nsz|fast|contract|afn|reassoc|arcp|align \d+|dereferenceable\(\d+\)|dereferenceable_or_null\(\d+\))\s+)+', '', rest)
        rty, r2 = take_type(rest)
        r2 = re.sub(r'^((noundef|zeroext|signext|nonnull|noalias)\s+)+', '', r2)
        # function type may have been consumed as part of rty if "void (...)*"
        if r2.startswith('asm'):
            return 'VERIF_ASM();'
        mm = re.match(r'(@[^\s(]+|@"[^"]+"|%[^\s(]+)\s*\((.*)\)(.*)$', r2, re.S)
        callee, args, tail = mm.group(1), mm.group(2), mm.group(3)
        # cut args at matching paren
        depth = 0; end = None
        full = r2[len(callee):].lstrip()
        for i, ch in enumerate(full):
            if ch == '(': depth += 1
            elif ch == ')':
                depth -= 1
                if depth == 0: end = i; break
        args = full[1:end]
        tail = full[end + 1:]
        if '(' in rty and rty.endswith('*'):
            # "rettype (argtypes)*" function pointer type prefix
            rty = rty[:rty.index('(')].strip()
        cargs = []
        atys = []
        for a in split_top(args):
            if a.startswith('metadata'):
                cargs.append('0'); continue
            aty, av = take_type(a)
            av = strip_attrs(av)
            atys.append(aty)
            cargs.append(self.cval(aty, av))
        fn = callee[1:].strip('"')
        res = None
        if callee.startswith('@llvm.'):
            res = self.intrinsic(fn, rty, atys, cargs)
            if res is None:
                return ''
        elif callee.startswith('%'):
            # indirect call
            ptys = ', '.join(M.parse_type(t) for t in atys)
            res = '((%s (*)(%s))%s)(%s)' % (M.parse_type(rty), ptys, self.lname(callee), ', '.join(cargs))
        else:
            res = '%s(%s)' % (gname(callee), ', '.join(cargs))
            M.called = getattr(M, 'called', {})
            M.called[fn] = (rty, atys)
        code = ''
        if dest and rty != 'void':
            code = self.setv(dest, rty, res)
        else:
            code = res + ';'
        if invoke:
            m3 = re.search(r'to label (%[^\s]+) unwind label (%[^\s]+)', tail)
            code += ' ' + self.goto(bl, m3.group(1))
        return code

    def intrinsic(self, fn, rty, atys, a):
        ct = self.m.parse_type(rty) if rty != 'void' else 'void'
        if fn.startswith(('llvm.lifetime', 'llvm.dbg', 'llvm.assume', 'llvm.experimental.noalias', 'llvm.invariant')):
            return None
        if fn.startswith('llvm.memcpy') or fn.startswith('llvm.memmove'):
            return 'memmove(%s, %s, %s)' % (a[0], a[1], a[2])
        if fn.startswith('llvm.memset'):
            return 'memset(%s, %s, %s)' % (a[0], a[1], a[2])
        if fn.startswith('llvm.ctlz'):
            n = int(rty[1:])
            return '(%s)verif_ctlz%d(%s)' % (ct, n, a[0])
        if fn.startswith('llvm.cttz'):
            n = int(rty[1:])
            return '(%s)verif_cttz%d(%s)' % (ct, n, a[0])
        if fn.startswith('llvm.ctpop'):
            return '(%s)__builtin_popcountll(%s)' % (ct, a[0])
        for k, cop, sg in (('umin', '<', 0), ('umax', '>', 0), ('smin', '<', 1), ('smax', '>', 1)):
            if fn.startswith('llvm.' + k):
                x, y = (self.signed(rty, a[0]), self.signed(rty, a[1])) if sg else (a[0], a[1])
                return '(%s %s %s ? %s : %s)' % (x, cop, y, a[0], a[1])
        if fn.startswith('llvm.fabs'):
            return '(%s < 0 ? -%s : %s)' % (a[0], a[0], a[0]) if False else 'verif_fabs_%s(%s)' % (rty, a[0])
        if fn.startswith('llvm.expect'):
            return a[0]
        if fn.startswith('llvm.trap'):
            return 'VERIF_TRAP()'
        if fn.startswith('llvm.abs'):
            return '(%s)(%s < 0 ? -%s : %s)' % (ct, self.signed(rty, a[0]), self.signed(rty, a[0]), self.signed(rty, a[0]))
        if fn.startswith('llvm.pow.') or fn.startswith('llvm.ceil') or fn.startswith('llvm.floor'):
            return 'verif_%s(%s)' % (fn.replace('.', '_'), ', '.join(a))
        if fn.startswith('llvm.fshl'):
            n = int(rty[1:])
            return '(%s)((%s << (%s %% %d)) | ((%s %% %d) ? (%s >> (%d - (%s %% %d))) : 0))' % (ct, a[0], a[2], n, a[2], n, a[1], n, a[2], n)
        if fn.startswith('llvm.usub.sat'):
            return '(%s > %s ? (%s)(%s - %s) : (%s)0)' % (a[0], a[1], ct, a[0], a[1], ct)
        if fn.startswith('llvm.umul.with.overflow'):
            return '((%s){ (uint64_t)(%s * %s), (uint8_t)(%s != 0 && %s > UINT64_MAX / %s) })' % (ct, a[0], a[1], a[1], a[0], a[1])
        if fn.startswith('llvm.uadd.with.overflow'):
            return '((%s){ (uint64_t)(%s + %s), (uint8_t)((uint64_t)(%s + %s) < %s) })' % (ct, a[0], a[1], a[0], a[1], a[0])
        if fn.startswith('llvm.stacksave'): return '((uint8_t*)0)'
        if fn.startswith('llvm.stackrestore'): return None
        raise Exception('intrinsic ' + fn)

def gname(v):
    n = v[1:].strip('"')
    return 'g_' + re.sub(r'[^A-Za-z0-9_]', '_', n) if not re.fullmatch(r'[A-Za-z_][A-Za-z0-9_]*', n) else n

PRELUDE = r'''
#include <stdint.h>
#include <stddef.h>
#include <string.h>
#include <stdlib.h>
#include "verif_rt.h"
'''

SEQ = {}
YIELD = '--yield' in sys.argv
def main():
    for a in sys.argv[2:]:
        if a.startswith('--seq='):
            SEQ.update({x.split(':')[0]: int(x.split(':')[1]) if ':' in x else 1 for x in a[6:].split(',')})
    src = open(sys.argv[1]).read()
    mod = Module(src)
    fout = []
    protos = []
    defined = set()
    for body in mod.funcs:
        if '@_GLOBAL__sub_I' in body[0] or '@__cxx_global_var_init' in body[0]:
            continue
        ft = FuncTr(mod, body, fout)
        ft.allocas = []
        mname = re.search(r'@([^\s(]+|"[^"]+")\(', body[0]).group(1).strip('"')
        ft.seq = SEQ.get(mname, 0)
        try:
            ft.translate()
        except Exception as e:
            sys.stderr.write('FAIL %s: %s\n' % (body[0][:100], e))
            raise
        protos.append(ft.sig + ';')
        defined.add(ft.name.strip('"'))
    # globals
    gout = []
    for g in mod.globals:
        m = re.match(r'(@[^\s=]+|@"[^"]+")\s*=\s*(.*)$', g)
        name, rest = m.group(1), m.group(2)
        rest = re.sub(r'^((private|internal|external|linkonce_odr|weak_odr|weak|common|dso_local|hidden|unnamed_addr|local_unnamed_addr|thread_local|constant|global|available_externally|appending)\s+)+', '', rest)
        try:
            ty, init = take_type(rest)
        except Exception:
            continue
        init = re.sub(r',\s*(align|comdat|section).*$', '', init).strip()
        ct = mod.parse_type(ty)
        cinit = ''
        mm = re.match(r'c"(.*)"$', init)
        if mm:
            raw = mm.group(1)
            bs = []
            i = 0
            while i < len(raw):
                if raw[i] == '\\':
                    bs.append(int(raw[i+1:i+3], 16)); i += 3
                else:
                    bs.append(ord(raw[i])); i += 1
            cinit = ' = {{%s}}' % ','.join(map(str, bs))
        elif re.fullmatch(r'-?\d+', init):
            cinit = ' = %s' % init
        elif re.fullmatch(r'\[\s*(i\d+\s+-?\d+\s*,?\s*)+\]', init):
            # constant array of integers, e.g. [i32 0, i32 1, i32 2]
            cinit = ' = {{%s}}' % ','.join(re.findall(r'i\d+\s+(-?\d+)', init))
        elif init in ('zeroinitializer', ''):
            cinit = ''
        else:
            cinit = ' /* init dropped: %s */' % init[:60].replace('*/', '')
        gout.append('%s %s%s;' % (ct, gname(name), cinit))
    ext = []
    for fn, (rty, atys) in getattr(mod, 'called', {}).items():
        if fn in defined: continue
        ext.append('%s %s(%s);' % (mod.parse_type(rty), gname('@' + fn), ', '.join(mod.parse_type(t) for t in atys) or 'void'))
    print(PRELUDE)
    # forward-declare structs
    for t in mod.typedefs:
        print(t.split('{')[0].strip() + ';')
    print('\n'.join(mod.typedefs))
    print('\n'.join(gout))
    print('#ifndef VERIF_NO_EXTERN_DECLS')
    print('\n'.join(ext))
    print('#endif')
    print('\n'.join(protos))
    print('\n'.join(fout))

if __name__ == '__main__':
    main()

"""C17 — write/read round trip of the text formats (engine K, string kernels).

Real code, sliced verbatim: WriteStreamCSV::{writeNextTupleCSV, outputSymbol, writeNextTupleElement}
(src/include/souffle/io/WriteStreamCSV.h) and ReadStreamCSV::{readNextLine, nextElement} (src/include/souffle/io/ReadStreamCSV.h),
std::string/std::ostream -> bounded vstd:: types, the input file -> an in-memory byte buffer with getline.
For EVERY tuple of k symbols of <= L bytes each (full byte alphabet minus the bytes the format cannot carry) CBMC decides
read(write(tuple)) == tuple, in tab mode, custom-delimiter mode and RFC 4180 mode.  Counterexamples are replayed on the natively
compiled real WriteStreamCSV / ReadStreamCSV classes with real std::string / iostreams."""
import os
import re
import threading
import time

from vlib import common
from vlib.common import EngineError, log, sh
from . import kcommon as K

PID = "C17"
SRC_W = "src/include/souffle/io/WriteStreamCSV.h"
SRC_R = "src/include/souffle/io/ReadStreamCSV.h"
SRC_SU = "src/include/souffle/utility/StringUtil.h"
VSTD = os.path.join(K.HERE, "c17_vstd.h")

MODES = {  # mode id -> (name, rfc4180, delimiter)
    0: ("tab", 0, "\t"),
    1: ("rfc4180", 1, ","),
    2: ("custom-delimiter-semicolon", 0, ";"),
    3: ("custom-delimiter-comma", 0, ","),
}


def _rewrite(txt):
    txt = re.sub(r"throw\s+std::\w+\s*\((?:[^;])*\);", "verif_throw();", txt, flags=re.S)
    txt = re.sub(r"\bstd::string\b", "vstd::string", txt)
    txt = re.sub(r"\bstd::ostream\b", "vstd::ostream", txt)
    txt = re.sub(r"\bstd::stringstream\b", "vstd::stringstream", txt)
    txt = re.sub(r"\bstd::min\b", "vstd::min", txt)
    txt = re.sub(r"\bstd::(stoi|stol|stoll|stoul|stoull)\b", r"vstd::\1", txt)
    if re.search(r"\bthrow\b", txt):
        raise EngineError("unhandled throw expression in slice:\n" + txt[:400])
    return txt


def _slices():
    w = common.read_repo(SRC_W)
    r = common.read_repo(SRC_R)
    su = common.read_repo(SRC_SU)
    f = {}
    f["writeNextTupleCSV"] = K.extract_braced(w, r"void writeNextTupleCSV\(std::ostream& destination, const RamDomain\* tuple\)\s*\{", "writeNextTupleCSV")
    f["outputSymbol"] = K.extract_braced(w, r"void outputSymbol\(std::ostream& destination, const std::string& value, bool fieldValue\)\s*\{", "outputSymbol")
    f["writeNextTupleElement"] = K.extract_braced(w, r"void writeNextTupleElement\(std::ostream& destination, const std::string& type, RamDomain value\)\s*\{", "writeNextTupleElement")
    f["readNextLine"] = K.extract_braced(r, r"bool readNextLine\(std::string& line, bool& isCRLF\)\s*\{", "readNextLine")
    f["nextElement"] = K.extract_braced(r, r"std::string nextElement\(std::string& line, std::size_t& start, bool& wasCRLF\)\s*\{", "nextElement")
    f["isPrefix"] = K.extract_braced(su, r"inline bool isPrefix\(const std::string& prefix, const std::string& element\)\s*\{", "isPrefix")
    f["RamSignedFromString"] = K.extract_braced(su, r"inline RamSigned RamSignedFromString\(", "RamSignedFromString")
    f["RamUnsignedFromString"] = K.extract_braced(su, r"inline RamUnsigned RamUnsignedFromString\(", "RamUnsignedFromString")
    if "destination << '\"'" not in f["outputSymbol"] and "rfc4180" not in f["outputSymbol"]:
        raise EngineError("outputSymbol slice does not look like the RFC 4180 quoting code")
    return {k: _rewrite(v) for k, v in f.items()}


def _wrapper(sl):
    return r'''
#include "souffle/RamTypes.h"
#include <limits>
#include <cstdint>
#include "c17_vstd.h"
#undef assert
#define assert(c) do { if (!(c)) verif_abort(); } while (0)
namespace vstd {
// decimal printers of std::ostream for the two integer column types (library code, modelled; validated natively each run)
inline ostream& operator<<(ostream& o, int32_t v) {
  char tmp[12]; int n = 0; uint32_t m = v < 0 ? (uint32_t)0 - (uint32_t)v : (uint32_t)v;
  do { tmp[n++] = (char)('0' + m % 10u); m /= 10u; } while (m != 0);
  if (v < 0) o << '-';
  while (n > 0) o << tmp[--n];
  return o; }
inline ostream& operator<<(ostream& o, uint32_t m) {
  char tmp[12]; int n = 0;
  do { tmp[n++] = (char)('0' + m % 10u); m /= 10u; } while (m != 0);
  while (n > 0) o << tmp[--n];
  return o; }
inline ostream& operator<<(ostream& o, float) { verif_unsupported(); }
}
namespace souffle {
template <class... A> [[noreturn]] void fatal(const char*, A...) { verif_unsupported(); }
inline bool isPrefix(const vstd::string& prefix, const vstd::string& element);
''' + sl["RamSignedFromString"] + "\n" + sl["RamUnsignedFromString"] + "\n" + sl["isPrefix"] + r'''
struct MockIn { vstd::string data; vstd::size_t pos = 0; bool eofbit = false; };
static bool getline(MockIn& f, vstd::string& line) {
  line.n = 0;
  if (f.pos >= f.data.n) { f.eofbit = true; return false; }
  while (f.pos < f.data.n && f.data.d[f.pos] != '\n') line.push_back(f.data.d[f.pos++]);
  if (f.pos < f.data.n) f.pos++; else f.eofbit = true;
  return true; }
struct SymTab { const vstd::string* syms; const vstd::string& decode(RamDomain i) const { return syms[i]; } };
struct TypeAttrs { vstd::string t[3]; const vstd::string& at(std::size_t i) const { return t[i]; } };
struct H {
  bool rfc4180; vstd::string delimiter; vstd::size_t lineNumber = 0; MockIn file;
  SymTab symbolTable; TypeAttrs typeAttributes; std::size_t arity = 1;
  void outputRecord(vstd::ostream&, RamDomain, const vstd::string&) { verif_unsupported(); }
  void outputADT(vstd::ostream&, RamDomain, const vstd::string&) { verif_unsupported(); }
''' + sl["outputSymbol"] + sl["writeNextTupleElement"] + sl["writeNextTupleCSV"] + sl["readNextLine"] + sl["nextElement"] + r'''
};
}
using souffle::H;
static vstd::string mk(const char* s, unsigned len) { vstd::string v; for (unsigned i = 0; i < len; i++) v.push_back(s[i]); return v; }
extern "C" {
// write one tuple of k symbols with the real writer, read it back with the real line/field reader.
// returns 1 iff every field read back equals the symbol written and the input is consumed; out/outlen: what was read for field 0..k-1 (L bytes each max 16)
__attribute__((noinline,flatten)) int k_roundtrip(unsigned k, const char* s0, unsigned l0, const char* s1, unsigned l1, const char* s2, unsigned l2,
                                                  int rfc, char delim, char* out, unsigned* outlen, char* written, unsigned* wlen) {
  H h; h.rfc4180 = rfc; h.delimiter.push_back(delim); h.arity = k;
  vstd::string syms[3]; syms[0] = mk(s0, l0); syms[1] = mk(s1, l1); syms[2] = mk(s2, l2);
  h.symbolTable.syms = syms;
  for (unsigned i = 0; i < 3; i++) h.typeAttributes.t[i].push_back('s');
  souffle::RamDomain tuple[3] = {0, 1, 2};
  vstd::ostream os; h.writeNextTupleCSV(os, tuple);
  *wlen = (unsigned)os.buf.n; for (unsigned i = 0; i < os.buf.n; i++) written[i] = os.buf.d[i];
  h.file.data = os.buf;
  vstd::string line; bool crlf = false;
  if (!h.readNextLine(line, crlf)) return -1;
  vstd::size_t start = 0; int ok = 1;
  // the column loop of readNextTuple, written out for k <= 3 (a loop with a parameter bound confuses CBMC's unwinding bookkeeping)
#define READ_FIELD(c) { vstd::string e = h.nextElement(line, start, crlf); \
    outlen[c] = (unsigned)e.n; for (unsigned i = 0; i < e.n && i < 16; i++) out[c * 16 + i] = e.d[i]; \
    if (!(e == syms[c])) ok = 0; }
  if (k > 0) READ_FIELD(0)
  if (k > 1) READ_FIELD(1)
  if (k > 2) READ_FIELD(2)
#undef READ_FIELD
  if (h.file.pos != h.file.data.n) ok = 0;          // everything written belongs to this tuple
  return ok;
}
// numbers: the decimal printer composed with the real Ram*FromString slices
__attribute__((noinline,flatten)) int32_t k_num_signed(int32_t v, unsigned* consumed, unsigned* len) {
  H h; h.rfc4180 = false; vstd::ostream os; h.typeAttributes.t[0].push_back('i'); h.writeNextTupleElement(os, h.typeAttributes.t[0], v);
  std::size_t n = 0; int32_t r = souffle::RamSignedFromString(os.buf, &n); *consumed = (unsigned)n; *len = (unsigned)os.buf.n; return r; }
__attribute__((noinline,flatten)) uint32_t k_num_unsigned(uint32_t v, unsigned* consumed, unsigned* len) {
  H h; h.rfc4180 = false; vstd::ostream os; h.typeAttributes.t[0].push_back('u'); h.writeNextTupleElement(os, h.typeAttributes.t[0], souffle::ramBitCast<souffle::RamDomain>(v));
  std::size_t n = 0; uint32_t r = souffle::RamUnsignedFromString(os.buf, &n); *consumed = (unsigned)n; *len = (unsigned)os.buf.n; return r; }
}
'''


DRIVER = r'''
#include <stdio.h>
#include <stdint.h>
#include <string.h>
#include <setjmp.h>
#include <stdlib.h>
static jmp_buf jb;
void verif_throw(void){ longjmp(jb, 1); }
void verif_overflow(void){ longjmp(jb, 2); }
void verif_abort(void){ longjmp(jb, 3); }
void verif_unsupported(void){ longjmp(jb, 4); }
void verif_oob(void){ longjmp(jb, 5); }
int k_roundtrip(unsigned k, const char* s0, unsigned l0, const char* s1, unsigned l1, const char* s2, unsigned l2, int rfc, char delim, char* out, unsigned* outlen, char* written, unsigned* wlen);
int32_t k_num_signed(int32_t v, unsigned* consumed, unsigned* len); uint32_t k_num_unsigned(uint32_t v, unsigned* consumed, unsigned* len);
int main(int argc, char** argv){
  static const char alpha[] = "a\"\\,\t\n\r[];x\0 b";   /* 14 symbols incl. NUL */
  const unsigned A = 14;
  unsigned seed = argc > 1 ? (unsigned)atoi(argv[1]) : 1;
  char s[3][8]; unsigned l[3]; char out[48]; unsigned outlen[3]; char wr[64]; unsigned wl;
  static const char dl[] = {'\t', ',', ';', ','}; static const int rf[] = {0, 1, 0, 0};
  for (int it = 0; it < 6000; it++) {
    seed = seed * 1103515245u + 12345u; unsigned mode = (seed >> 16) % 4;
    seed = seed * 1103515245u + 12345u; unsigned k = 1 + (seed >> 16) % 3;
    for (unsigned c = 0; c < 3; c++) { seed = seed * 1103515245u + 12345u; l[c] = (seed >> 16) % 4;
      for (unsigned i = 0; i < l[c]; i++) { seed = seed * 1103515245u + 12345u; s[c][i] = alpha[(seed >> 16) % A]; } }
    memset(out, 0, sizeof out); outlen[0] = outlen[1] = outlen[2] = 0; wl = 0;
    int j = setjmp(jb);
    if (j) { printf("T%d\n", j); continue; }
    int r = k_roundtrip(k, s[0], l[0], s[1], l[1], s[2], l[2], rf[mode], dl[mode], out, outlen, wr, &wl);
    printf("%u %u r=%d w=", mode, k, r); for (unsigned i = 0; i < wl; i++) printf("%02x", (unsigned char)wr[i]);
    for (unsigned c = 0; c < k; c++) { printf(" f%u=", c); for (unsigned i = 0; i < outlen[c] && i < 16; i++) printf("%02x", (unsigned char)out[c*16+i]); }
    printf("\n");
  }
  static const int32_t sv[] = {0, 1, -1, 9, 10, -10, 2147483647, -2147483647 - 1, 1000000000, -999999999, 123456789};
  for (unsigned i = 0; i < sizeof sv / sizeof sv[0]; i++) { unsigned c, n; int j = setjmp(jb); if (j) { printf("T%d\n", j); continue; } int32_t r = k_num_signed(sv[i], &c, &n); printf("s %d %d %u %u\n", sv[i], r, c, n); }
  static const uint32_t uv[] = {0u, 1u, 9u, 10u, 4294967295u, 2147483648u, 4000000000u, 99999u};
  for (unsigned i = 0; i < sizeof uv / sizeof uv[0]; i++) { unsigned c, n; int j = setjmp(jb); if (j) { printf("T%d\n", j); continue; } uint32_t r = k_num_unsigned(uv[i], &c, &n); printf("u %u %u %u %u\n", uv[i], r, c, n); }
  for (int it = 0; it < 2000; it++) { seed = seed * 1103515245u + 12345u; uint32_t v = seed ^ (seed << 13); unsigned c, n; int j = setjmp(jb); if (j) { printf("T%d\n", j); continue; }
    printf("r %u %d %u\n", v, k_num_signed((int32_t)v, &c, &n), k_num_unsigned(v, &c, &n)); }
  return 0;
}
'''

# native profiling of loop trip counts (profile-guided --unwindset; sufficiency is still checked by CBMC's unwinding assertions)
PROFILE = r'''
#include <stdio.h>
#include <stdint.h>
#include <string.h>
#include <setjmp.h>
#include <stdlib.h>
static jmp_buf jb;
void verif_throw(void){ longjmp(jb, 1); }
void verif_overflow(void){ longjmp(jb, 2); }
void verif_abort(void){ longjmp(jb, 3); }
void verif_unsupported(void){ longjmp(jb, 4); }
void verif_oob(void){ longjmp(jb, 5); }
extern unsigned long verif_cnt[]; extern const int verif_ncnt;
int k_roundtrip(unsigned k, const char* s0, unsigned l0, const char* s1, unsigned l1, const char* s2, unsigned l2, int rfc, char delim, char* out, unsigned* outlen, char* written, unsigned* wlen);
int32_t k_num_signed(int32_t v, unsigned* consumed, unsigned* len); uint32_t k_num_unsigned(uint32_t v, unsigned* consumed, unsigned* len);
static unsigned long mx[4096];
static void upd(void){ for (int i = 0; i < verif_ncnt; i++) { if (verif_cnt[i] > mx[i]) mx[i] = verif_cnt[i]; verif_cnt[i] = 0; } }
int main(int argc, char** argv){
  /* argv: rfc delim k L   |  num */
  if (argc > 1 && !strcmp(argv[1], "num")) {
    static const uint32_t vs[] = {0u, 7u, 10u, 4294967295u, 2147483648u, 2147483647u, 1000000000u, 3999999999u};
    for (unsigned i = 0; i < sizeof vs / sizeof vs[0]; i++) { unsigned c, n; if (!setjmp(jb)) k_num_signed((int32_t)vs[i], &c, &n); upd(); if (!setjmp(jb)) k_num_unsigned(vs[i], &c, &n); upd(); }
  } else {
    int rfc = atoi(argv[1]); char delim = (char)atoi(argv[2]); unsigned k = (unsigned)atoi(argv[3]), L = (unsigned)atoi(argv[4]);
    char alpha[] = {'a', '"', '\\', '\n', '\r', '[', ']', 0, delim};
    const unsigned A = sizeof alpha;
    unsigned long per = 0; for (unsigned l = 0, p = 1; l <= L; l++, p *= A) per += p;     /* strings of length <= L */
    unsigned long total = 1; for (unsigned c = 0; c < k; c++) total *= per;
    char s[3][8]; unsigned l[3] = {0,0,0}; char out[48]; unsigned outlen[3]; char wr[80]; unsigned wl;
    for (unsigned long t = 0; t < total; t++) {
      unsigned long x = t;
      for (unsigned c = 0; c < k; c++) { unsigned long idx = x % per; x /= per; unsigned len = 0; unsigned long p = 1;
        while (idx >= p) { idx -= p; p *= A; len++; }
        l[c] = len; for (unsigned i = 0; i < len; i++) { s[c][i] = alpha[idx % A]; idx /= A; } }
      if (!setjmp(jb)) k_roundtrip(k, s[0], l[0], s[1], l[1], s[2], l[2], rfc, delim, out, outlen, wr, &wl);
      upd();
    }
  }
  for (int i = 0; i < verif_ncnt; i++) printf("%d %lu\n", i, mx[i]);
  return 0;
}
'''

HARNESS = r'''
#include <stdint.h>
#include <stdlib.h>
#define VERIF_NO_EXTERN_DECLS
#ifdef WITNESS
#define VASSERT(c, m) ((void)0)
#else
#define VASSERT(c, m) __CPROVER_assert(c, m)
#endif
void verif_throw(void){ VASSERT(0, "the reader rejects (throws on) a line the writer produced"); __CPROVER_assume(0); }
void verif_overflow(void){ __CPROVER_assert(0, "bounded string capacity exceeded (bound too small)"); __CPROVER_assume(0); }
void verif_abort(void){ VASSERT(0, "assert()/abort reached"); __CPROVER_assume(0); }
void verif_unsupported(void){ __CPROVER_assert(0, "construct outside the modelled fragment reached"); __CPROVER_assume(0); }
void verif_oob(void){ VASSERT(0, "string indexed beyond its size (undefined behaviour in the real std::string)"); __CPROVER_assume(0); }
#include KFILE
uint8_t nondet_u8(void); unsigned nondet_uint(void); uint32_t nondet_u32(void);
uint8_t in_a0, in_a1, in_a2, in_a3, in_a4, in_b0, in_b1, in_b2, in_b3, in_b4, in_c0, in_c1, in_c2, in_c3, in_c4; unsigned in_la, in_lb, in_lc; uint32_t in_v;
#ifndef NUM
static int carriable(uint8_t c, int last_of_field_at_line_end){
#if RFC
#ifdef EXCL_QUOTE
  if (c == '"') return 0;          /* known class (quote escaping) excluded by assumption */
#endif
  return 1;                        /* RFC 4180 quoted fields carry every byte */
#else
  if (c == DELIM || c == '\n') return 0;                 /* unquoted text: delimiter and newline cannot be carried */
  if (c == '\r' && last_of_field_at_line_end) return 0;  /* a CR directly before the line end is read as a CRLF line ending */
#ifdef EXCL_BRACKET
  if (c == '[' || c == ']') return 0;                    /* known class: with a comma delimiter brackets are interpreted as record syntax by the reader */
#endif
  return 1;
#endif
}
int main(){
  uint8_t a[5] = {0,0,0,0,0}, b[5] = {0,0,0,0,0}, c[5] = {0,0,0,0,0};
  unsigned la = nondet_uint(), lb = 0, lc = 0; __CPROVER_assume(la <= LEN);
  for (int i = 0; i < LEN; i++) a[i] = nondet_u8();
#if ARITY >= 2
  lb = nondet_uint(); __CPROVER_assume(lb <= LEN); for (int i = 0; i < LEN; i++) b[i] = nondet_u8();
#endif
#if ARITY >= 3
  lc = nondet_uint(); __CPROVER_assume(lc <= LEN); for (int i = 0; i < LEN; i++) c[i] = nondet_u8();
#endif
  for (int i = 0; i < LEN; i++) {
    if (i < la) __CPROVER_assume(carriable(a[i], ARITY == 1 && i + 1 == la));
    if (i < lb) __CPROVER_assume(carriable(b[i], ARITY == 2 && i + 1 == lb));
    if (i < lc) __CPROVER_assume(carriable(c[i], ARITY == 3 && i + 1 == lc));
  }
  in_a0=a[0]; in_a1=a[1]; in_a2=a[2]; in_a3=a[3]; in_a4=a[4]; in_b0=b[0]; in_b1=b[1]; in_b2=b[2]; in_b3=b[3]; in_b4=b[4]; in_c0=c[0]; in_c1=c[1]; in_c2=c[2]; in_c3=c[3]; in_c4=c[4];
  in_la = la; in_lb = lb; in_lc = lc;
  uint8_t out[48]; uint32_t outlen[3]; uint8_t wr[64]; uint32_t wl;
  uint32_t r = k_roundtrip(ARITY, a, la, b, lb, c, lc, RFC, DELIM, out, outlen, wr, &wl);
  VASSERT(r == 1, "read(write(tuple)) == tuple");
#ifdef WITNESS
  __CPROVER_assert(0, "witness");
#endif
  return 0; }
#else
int main(){
  uint32_t v = nondet_u32(); in_v = v; uint32_t consumed, len;
#if NUM == 1
  int32_t r = (int32_t)k_num_signed(v, &consumed, &len);
  VASSERT(r == (int32_t)v, "RamSignedFromString(print(v)) == v");
#else
  uint32_t r = k_num_unsigned(v, &consumed, &len);
  VASSERT(r == v, "RamUnsignedFromString(print(v)) == v");
#endif
  VASSERT(consumed == len, "the printed number is consumed completely");
#ifdef WITNESS
  __CPROVER_assert(0, "witness");
#endif
  return 0; }
#endif
'''

# native replay on the REAL classes (real std::string, iostreams): WriteStreamCSV::writeNextTupleCSV -> text -> ReadStreamCSV::readNextTuple
REPLAY = r'''
#include "souffle/RamTypes.h"
#include "souffle/SymbolTable.h"
#include "souffle/RecordTable.h"
#include "souffle/datastructure/SymbolTableImpl.h"
#include "souffle/datastructure/RecordTableImpl.h"
#include "souffle/io/ReadStreamCSV.h"
#include "souffle/io/WriteStreamCSV.h"
#include <cstdio>
#include <sstream>
#include <string>
#include <map>
using namespace souffle;
struct W : WriteStreamCSV { std::ostringstream os; W(const std::map<std::string,std::string>& rw, const SymbolTable& st, const RecordTable& rt) : WriteStreamCSV(rw, st, rt) {}
  void writeNullary() override {} void writeNextTuple(const RamDomain* t) override { writeNextTupleCSV(os, t); } void put(const RamDomain* t) { writeNextTuple(t); } };
struct R : ReadStreamCSV { using ReadStreamCSV::ReadStreamCSV; Own<RamDomain[]> next() { return readNextTuple(); } };
static std::string unhex(const char* h){ std::string s; for (size_t i=0; h[i] && h[i+1]; i+=2){ unsigned v; sscanf(h+i, "%2x", &v); s.push_back((char)v);} return s; }
static std::string hex(const std::string& s){ std::string r; char b[4]; for (unsigned char c : s) { snprintf(b, sizeof b, "%02x", c); r += b; } return r; }
int main(int argc, char** argv){
  // argv: rfc(0/1) delimiter-hex type(s|i|u) field-hex...   ("-" = empty field)
  bool rfc = atoi(argv[1]) != 0; std::string delim = unhex(argv[2]); char ty = argv[3][0];
  int k = argc - 4; if (k < 1) return 4;
  std::string types = "{\"relation\": {\"arity\": " + std::to_string(k) + ", \"types\": [";
  for (int i = 0; i < k; i++) types += std::string(i ? ", " : "") + (ty=='s' ? "\"s:symbol\"" : ty=='i' ? "\"i:number\"" : "\"u:unsigned\"");
  types += "]}}";
  std::string names; for (int i = 0; i < k; i++) names += std::string(i ? "\t" : "") + "x" + std::to_string(i);
  std::map<std::string,std::string> rw = {{"operation","output"},{"IO","file"},{"name","a"},{"attributeNames",names},{"auxArity","0"},{"types",types},
                                           {"rfc4180", rfc ? "true" : "false"},{"delimiter",delim}};
  SymbolTableImpl st; SpecializedRecordTable<0> rt;
  std::vector<RamDomain> tup(k); std::vector<std::string> fields(k);
  for (int i = 0; i < k; i++) { fields[i] = std::string(argv[4+i]) == "-" ? std::string() : unhex(argv[4+i]);
    if (ty=='s') tup[i] = st.encode(fields[i]); else if (ty=='i') tup[i] = (RamDomain)std::stoll(fields[i]); else tup[i] = ramBitCast<RamDomain>((RamUnsigned)std::stoull(fields[i])); }
  W w(rw, st, rt); w.put(tup.data());
  std::string text = w.os.str();
  printf("written: %s\n", hex(text).c_str());
  rw["operation"] = "input";
  std::istringstream in(text);
  int bad = 0;
  try { R r(in, rw, st, rt); auto t = r.next();
    if (!t) { printf("MISMATCH: no tuple read back\n"); return 3; }
    for (int i = 0; i < k; i++) {
      if (ty=='s') { std::string got = st.decode(t[i]); printf("field %d: wrote %s read %s\n", i, hex(fields[i]).c_str(), hex(got).c_str()); if (got != fields[i]) bad = 1; }
      else { printf("field %d: wrote %lld read %lld\n", i, (long long)tup[i], (long long)t[i]); if (t[i] != tup[i]) bad = 1; } }
    auto t2 = r.next(); if (t2) { printf("MISMATCH: a second tuple is read from the text of one tuple\n"); bad = 1; }
  } catch (std::exception& e) { printf("MISMATCH: reader throws: %s\n", e.what()); return 3; }
  if (bad) { printf("MISMATCH\n"); return 3; }
  printf("round trip ok\n");
  return 0;
}
'''

_REPLAY = {}


def _replay_exe(work):
    if "error" in _REPLAY:
        raise EngineError(_REPLAY["error"])
    if "exe" not in _REPLAY or not os.path.exists(_REPLAY["exe"]):
        rp = os.path.join(work, "replay.cpp")
        open(rp, "w").write(REPLAY)
        rexe = os.path.join(work, "replay")
        rc, out, err = sh(["g++", "-std=c++17", "-O1", "-w", "-I", os.path.join(common.REPO, "src", "include"), "-I", os.path.join(common.REPO, "src"),
                           rp, "-o", rexe, "-lpthread"], timeout=600)
        if rc != 0:
            raise EngineError("native replay build (real WriteStreamCSV/ReadStreamCSV) failed:\n" + err[-2000:])
        _REPLAY["exe"] = rexe
    return _REPLAY["exe"]


def _try_build(work):
    try:
        _replay_exe(work)
    except EngineError as e:
        _REPLAY["error"] = str(e)


def _prepare(work, cap):
    """slice -> wrapper TU (string capacity cap) -> IR -> C, differential validation, profiling build; returns dict"""
    for rel in (SRC_W, SRC_R, SRC_SU):
        if not os.path.exists(common.repo_file(rel)):
            raise EngineError("source file missing: " + rel)
    sl = _slices()
    sub = os.path.join(work, "cap%d" % cap)
    os.makedirs(sub, exist_ok=True)
    cpp = os.path.join(sub, "csv_k.cpp")
    open(cpp, "w").write(_wrapper(sl))
    capf = ["-DCAP=%d" % cap]
    ll = K.lower(cpp, os.path.join(sub, "csv_k.ll"), extra=["-fno-exceptions", "-I", K.HERE] + capf)
    K.translate(ll, os.path.join(sub, "csv_k.c"))
    drv = os.path.join(sub, "drv.c")
    open(drv, "w").write(DRIVER)
    gen = os.path.join(sub, "csv_gen_native.c")
    open(gen, "w").write('#define __dso_handle verif_dso_handle_\n#include "csv_k.c"\n')
    nlines = K.differential(sub, drv, gen, cpp, extra_cxx=["-fno-exceptions", "-I", K.HERE] + capf, runs=[("1",), ("42",)])
    if nlines < 1000:
        raise EngineError("differential driver produced only %d lines (crash?)" % nlines)
    open(os.path.join(sub, "csv_h.c"), "w").write(HARNESS)
    exe, ids = _instrument(sub)
    return {"dir": sub, "nlines": nlines, "prof": exe, "ids": ids, "h": os.path.join(sub, "csv_h.c")}


def _instrument(work):
    """native build of the IR-derived C with a counter on every loop back-edge line reported by cbmc --show-loops"""
    rc, out, err = sh(["cbmc", os.path.join(work, "csv_h.c"), "--show-loops", "-I", K.HERE, "-I", work, "-DLEN=2", "-DARITY=1", "-DRFC=1", "-DDELIM=44", "-DKFILE=\"csv_k.c\""], timeout=120)
    loops = re.findall(r"^Loop (\S+):\n\s+file (\S+) line (\d+) function (\S+)", out, re.M)
    src = open(os.path.join(work, "csv_k.c")).read().split("\n")
    ids = []
    for lid, fn, line, func in loops:
        if os.path.basename(fn) != "csv_k.c":
            continue
        k = len(ids)
        ids.append(lid)
        src[int(line) - 1] = "verif_cnt[%d]++; " % k + src[int(line) - 1]
    if len(ids) < 10:
        raise EngineError("loop table of the CSV kernel not found (%d loops)" % len(ids))
    hdr = "unsigned long verif_cnt[%d]; const int verif_ncnt = %d;\n#define __dso_handle verif_dso_handle_\n" % (len(ids) + 1, len(ids))
    open(os.path.join(work, "csv_prof.c"), "w").write(hdr + "\n".join(src))
    open(os.path.join(work, "prof_drv.c"), "w").write(PROFILE)
    exe = os.path.join(work, "prof")
    rc, out, err = sh(["gcc", "-O1", "-w", "-I", K.HERE, "-I", work, os.path.join(work, "prof_drv.c"), os.path.join(work, "csv_prof.c"), "-o", exe, "-lm"], timeout=300)
    if rc != 0:
        raise EngineError("profiling build failed:\n" + err[-1500:])
    return exe, ids


def _profile(exe, ids, args, margin=1, floor=2):
    rc, out, err = sh([exe] + [str(a) for a in args], timeout=300)
    if rc != 0:
        raise EngineError("loop profiling run failed (rc %d) %s" % (rc, err[-300:]))
    us = {}
    for k, n in re.findall(r"^(\d+) (\d+)$", out, re.M):
        us[ids[int(k)]] = max(floor, int(n) + margin)
    return us


def _loops(work, defs):
    rc, out, err = sh(["cbmc", os.path.join(work, "csv_h.c"), "--show-loops", "-I", K.HERE, "-I", work] + [x for d in defs for x in ("-D", d)], timeout=120)
    ids = re.findall(r"^Loop (\S+):", out, re.M)
    if not ids:
        raise EngineError("no loops listed by cbmc --show-loops:\n" + (out + err)[-800:])
    return ids


def _inputs(res):
    """(fields, v) of each counterexample trace"""
    outs = []
    seen = set()
    for chunk in re.split(r"^Trace for ", res.out, flags=re.M)[1:]:
        vals = {}
        for nm, val, bits in re.findall(r"^\s*(in_[abc]\d|in_l[abc]|in_v)=(-?\d+)[uUlL]*\s*(?:\(([01 ]+)\))?", chunk, re.M):
            vals[nm] = int(bits.replace(" ", ""), 2) if bits else int(val)
        if "in_v" in vals and "in_la" not in vals:
            key = ("v", vals["in_v"])
            if key not in seen:
                seen.add(key)
                outs.append(key)
            continue
        if "in_la" not in vals:
            continue
        try:
            fs = tuple(bytes(vals["in_%s%d" % (f, i)] for i in range(vals.get("in_l" + f, 0))) for f in "abc")
        except KeyError:
            continue
        if fs not in seen:
            seen.add(fs)
            outs.append(fs)
    return outs


def _cap_for(mode, arity, length):
    rfc = MODES[mode][1]
    need = (arity * (2 + 3 * length) if rfc else arity * length) + arity + 1
    for c in (16, 24, 40):
        if need + 1 <= c:
            return c
    raise EngineError("no string capacity for mode %s fields %d L %d" % (mode, arity, length))


def run(tier, seed, only=None):
    t0 = time.time()
    res = common.Result(PID, "other")
    work = common.scratch_dir("c17")
    thorough = tier == "thorough"
    try:
        _REPLAY.clear()
        bt = threading.Thread(target=lambda: _try_build(work))
        bt.start()
        # (mode, fields, L, excluded known class or None)
        if not thorough:
            cfgs = [(1, 1, 2, None), (0, 1, 3, None), (0, 2, 2, None)]   # rfc4180 at L=2: quote/newline adjacency needs two bytes
        else:
            cfgs = [(1, 1, 2, None), (1, 2, 1, None), (0, 1, 5, None), (0, 2, 3, None), (0, 3, 2, None),
                    (2, 1, 4, None), (2, 2, 2, None), (3, 1, 3, None), (3, 2, 2, None)]
        preps = {}
        for cap in sorted(set(_cap_for(m, a, l) for m, a, l, x in cfgs) | ({16} if thorough else set())):
            preps[cap] = _prepare(work, cap)
        nlines = sum(p["nlines"] for p in preps.values())
        obls = []

        def mk_ob(mode, arity, length, excl):
            mname, rfc, delim = MODES[mode]
            name = "%s:fields=%d:L=%d%s" % (mname, arity, length, ":excl-%s" % excl if excl else "")
            cap = _cap_for(mode, arity, length)
            pz = preps[cap]
            us = _profile(pz["prof"], pz["ids"], [rfc, ord(delim), arity, length])
            defs = ["LEN=%d" % length, "ARITY=%d" % arity, "RFC=%d" % rfc, "DELIM=%d" % ord(delim), 'KFILE="csv_k.c"'] + \
                   (["EXCL_QUOTE"] if excl == "quote" else []) + (["EXCL_BRACKET"] if excl == "bracket" else [])
            return K.Obligation(name, [pz["h"]], defines=defs, unwind=length + 2, unwindset=us,
                                timeout=280 if not thorough else 900, includes=[pz["dir"]], mem_gb=10,
                                meta={"mode": mname, "rfc4180": bool(rfc), "delimiter": delim, "fields": arity, "L": length, "string_capacity": cap,
                                      "excluded": {"quote": ["symbols containing '\"' (quote-escape class)"],
                                                   "bracket": ["symbols containing '[' or ']' (comma-delimiter record-syntax class)"]}.get(excl, []),
                                      "_mode": mode, "_kind": "sym", "_cfg": (mode, arity, length, excl)})
        for mode, arity, length, excl in cfgs:
            o = mk_ob(mode, arity, length, excl)
            if only and only not in o.name:
                continue
            obls.append(o)
        if thorough:
            pz = preps[16]
            us = _profile(pz["prof"], pz["ids"], ["num"], margin=3)
            for num, nm in ((1, "signed"), (2, "unsigned")):
                name = "numbers:%s:all-32-bit-values" % nm
                if only and only not in name:
                    continue
                obls.append(K.Obligation(name, [pz["h"]], defines=["NUM=%d" % num, 'KFILE="csv_k.c"'], unwind=14, unwindset=us, timeout=600, includes=[pz["dir"]],
                                         mem_gb=10, extra=["--external-sat-solver", "kissat"],
                                         meta={"mode": "number printer o Ram%sFromString" % nm.capitalize(), "_kind": "num", "_num": num, "_opt": True}))
        found = {}
        dropped = []
        batch = list(obls)
        K.run_all(batch, jobs=6)
        # profile-guided bounds that turn out too small: only unwinding assertions fail -> raise those loops and re-run
        def refine(batch):
            for _round in range(4):
                redo = []
                for o in batch:
                    if o.verdict == "violated" and o.res.failed and all("unwinding assertion" in d for n_, d in o.res.failed):
                        for n_, d in o.res.failed:
                            m = re.match(r"(.*)\.unwind\.(\d+)$", n_)
                            if m:
                                lid = "%s.%s" % (m.group(1), m.group(2))
                                o.unwindset[lid] = o.unwindset.get(lid, o.unwind or 2) + 2
                        o.meta["unwind_refinements"] = o.meta.get("unwind_refinements", 0) + 1
                        redo.append(o)
                if not redo:
                    break
                K.run_all(redo, jobs=6)

        refine(batch)
        bt.join()
        twins = []

        def process(batch):
            for o in batch:
                if o.verdict == "holds":
                    continue
                if o.verdict != "violated":
                    if o.meta.get("_opt") and o.res is not None and o.res.status in ("timeout", "oom"):
                        dropped.append("%s: no verdict (%s after %.0f s) — not part of the claim" % (o.name, o.res.status, o.res.time))
                    else:
                        res.inconc("%s: %s" % (o.name, o.why))
                    continue
                failed = "; ".join(sorted(set(d for n_, d in o.res.failed)))
                ins = _inputs(o.res)
                if not ins:
                    res.inconc("%s: counterexample (%s) but inputs not found in the trace" % (o.name, failed))
                    continue
                rexe = _replay_exe(work)
                reproduced = 0
                for inp in ins:
                    if o.meta["_kind"] == "num":
                        v = inp[1]
                        txt = str(v - (1 << 32) if (o.meta["_num"] == 1 and v >= (1 << 31)) else v)
                        args = ["0", "09", "i" if o.meta["_num"] == 1 else "u", txt.encode().hex()]
                        cls = "numbers"
                        shown = txt
                    else:
                        mname, rfc, delim = MODES[o.meta["_mode"]]
                        fields = inp[:o.meta["fields"]]
                        args = [str(rfc), delim.encode().hex(), "s"] + [(f.hex() or "-") for f in fields]
                        allb = b"".join(fields)
                        if rfc and b'"' in allb:
                            cls = "quote-escape"
                        elif b"\r" in allb:
                            cls = "carriage-return"
                        elif b"[" in allb or b"]" in allb:
                            cls = "bracket"
                        else:
                            cls = "other"
                        shown = repr(list(fields))
                    rc, out, err = sh([rexe] + args, timeout=20)
                    if rc == 3 and "MISMATCH" in out:
                        reproduced += 1
                        key = "%s:%s" % (o.meta["mode"] if o.meta["_kind"] == "sym" else "numbers", cls)
                        if key not in found:
                            desc = "%s: tuple %s does not survive write+read on the real classes:\n%s" % (o.name, shown, out.strip()[-700:])
                            d = K.save_replay(PID, key, {"replay.cpp": REPLAY, "args.txt": " ".join(args) + "\n", "trace.txt": o.res.out[-30000:],
                                                         "README": "g++ -std=c++17 -O1 -I $REPO/src/include -I $REPO/src replay.cpp -o r -lpthread && ./r $(cat args.txt)\n"
                                                                   "args: rfc4180(0/1) delimiter-hex type field-hex...\n%s\n" % desc})
                            found[key] = d
                            res.violation(key, desc.replace("\n", " | "), d)
                        # re-prove the rest with the reported class excluded by assumption (second round)
                        excl = {"quote-escape": "quote", "bracket": "bracket"}.get(cls)
                        if excl and o.meta["_kind"] == "sym" and o.meta["_cfg"][3] is None:
                            cfg = o.meta["_cfg"][:3] + (excl,)
                            if cfg not in [t.meta["_cfg"] for t in twins]:
                                twins.append(mk_ob(*cfg))
                if not reproduced:
                    K.save_replay(PID, o.name + ".unreplayed", {"trace.txt": o.res.out[-40000:], "README": "%s\n%s\ninputs %s\n" % (o.name, failed, ins)})
                    res.inconc("%s: solver counterexample(s) (%s) did not reproduce on the real classes: %s" % (o.name, failed[:200], ins[:3]))

        process(batch)
        if twins:
            second = list(twins)
            K.run_all(second, jobs=6)
            refine(second)
            obls += second
            process(second)     # a violation of another class inside a twin is replayed and reported like any other
        for o in obls:
            for k in [k for k in o.meta if k.startswith("_")]:
                o.meta.pop(k)
        held = [o for o in obls if o.verdict == "holds"]
        res.coverage = {
            "explanation": "Engine K on verbatim slices of the CSV writer and reader (clang IR -> C -> CBMC): for every tuple of k symbols of <= L bytes each "
                           "over the full byte alphabet minus the bytes the mode cannot carry, the text produced by writeNextTupleCSV/outputSymbol is split "
                           "and unquoted by readNextLine/nextElement into exactly the same symbols and nothing is left over. Where an obligation is violated by a symbol with a quote (RFC 4180) or a bracket (comma delimiter), "
                           "the class is reported and a twin obligation with that class excluded by assumption re-proves the rest. Counterexamples are "
                           "replayed on the natively compiled real WriteStreamCSV / ReadStreamCSV classes.",
            "obligations": len(obls), "discharged": len(held),
            "violated_obligations": sum(1 for o in obls if o.verdict == "violated"),
            "distinct_findings": sorted(found),
            "dropped": dropped,
            "functions_encoded": ["souffle::WriteStreamCSV::writeNextTupleCSV", "souffle::WriteStreamCSV::outputSymbol", "souffle::WriteStreamCSV::writeNextTupleElement",
                                  "souffle::ReadStreamCSV::readNextLine", "souffle::ReadStreamCSV::nextElement",
                                  "souffle::RamSignedFromString", "souffle::RamUnsignedFromString"],
            "source": {SRC_W: common.file_sha(common.repo_file(SRC_W)), SRC_R: common.file_sha(common.repo_file(SRC_R)),
                       SRC_SU: common.file_sha(common.repo_file(SRC_SU)), "engine_k/c17_vstd.h": common.file_sha(VSTD)},
            "bounds": {"configs": [{"mode": MODES[m][0], "fields": a, "L": l, "excluded_class": q} for m, a, l, q in cfgs],
                       "alphabet": {"tab/custom delimiter": "all bytes except the delimiter, newline, a CR directly before the line end (read as CRLF); with a comma delimiter also '[' and ']'",
                                    "rfc4180": "all 256 byte values"}},
            "traces_validated_against_impl": nlines,
            "queries": sum(1 + (1 if o.wres else 0) for o in obls),
            "solver_time_s": round(sum((o.res.time if o.res else 0) + (o.wres.time if o.wres else 0) for o in obls), 1),
            "checker_cmd": obls[0].res.cmd if obls and obls[0].res else "",
            "samples": [o.sample() for o in obls[:12]],
            "exhaustive": False,
            "outside": ["float text (operator<<(float) / std::stof)", "gzip", "JSON", "SQLite", "records and ADTs (outputRecord/readRecord)",
                        "headers option, input column maps", "numbers: thorough tier only (decimal printer model composed with the real Ram*FromString slice)"],
        }
        res.assumptions = [
            "std::string/std::ostream -> bounded vstd types (capacity 16/24/40 per configuration, overflow reported); the input file is an in-memory buffer with getline semantics",
            "per-loop unwinding bounds are derived by natively profiling the IR-derived C on all tuples over a 9-symbol alphabet (+2); sufficiency is checked by CBMC unwinding assertions",
            "symbol table: decode(i) returns the i-th symbolic string; encode is the identity on strings (interning itself is outside)",
            "the field loop of readNextTuple is represented by k consecutive nextElement calls on the same line/start/wasCRLF state",
            "integer printing (std::ostream << int32/uint32) is a decimal printer model; translation validated differentially on %d driver lines" % nlines,
        ]
        for dmsg in dropped:
            res.notes.append(dmsg)
    finally:
        common.rm_rf(work)
    return res

#!/bin/sh
# Offline setup: build souffle from /repo's working tree with hooks on into /verif/.build.
cd "$(dirname "$0")" || exit 2
exec /usr/local/bin/python3-vt -c "
import sys; sys.path.insert(0, '.')
from vlib import common
common.ensure_souffle(quiet=False)
print('setup ok')
"

#!/usr/bin/env python3
"""Regenerates MANIFEST.json from the tables below (run after adding/removing a check)."""
import json
import os

HERE = os.path.dirname(os.path.abspath(__file__))
ALL = ["C%02d" % i for i in range(1, 32)]

K_NOTE = ("Trusted base: clang-14 lowering, our IR->C translator (re-validated differentially against a g++ build of the "
          "same real functions on every run), CBMC 6.11 and its SAT back end; SC memory model; bounds as in evidence.")
R_NOTE = ("Trusted base: the printed RAM is what the interpreter/synthesiser execute (RAM executor validated concretely "
          "against the real interpreter on every run), our RAM semantics + reference least-model encoding, z3 4.x/5.x.")

R_TECH = "translation validation: symbolic execution of the RAM printed by the real souffle over a symbolic fact database, z3 equivalence with an independent least-model reference; models replayed on the real binary"


def R(text, ref, cat="translation_validation", tech=R_TECH):
    return dict(engine="R", cat=cat, tech=tech, text=text, ref=ref, note=R_NOTE)


CHECKS = {
    "C01": R("For every corpus program (65 rule shapes: positive, recursive, negation, constraints, typed columns, functors, generators, "
             "aggregates incl. empty sets, records, eqrel) the initial and transformed RAM emitted by the real souffle are proved equal to "
             "the stratified least model for every database in the bound (U-mode: program constants + m distinct symbolic 32-bit values; "
             "L-mode: <= n tuples of arbitrary 32-bit values).  The interpreter's dispatch loop itself is not encoded.", "DESIGN.md#c01"),
    "C03": R("Transformed RAM for -j1/-j2/-j8 proved equal to the least model for every database in the bound; PARALLEL placement "
             "obligations checked on every emitted program; finer interleavings are covered only through C30/C22/C29.", "DESIGN.md#c03", cat="other"),
    "C04": R("Each optional AST pass disabled singly / all / random subsets, every eligible relation marked inline / no_inline: the RAM of "
             "each variant is proved equal to the least model of the original program for every database in the bound.", "DESIGN.md#c04"),
    "C05": R("Magic-set transformation on all relations, single relations, magic/no_magic qualifiers and exclusions: RAM of each variant "
             "proved equal to the least model of the untransformed program for every database in the bound.", "DESIGN.md#c05"),
    "C06": R("Each RAM transformer skipped singly through the SOUFFLE_VERIF hook (pairs and all in the thorough tier): resulting RAM, "
             "initial RAM and fully optimised RAM proved equal to the least model for every database in the bound, including "
             "inequality-index shapes over all 32-bit signed/unsigned values.", "DESIGN.md#c06"),
    "C07": R("Every permutation plan for every version of every corpus clause with 2-4 positive atoms, every SIPS heuristic, and profile-guided "
             "auto-scheduling (-a with a profile produced by a real run): RAM of each variant proved equal to the least model.", "DESIGN.md#c07"),
    "C08": R("btree / brie / default representation variants and eqrel programs (closure defined by explicit rules in the reference) proved "
             "equal to the least model for every database in the bound; K part: eqrel lookup sentinel logic.", "DESIGN.md#c08"),
    "C02": dict(engine="K", cat="other", tech="bounded model checking (CBMC, SAT/SMT back ends) of code emitted by the real synthesiser (souffle -g) lowered through clang IR -> C, against the interpreter's kernels and bit-vector specifications",
                text="Kernels only: (a) every intrinsic operator/constraint expression emitted by the synthesiser equals the interpreter's kernel and a "
                     "bit-vector spec for all 32-bit arguments in the defined domain; (b) every emitted index comparator is a strict weak order equal to the "
                     "typed lexicographic order and to the interpreter's comparator; (c) emitted range bounds with MIN/MAX sentinels select exactly the "
                     "matching tuples; (d) aggregate initial values / fold steps agree.  Generated loop nests, relation wrappers and -C/-G splitting are outside.",
                ref="DESIGN.md#c02", note=K_NOTE),
    "C17": dict(engine="K", cat="other", tech="bounded model checking (CBMC, kissat/SAT) of the verbatim CSV writer/reader string kernels over a bounded string model, all byte strings up to the bound",
                text="For every tuple of k symbols of at most L bytes (rfc4180: all 256 byte values; unquoted modes minus delimiter/newline), "
                     "ReadStreamCSV::{readNextLine,nextElement}(WriteStreamCSV::{writeNextTupleCSV,outputSymbol}(t)) = t with nothing left over; thorough: "
                     "the decimal printers composed with Ram{Signed,Unsigned}FromString are the identity on all 32-bit values. Float text, gzip, JSON, "
                     "SQLite, records/ADTs are outside.", ref="DESIGN.md#c17", note=K_NOTE),
    "C18": dict(engine="K", cat="other", tech="bounded model checking (CBMC, kissat) of the verbatim number-parsing kernels (std::sto* modelled, model validated against libstdc++ each run) against an independent recogniser, all byte strings up to the bound",
                text="For every byte string up to L bytes (L=5 all bytes, digit shapes up to 11-12) RamSignedFromString / RamUnsignedFromString / "
                     "readRamUnsigned + the completeness test accept iff an independent recogniser says the literal is complete and in range, and store its "
                     "value; otherwise they reach the throw point. Floats, records, error text are outside.", ref="DESIGN.md#c18", note=K_NOTE),
    "C22": dict(engine="K", cat="model_checking", tech="bounded model checking (CBMC) of the sliced interpreter counter and the synthesiser's emitted counter expression, all interleavings of 2-3 threads",
                text="Engine::incCounter with its real member declaration and the counter expression + field declaration emitted by souffle -g, run by 2 and 3 "
                     "threads x 2 calls under all interleavings: returned values pairwise distinct. Counterexample schedules are replayed natively.",
                ref="DESIGN.md#c22", note=K_NOTE),
    "C24": dict(engine="K", cat="proof", tech="bounded model checking (CBMC with SAT, z3 and cvc5 back ends) of the verbatim interpreter operator/constraint cases and the synthesiser's emitted expressions against independent bit-vector/IEEE specifications, all 32-bit arguments",
                text="For each numeric operator x type: interp(a,b) == synth(a,b) == spec(a,b) for all 32-bit arguments in the defined domain; every obligation "
                     "is a solver unsat with a reachable witness twin. String operators and range generators are outside; ^ only as equality of back ends.",
                ref="DESIGN.md#c24", note=K_NOTE),
    "C09": R("Per recursive stratum of the untransformed RAM: from an arbitrary loop-head state satisfying the semi-naive invariant, one execution of the "
             "real loop body yields exactly T(main)\\main, continues iff that is non-empty, updates main/delta/new correctly and reaches the insert "
             "exactly once per body combination containing a delta tuple (integer counting identity); base case proved too. One inductive step covers "
             "any number of iterations; bounded in the universe size only.", "DESIGN.md#c09", cat="proof",
             tech="inductive invariant checking with z3: one symbolic execution of the real RAM loop body from an arbitrary loop-head state, counting identity for exactly-once"),
    "C10": R("Choice-domain contract (functional, sound, maximal) decided on the final database of the emitted RAM for every input database in "
             "the bound, three scan orders, -j1/-j8 RAM.", "DESIGN.md#c10", cat="other"),
    "C11": R("Subsumption contract (no dominated tuple, only derivable tuples, minimal tuples for monotone-cost programs) decided on the emitted RAM "
             "for every database in the bound.", "DESIGN.md#c11", cat="other"),
    "C12": R("Numeric lattices with interpreted Lub/Glb models (max/min, bit-or/bit-and): on the final database of the emitted RAM, for every "
             "input database in the bound: one tuple per key, value = join of all derivable values for the key, every derivable key present.",
             "DESIGN.md#c12", cat="other"),
    "C15": R("For each corpus program the text printed by --show=initial-ast parses again and prints identically (direct runs of the real "
             "parser/printer), and the RAM of the printed program is proved to satisfy the original program's semantics for every database "
             "in the bound.  The parser itself is not encoded.", "DESIGN.md#c15"),
    "C16": R("RAM of component-wrapped programs proved equal to the least model of hand-flattened twins for every database in the bound.", "DESIGN.md#c16"),
    "C19": R("RAM emitted with -t explain: projected outputs proved equal to the least model for every database in the bound; for every "
             "annotated tuple the generated subproof subroutine returns a proof step whose body tuples have strictly smaller height.  "
             "Tree assembly/rendering (ExplainProvenanceImpl.h) is outside.", "DESIGN.md#c19"),
    "C20": R("RAM emitted with -p: outputs proved equal to the least model; the tuple count souffleprof derives from the size events equals "
             "the final relation size as an identity over symbolic guards.  Event serialisation / souffleprof parsing outside.", "DESIGN.md#c20", cat="other"),
    "C23": R("limitsize contract (subset; equal when small; at least k otherwise) decided on the emitted RAM for every database in the bound.", "DESIGN.md#c23", cat="other"),
    "C29": dict(engine="K", cat="other", tech="bounded model checking (CBMC) of the real DisjointSet with PiggyList inlined: sequential step from every valid forest (N<=4) and bounded interference by one complete real operation at every atomic step",
                text="From every valid forest over N<=4 nodes union/find/sameSet update the partition exactly and preserve the ghost-rank invariant "
                     "(hence acyclicity); with one complete operation of another thread injected at any atomic step (N=2 all sites, N=3 selected sites) no "
                     "cycle, no class split, final partition = closure, answers correct. More than one interrupting operation, 3+ threads, weak memory outside.",
                ref="DESIGN.md#c29", note=K_NOTE),
    "C30": dict(engine="K", cat="model_checking", tech="bounded model checking (CBMC, SAT) of IR-derived C of the real lock, all interleavings of 3 clients",
                text="Every role triple of {write, try-write, upgrade, abort, read} over the real OptimisticReadWriteLock methods is one CBMC query "
                     "over all interleavings of 3 clients (unwinding assertions on): single writer, validated reads, sound upgrades, abort "
                     "re-validates leases, nobody waits without a writer. Counterexample schedules are replayed natively.",
                ref="DESIGN.md#c30", note=K_NOTE),
    "C31": dict(engine="K", cat="other", tech="bounded model checking (CBMC) of ConcurrentInsertOnlyHashMap::get and ConcurrentFlyweight::findOrInsert from symbolic bucket-list / lane states with bounded environment insertions",
                text="Hash-map kernel only: from every bucket-list state with <=3 nodes and <=2 environment insertions at solver-chosen atomic points, an equal "
                     "key is found and not re-inserted, a fresh key is inserted exactly once, the returned entry maps to the key, no node is lost; "
                     "findOrInsert slot reservation sequentially from symbolic lane states. Growth, iteration across growth, Symbol/RecordTableImpl outside.",
                ref="DESIGN.md#c31", note=K_NOTE),
}

NOT_APPLICABLE = {
    "C13": "The semantic/type/groundedness checkers are AST-walking C++ over std containers and virtual dispatch; no engine in this image can execute them symbolically and accept/reject is not a relational semantics engine R can validate.",
    "C14": "Crash-freedom over all byte strings needs symbolic execution of the flex/bison parser and the whole driver (iostream, std::string, exceptions): beyond the IR->C translator and CBMC.",
    "C21": "The embedding API only exists in a compiled generated program linked against the real containers and SouffleInterface.h (virtual dispatch, STL); cannot be encoded.",
    "C25": "IR-derived C of btree_set is faithful but CBMC did not finish symbolic execution for 4 symbolic keys in 900 s (nested key-shifting loops x mutual recursion); concurrent histories are further out. Its lock is covered by C30.",
    "C26": "Same code base as C25 plus erase/merge/rebalance; same blow-up.",
    "C27": "Brie: ~3000 lines of templated sparse arrays with lock-free CAS on a pointer-rich heap; strictly harder than C25 for the available engines.",
    "C28": "Eqrel storage composes LambdaBTree (C25 code), PiggyList and iterator caches; only its union-find core (C29) and lookup sentinel logic (C08) are within reach.",
}
PENDING = "check under construction in this session (engine exists in DESIGN.md; not yet claimed)"


def main():
    checks = []
    for pid in ALL:
        if pid not in CHECKS:
            continue
        c = CHECKS[pid]
        checks.append({
            "property_id": pid,
            "quick_cmd": "./check %s --tier quick" % pid,
            "thorough_cmd": "./check %s --tier thorough" % pid,
            "evidence_file": "/verif/evidence/%s.json" % pid,
            "replay_cmd_template": "./check %s --replay {path}" % pid,
            "engine": c["engine"],
            "level_claimed": {"category": c["cat"], "text": c["text"], "design_ref": c["ref"]},
            "level_note": c["note"],
            "technique": c["tech"],
        })
    na = []
    for pid in ALL:
        if pid in CHECKS:
            continue
        na.append({"property_id": pid, "reason": NOT_APPLICABLE.get(pid, PENDING)})
    man = {
        "version": 1,
        "setup_cmd": "./setup.sh",
        "hooks": {
            "guard": "SOUFFLE_VERIF",
            "enable": "checks build /repo into /verif/.build with -DCMAKE_CXX_FLAGS='-O1 -DSOUFFLE_VERIF' (vlib/common.py ensure_souffle)",
            "baseline_off_cmd": "cmake --build /repo/_build -j16 && ctest --test-dir /repo/_build -j8 --timeout 900",
            "source_commits": ["c4f7182c2"],
            "add_only": True,
        },
        "engines": [
            {"name": "K", "path": "engine_k", "serves_properties": sorted(p for p, c in CHECKS.items() if c["engine"] == "K"),
             "kind_free_text": "real C++ kernels -> clang LLVM IR -> C (own translator) -> CBMC bounded model checking"},
            {"name": "R", "path": "engine_r", "serves_properties": sorted(p for p, c in CHECKS.items() if c["engine"] == "R"),
             "kind_free_text": "real souffle's printed RAM -> symbolic execution over a symbolic fact database -> z3 equivalence with the least-model reference"},
        ],
        "checks": checks,
        "not_applicable": na,
        "notes": "Technique family: solver-based checking of the real code. See DESIGN.md. Exit 2 of a check = engine error/inconclusive (never a hidden counterexample).",
    }
    with open(os.path.join(HERE, "MANIFEST.json"), "w") as f:
        json.dump(man, f, indent=1)
        f.write("\n")


if __name__ == "__main__":
    main()

"""Parser for the RAM text printed by `souffle --show=initial-ram|transformed-ram` with the
SOUFFLE_VERIF_TYPED_RAM hook on (operators carry `#<enum ordinal>`)."""
import re

from vlib.common import EngineError, read_repo


class RamSyntaxError(EngineError):
    pass


# ------------------------------------------------------------------------------------------------
# enum tables, read from the real headers on every run
# ------------------------------------------------------------------------------------------------
def _enum(text, name):
    m = re.search(r"enum class %s\s*\{(.*?)\};" % name, text, re.S)
    if not m:
        raise EngineError("enum %s not found" % name)
    body = re.sub(r"//[^\n]*", "", m.group(1))
    body = re.sub(r"/\*.*?\*/", "", body, flags=re.S)
    return [x.strip() for x in body.split(",") if x.strip()]


_ENUMS = None


def enums():
    global _ENUMS
    if _ENUMS is None:
        _ENUMS = {
            "constraint": _enum(read_repo("src/include/souffle/BinaryConstraintOps.h"), "BinaryConstraintOp"),
            "functor": _enum(read_repo("src/FunctorOps.h"), "FunctorOp"),
            "aggregate": _enum(read_repo("src/AggregateOp.h"), "AggregateOp"),
        }
    return _ENUMS


# ------------------------------------------------------------------------------------------------
# AST
# ------------------------------------------------------------------------------------------------
class N:
    def __init__(self, kind, **kw):
        self.kind = kind
        self.__dict__.update(kw)

    def __repr__(self):
        return "N(%s %s)" % (self.kind, {k: v for k, v in self.__dict__.items() if k != "kind"})


class RelDecl:
    def __init__(self, name, attrs, types, aux, rep):
        self.name = name
        self.attrs = attrs
        self.types = types      # list of type chars: i u f s r + ...
        self.full_types = []
        self.aux = aux
        self.rep = rep
        self.arity = len(attrs)


# ------------------------------------------------------------------------------------------------
# expression / condition parser (backtracking recursive descent over one line)
# ------------------------------------------------------------------------------------------------
class P:
    def __init__(self, s):
        self.s = s
        self.i = 0

    def fail(self, what):
        raise RamSyntaxError("RAM parse: expected %s at %r (in %r)" % (what, self.s[self.i:self.i + 40], self.s[:200]))

    def peek(self, lit):
        return self.s.startswith(lit, self.i)

    def eat(self, lit):
        if not self.s.startswith(lit, self.i):
            self.fail(repr(lit))
        self.i += len(lit)

    def try_eat(self, lit):
        if self.s.startswith(lit, self.i):
            self.i += len(lit)
            return True
        return False

    def ws(self):
        while self.i < len(self.s) and self.s[self.i] == " ":
            self.i += 1

    def regex(self, pat, what):
        m = re.compile(pat).match(self.s, self.i)
        if not m:
            self.fail(what)
        self.i = m.end()
        return m

    def relname(self, stops=" )"):
        j = self.i
        while j < len(self.s) and self.s[j] not in stops:
            j += 1
        if j == self.i:
            self.fail("relation name")
        r = self.s[self.i:j]
        self.i = j
        return r

    def string_lit(self):
        self.eat('"')
        out = []
        while True:
            if self.i >= len(self.s):
                self.fail("closing quote")
            c = self.s[self.i]
            if c == "\\":
                out.append(self.s[self.i:self.i + 2])
                self.i += 2
                continue
            if c == '"':
                self.i += 1
                break
            out.append(c)
            self.i += 1
        return "".join(out)

    # ---- expressions
    def expr_list(self, close=")"):
        xs = []
        self.ws()
        if self.peek(close):
            return xs
        while True:
            self.ws()
            xs.append(self.expr())
            self.ws()
            if self.try_eat(","):
                continue
            return xs

    def expr(self):
        s = self.s
        m = re.compile(r"t(\d+)\.(\d+)").match(s, self.i)
        if m:
            self.i = m.end()
            return N("elem", tid=int(m.group(1)), col=int(m.group(2)))
        if self.try_eat("NUMBER("):
            m = self.regex(r"(-?\d+)\)", "number")
            return N("const", ty="i", val=int(m.group(1)) & 0xFFFFFFFF)
        if self.try_eat("UNSIGNED("):
            m = self.regex(r"(\d+)\)", "unsigned")
            return N("const", ty="u", val=int(m.group(1)) & 0xFFFFFFFF)
        if self.try_eat("FLOAT("):
            m = self.regex(r"([^#)]*)#(\d+)\)", "float with bit pattern")
            return N("const", ty="f", val=int(m.group(2)) & 0xFFFFFFFF)
        if self.try_eat("STRING("):
            v = self.string_lit()
            self.eat(")")
            return N("string", val=v)
        if self.try_eat("UNDEF"):
            return N("undef")
        if self.try_eat("AUTOINC()"):
            return N("autoinc")
        if self.try_eat("ARGUMENT("):
            m = self.regex(r"(\d+)\)", "argument number")
            return N("arg", idx=int(m.group(1)))
        if self.try_eat("VARIABLE("):
            m = self.regex(r"([^)]*)\)", "variable name")
            return N("var", name=m.group(1))
        if self.try_eat("SIZE("):
            r = self.relname(")")
            self.eat(")")
            return N("size", rel=r)
        if self.try_eat("PACK("):
            xs = self.expr_list()
            self.eat(")")
            return N("pack", args=xs)
        if self.peek("@"):
            m = self.regex(r"@([^(]+)\(", "user functor")
            xs = self.expr_list()
            self.eat(")")
            return N("userop", name=m.group(1), args=xs)
        if self.peek("("):
            # infix intrinsic: (a op#N b op#N c)
            self.eat("(")
            args = [self.expr()]
            op = None
            while not self.peek(")"):
                m = self.regex(r"\s*([^\s#()]+)#(\d+)\s*", "infix operator")
                o = (m.group(1), int(m.group(2)))
                if op is not None and o != op:
                    self.fail("uniform infix operator")
                op = o
                args.append(self.expr())
            self.eat(")")
            if op is None:
                self.fail("infix operator")
            return N("intrinsic", sym=op[0], op=enums()["functor"][op[1]], args=args)
        m = re.compile(r"([^\s#(),]+)#(\d+)\(").match(s, self.i)
        if m:
            self.i = m.end()
            xs = self.expr_list()
            self.eat(")")
            return N("intrinsic", sym=m.group(1), op=enums()["functor"][int(m.group(2))], args=xs)
        self.fail("expression")

    # ---- conditions
    def cond(self):
        if self.try_eat("TRUE"):
            return N("true")
        if self.try_eat("FALSE"):
            return N("false")
        if self.try_eat("ISEMPTY("):
            r = self.relname(")")
            self.eat(")")
            return N("isempty", rel=r)
        if self.peek("PROV ("):
            self.eat("PROV ")
            c = self.exists()
            c.prov = True
            return c
        if self.peek("(NOT "):
            self.eat("(NOT ")
            c = self.cond()
            self.eat(")")
            return N("not", arg=c)
        if not self.peek("("):
            self.fail("condition")
        save = self.i
        # existence check
        try:
            return self.exists()
        except RamSyntaxError:
            self.i = save
        # conjunction
        try:
            self.eat("(")
            l = self.cond()
            self.eat(" AND ")
            r = self.cond()
            self.eat(")")
            return N("and", lhs=l, rhs=r)
        except RamSyntaxError:
            self.i = save
        # constraint
        self.eat("(")
        l = self.expr()
        m = self.regex(r" ([^\s#]+)#(\d+) ", "constraint operator")
        r = self.expr()
        self.eat(")")
        return N("constraint", sym=m.group(1), op=enums()["constraint"][int(m.group(2))], lhs=l, rhs=r)

    def exists(self):
        self.eat("(")
        xs = self.expr_list()
        self.eat(")")
        self.eat(" IN ")
        r = self.relname(" )")
        return N("exists", rel=r, args=xs, prov=False)

    def index(self, tid):
        """` ON INDEX t1.0 = e AND lo <= t1.1 <= hi ...` -> list of (col, lo, hi) (None = unbounded)"""
        pats = []
        if not self.try_eat(" ON INDEX "):
            return pats
        while True:
            save = self.i
            m = re.compile(r"t%d\.(\d+) = " % tid).match(self.s, self.i)
            if m:
                self.i = m.end()
                e = self.expr()
                pats.append((int(m.group(1)), e, e))
            else:
                lo = hi = None
                m = re.compile(r"t%d\.(\d+)" % tid).match(self.s, self.i)
                if not m:
                    lo = self.expr()
                    self.eat(" <= ")
                    m = self.regex(r"t%d\.(\d+)" % tid, "indexed column")
                else:
                    self.i = m.end()
                col = int(m.group(1))
                if self.peek(" <= "):
                    self.eat(" <= ")
                    hi = self.expr()
                pats.append((col, lo, hi))
            if not self.try_eat(" AND "):
                break
        return pats


# ------------------------------------------------------------------------------------------------
# line-structured statements / operations
# ------------------------------------------------------------------------------------------------
def _indent(line):
    return len(line) - len(line.lstrip(" "))


class RamProgram:
    def __init__(self):
        self.rels = {}          # name -> RelDecl
        self.subs = {}          # name -> list of statements
        self.main = []
        self.text = ""


def parse_decl(line):
    s = line.strip()
    if s.endswith(" nullary"):
        return RelDecl(s[:-len(" nullary")].strip(), [], [], 0, "")
    i = s.index("(")
    name = s[:i]
    j = s.rindex(")")
    inner = s[i + 1:j]
    rep = s[j + 1:].strip()
    attrs, types, full = [], [], []
    aux = 0
    for part in inner.split(","):
        part = part.strip()
        isaux = part.endswith(" auxiliary")
        if isaux:
            part = part[:-len(" auxiliary")]
            aux += 1
        # attr:tc:typename  (attr may itself contain ':'? not in our fragment)
        bits = part.split(":")
        attrs.append(bits[0])
        types.append(bits[1] if len(bits) > 1 else "i")
        full.append(":".join(bits[1:]))
    # the printer never marks the first attribute as auxiliary: count trailing '@...' attributes too
    trailing = 0
    for a in reversed(attrs):
        if a.startswith("@"):
            trailing += 1
        else:
            break
    aux = max(aux, trailing)
    d = RelDecl(name, attrs, types, aux, rep)
    d.full_types = full
    return d


class _Lines:
    def __init__(self, lines):
        self.lines = lines
        self.i = 0

    def peek(self):
        return self.lines[self.i] if self.i < len(self.lines) else None

    def next(self):
        l = self.lines[self.i]
        self.i += 1
        return l


def parse_program(text):
    lines = [l.rstrip("\n") for l in text.split("\n")]
    lines = [l for l in lines if l.strip()]
    prog = RamProgram()
    prog.text = text
    L = _Lines(lines)
    if L.peek() is None or L.next().strip() != "PROGRAM":
        raise RamSyntaxError("RAM text does not start with PROGRAM: %r" % text[:200])
    if L.next().strip() != "DECLARATION":
        raise RamSyntaxError("missing DECLARATION")
    while L.peek().strip() != "END DECLARATION":
        d = parse_decl(L.next())
        prog.rels[d.name] = d
    L.next()
    while True:
        l = L.next()
        s = l.strip()
        if s.startswith("SUBROUTINE "):
            name = s[len("SUBROUTINE "):]
            prog.subs[name] = parse_stmts(L, _indent(l) + 1, "END SUBROUTINE")
        elif s == "BEGIN MAIN":
            prog.main = parse_stmts(L, _indent(l) + 1, "END MAIN")
        elif s == "END PROGRAM":
            break
        else:
            raise RamSyntaxError("unexpected top-level line: %r" % l)
    return prog


def parse_stmts(L, ind, end):
    """statements until a line whose stripped text == end (consumed)"""
    out = []
    while True:
        l = L.peek()
        if l is None:
            raise RamSyntaxError("unexpected end of RAM text (waiting for %s)" % end)
        s = l.strip()
        if s == end:
            L.next()
            return out
        out.append(parse_stmt(L))


def parse_stmt(L):
    l = L.next()
    ind = _indent(l)
    s = l.strip()
    if s == "QUERY":
        op = parse_op(L)
        e = L.next().strip()
        if e != "END QUERY":
            raise RamSyntaxError("expected END QUERY, got %r" % e)
        return N("query", op=op)
    if s.startswith("DEBUG "):
        body = parse_stmts(L, ind + 1, "END DEBUG")
        return N("debug", msg=s[6:], body=body)
    if s.startswith("TIMER ON "):
        p = P(s)
        p.eat("TIMER ON ")
        r = p.relname(" ")
        body = parse_stmts(L, ind + 1, "END TIMER")
        return N("timer", rel=r, msg=s[p.i:].strip(), body=body)
    if s.startswith("TIMER "):
        body = parse_stmts(L, ind + 1, "END TIMER")
        return N("timer", rel=None, msg=s[6:], body=body)
    if s == "LOOP":
        return N("loop", body=parse_stmts(L, ind + 1, "END LOOP"))
    if s == "PARALLEL":
        return N("parallel", body=parse_stmts(L, ind + 1, "END PARALLEL"))
    if s.startswith("EXIT "):
        p = P(s)
        p.eat("EXIT ")
        return N("exit", cond=p.cond())
    if s.startswith("CLEAR "):
        return N("clear", rel=s[6:].strip())
    if s.startswith("SWAP ("):
        m = re.match(r"SWAP \((.*), (.*)\)$", s)
        return N("swap", a=m.group(1), b=m.group(2))
    if s.startswith("MERGE-EXTEND "):
        m = re.match(r"MERGE-EXTEND (\S+) WITH (\S+)$", s)
        return N("mergeextend", target=m.group(1), source=m.group(2))
    if s.startswith("IO "):
        m = re.match(r"IO (\S+) \((.*)\)$", s)
        if not m:
            raise RamSyntaxError("bad IO line %r" % s)
        dirs = {}
        p = P(m.group(2))
        while p.i < len(p.s):
            k = p.regex(r"([^=,]+)=", "directive key").group(1)
            v = p.string_lit()
            dirs[k] = v
            if not p.try_eat(","):
                break
        return N("io", rel=m.group(1), dirs=dirs)
    if s.startswith("CALL "):
        return N("call", name=s[5:].strip())
    if s.startswith("LET ") or s.startswith("ASSIGN "):
        p = P(s)
        p.try_eat("LET ") or p.try_eat("ASSIGN ")
        v = p.expr()
        p.eat(" := ")
        e = p.expr()
        return N("assign", var=v.name, val=e, init=s.startswith("LET "))
    if s.startswith("LOG SIZE "):
        p = P(s)
        p.eat("LOG SIZE ")
        r = p.relname(" ")
        return N("logsize", rel=r, msg=s[p.i:].strip())
    if s.startswith("ESTIMATEJOINSIZE ") or s.startswith("RECESTIMATEJOINSIZE "):
        return N("nop", text=s)
    raise RamSyntaxError("unknown RAM statement: %r" % s)


def parse_op(L):
    l = L.next()
    s = l.strip()
    par = False
    if s.startswith("PARALLEL "):
        par = True
        s = s[len("PARALLEL "):]
    p = P(s)
    m = re.match(r"FOR t(\d+) IN ", s)
    if m:
        p.i = m.end()
        tid = int(m.group(1))
        rel = p.relname(" ")
        idx = p.index(tid)
        return N("scan", tid=tid, rel=rel, index=idx, parallel=par, body=parse_op(L))
    m = re.match(r"IF EXISTS t(\d+) IN ", s)
    if m:
        p.i = m.end()
        tid = int(m.group(1))
        rel = p.relname(" ")
        idx = p.index(tid)
        p.eat(" WHERE ")
        c = p.cond()
        return N("ifexists", tid=tid, rel=rel, index=idx, cond=c, parallel=par, body=parse_op(L))
    m = re.match(r"t(\d+)\.0 = ", s)
    if m:
        p.i = m.end()
        tid = int(m.group(1))
        m2 = re.compile(r"(\w+)#(\d+) ").match(s, p.i)
        if m2:
            p.i = m2.end()
            agg = N("intrinsic_agg", op=enums()["aggregate"][int(m2.group(2))])
        else:
            m2 = p.regex(r"(\S+) INIT ", "aggregator")
            init = p.expr()
            p.eat(" ")
            agg = N("user_agg", name=m2.group(1), init=init)
        if p.peek("FOR ALL ") or p.peek("SEARCH "):
            target = N("undef")
        else:
            target = p.expr()
            p.eat(" ")
        if p.try_eat("FOR ALL "):
            pass
        else:
            p.eat("SEARCH ")
        p.regex(r"t%d IN " % tid, "aggregate tuple")
        rel = p.relname(" ")
        idx = p.index(tid)
        c = N("true")
        if p.try_eat(" WHERE "):
            c = p.cond()
        return N("aggregate", tid=tid, agg=agg, target=target, rel=rel, index=idx, cond=c, parallel=par, body=parse_op(L))
    if s.startswith("IF "):
        p.eat("IF ")
        c = p.cond()
        if p.try_eat(" BREAK"):
            return N("break", cond=c, body=parse_op(L))
        return N("filter", cond=c, body=parse_op(L))
    m = re.match(r"UNPACK t(\d+) ARITY (\d+) FROM ", s)
    if m:
        p.i = m.end()
        e = p.expr()
        return N("unpack", tid=int(m.group(1)), arity=int(m.group(2)), expr=e, body=parse_op(L))
    if s.startswith("INSERT ("):
        p.eat("INSERT (")
        xs = p.expr_list()
        p.eat(") INTO ")
        rel = p.relname(" ")
        c = None
        if p.try_eat(" IF "):
            c = p.cond()
        return N("insert", rel=rel, args=xs, cond=c)
    if s.startswith("ERASE ("):
        p.eat("ERASE (")
        xs = p.expr_list()
        p.eat(") FROM ")
        rel = p.relname(" ")
        return N("erase", rel=rel, args=xs)
    if s.startswith("RETURN ("):
        p.eat("RETURN (")
        xs = p.expr_list()
        p.eat(")")
        return N("return", args=xs)
    m = re.match(r"(\w+)\((.*)\) INTO t(\d+)$", s)
    if m:
        p2 = P(m.group(2))
        xs = p2.expr_list(close="\0")
        return N("nestedop", op=m.group(1), args=xs, tid=int(m.group(3)), body=parse_op(L))
    raise RamSyntaxError("unknown RAM operation: %r" % s)

"""Independent front end + reference semantics for the Datalog fragment used by the corpus.

Written from the language manual; shares no code with /repo.  `Program.parse(text)` builds an AST;
`Reference(program, ctx, inputs).run()` computes the stratified least model as guarded relations
(symbolic when the inputs are symbolic, concrete when they are concrete)."""
import re

from vlib.common import EngineError
from . import sym
from .sym import g_and, g_or, g_not, v_ite, Rec


class DlError(EngineError):
    pass


class RefUnsupported(EngineError):
    pass


TOK = re.compile(r"""
    (?P<ws>\s+|//[^\n]*|/\*.*?\*/) |
    (?P<float>\d+\.\d+(?:[eE][-+]?\d+)?) |
    (?P<hex>0x[0-9a-fA-F]+) | (?P<bin>0b[01]+) |
    (?P<uint>\d+u) |
    (?P<int>\d+) |
    (?P<str>"(?:[^"\\]|\\.)*") |
    (?P<dir>\.(?:decl|input|output|printsize|limitsize|type|functor|plan|pragma|comp|init|override|number_type|symbol_type|lattice)\b) |
    (?P<id>[A-Za-z_?@][A-Za-z0-9_?]*(?:\.[A-Za-z_?][A-Za-z0-9_?]*)*) |
    (?P<op>:-|<=|>=|!=|<:|[=<>!,;()\[\]{}:+\-*/%^.$|])
""", re.X | re.S)

KW_INFIX = {"band", "bor", "bxor", "bshl", "bshr", "bshru", "land", "lor", "lxor"}
AGG = {"count", "sum", "min", "max", "mean"}


def tokenize(text):
    out = []
    i = 0
    while i < len(text):
        m = TOK.match(text, i)
        if not m:
            raise DlError("datalog lexer: unexpected %r" % text[i:i + 20])
        i = m.end()
        k = m.lastgroup
        if k == "ws":
            continue
        out.append((k, m.group(k)))
    out.append(("eof", ""))
    return out


# ------------------------------------------------------------------------------------------------ AST
class T:
    def __init__(self, k, **kw):
        self.k = k
        self.__dict__.update(kw)

    def __repr__(self):
        return "T(%s)" % ", ".join("%s=%r" % kv for kv in self.__dict__.items())


class RelInfo:
    def __init__(self, name, attrs, types, quals, choice):
        self.name = name
        self.attrs = attrs
        self.types = types     # base type chars
        self.quals = quals
        self.choice = choice
        self.arity = len(attrs)


class Program:
    def __init__(self):
        self.types = {"number": "i", "unsigned": "u", "float": "f", "symbol": "s"}
        self.records = {}       # type name -> list of field type names
        self.adt_branches = {}  # branch name -> (ADT type name, list of field type names)
        self.rels = {}
        self.inputs = []
        self.outputs = []
        self.printsizes = []
        self.limits = {}
        self.clauses = []       # T(clause heads=[atoms], body=[literals])  (disjunctions expanded)
        self.subsumptions = []  # T(subsume dominated=atom, dominating=atom, body=[...])
        self.functors = {}      # name -> (arg types, ret type)
        self.lattices = {}      # lattice type name -> {Bottom/Lub/Glb/Top: term}

    @staticmethod
    def parse(text):
        return _Parser(tokenize(text)).program()

    def base_type(self, tn):
        seen = set()
        while tn in self.types and self.types[tn] not in ("i", "u", "f", "s", "r"):
            if tn in seen:
                break
            seen.add(tn)
            tn = self.types[tn]
        t = self.types.get(tn)
        if t is None:
            raise DlError("unknown type " + tn)
        return t

    def constants(self):
        """all numeric constants in the program text (for the universe)"""
        cs = set()

        def walk(t):
            if isinstance(t, T):
                if t.k == "num":
                    cs.add(t.val)
                for v in t.__dict__.values():
                    walk(v)
            elif isinstance(t, (list, tuple)):
                for x in t:
                    walk(x)
        walk(self.clauses)
        walk(self.subsumptions)
        return cs


class _Parser:
    def __init__(self, toks):
        self.t = toks
        self.i = 0
        self.p = Program()
        self.anon = 0

    def peek(self, k=None, v=None):
        tk = self.t[self.i]
        return (k is None or tk[0] == k) and (v is None or tk[1] == v)

    def next(self):
        tk = self.t[self.i]
        self.i += 1
        return tk

    def eat(self, k=None, v=None):
        if not self.peek(k, v):
            raise DlError("datalog parser: expected %s %s, got %r (near token %d)" % (k, v, self.t[self.i], self.i))
        return self.next()

    def try_op(self, v):
        if self.peek("op", v):
            self.next()
            return True
        return False

    def program(self):
        while not self.peek("eof"):
            if self.peek("dir"):
                self.directive()
            else:
                self.clause()
        return self.p

    def directive(self):
        d = self.next()[1]
        p = self.p
        if d == ".decl":
            name = self.eat("id")[1]
            self.eat("op", "(")
            attrs, types = [], []
            lattice_cols = []
            while not self.peek("op", ")"):
                a = self.eat("id")[1]
                self.eat("op", ":")
                tn = self.eat("id")[1]
                if self.peek("op", "<") and self.t[self.i + 1] == ("op", ">"):
                    self.next()
                    self.next()
                    lattice_cols.append(len(attrs))
                attrs.append(a)
                types.append(tn)
                if not self.try_op(","):
                    break
            self.eat("op", ")")
            quals = set()
            choice = []
            while self.peek("id") and self.t[self.i][1] in ("input", "output", "printsize", "inline", "no_inline", "magic",
                                                            "no_magic", "btree", "brie", "eqrel", "btree_delete", "overridable",
                                                            "override", "choice-domain", "choice"):
                q = self.next()[1]
                quals.add(q)
            # choice-domain x, (y,z)
            if self.peek("id", "choice") or (self.peek("id") and self.t[self.i][1].startswith("choice")):
                self.next()
            if self.peek("id", "choice-domain"):
                self.next()
            # the lexer splits choice-domain into id 'choice' op '-' id 'domain'
            if "choice" in quals and self.try_op("-"):
                self.eat("id", "domain")
                quals.discard("choice")
                while True:
                    if self.try_op("("):
                        key = []
                        while not self.peek("op", ")"):
                            key.append(self.eat("id")[1])
                            self.try_op(",")
                        self.eat("op", ")")
                        choice.append(key)
                    else:
                        choice.append([self.eat("id")[1]])
                    if not self.try_op(","):
                        break
            p.rels[name] = RelInfo(name, attrs, [p.base_type(t) for t in types], quals, choice)
            p.rels[name].type_names = types
            p.rels[name].lattice_cols = lattice_cols
            if "input" in quals:
                p.inputs.append(name)
            if "output" in quals:
                p.outputs.append(name)
        elif d in (".input", ".output", ".printsize"):
            while True:
                name = self.eat("id")[1]
                {".input": p.inputs, ".output": p.outputs, ".printsize": p.printsizes}[d].append(name)
                if not self.try_op(","):
                    break
            if self.try_op("("):
                depth = 1
                while depth:
                    tk = self.next()
                    if tk == ("op", "("):
                        depth += 1
                    elif tk == ("op", ")"):
                        depth -= 1
        elif d == ".limitsize":
            name = self.eat("id")[1]
            self.eat("op", "(")
            self.eat("id", "n")
            self.eat("op", "=")
            n = int(self.eat("int")[1])
            self.eat("op", ")")
            p.limits[name] = n
        elif d == ".type":
            name = self.eat("id")[1]
            if self.try_op("<:"):
                p.types[name] = self.eat("id")[1]
            else:
                self.eat("op", "=")
                if self.try_op("["):
                    fields = []
                    while not self.peek("op", "]"):
                        self.eat("id")
                        self.eat("op", ":")
                        fields.append(self.eat("id")[1])
                        self.try_op(",")
                    self.eat("op", "]")
                    p.types[name] = "r"
                    p.records[name] = fields
                else:
                    base = self.eat("id")[1]
                    if self.peek("op", "{"):
                        # algebraic data type: Branch {f:T, ...} | Branch {...} ...  Reference semantics: constructors are
                        # injective and pairwise disjoint -- a branch value is the tuple (branch name, arguments).
                        while True:
                            self.eat("op", "{")
                            fields = []
                            while not self.peek("op", "}"):
                                self.eat("id")
                                self.eat("op", ":")
                                fields.append(self.eat("id")[1])
                                self.try_op(",")
                            self.eat("op", "}")
                            if base in p.adt_branches:
                                raise DlError("ADT branch %s declared twice" % base)
                            p.adt_branches[base] = (name, fields)
                            if not self.try_op("|"):
                                break
                            base = self.eat("id")[1]
                        p.types[name] = "r"
                    elif self.peek("op", "|"):
                        raise RefUnsupported("union types")
                    else:
                        p.types[name] = base
        elif d == ".functor":
            name = self.eat("id")[1]
            self.eat("op", "(")
            args = []
            while not self.peek("op", ")"):
                if self.peek("id") and self.t[self.i + 1] == ("op", ":"):
                    self.next()
                    self.next()
                args.append(self.eat("id")[1])
                self.try_op(",")
            self.eat("op", ")")
            self.eat("op", ":")
            ret = self.eat("id")[1]
            if self.peek("id", "stateful"):
                self.next()
            p.functors[name] = (args, ret)
        elif d == ".plan":
            # .plan 0:(1,2), 1:(2,1)
            while True:
                self.eat("int")
                self.eat("op", ":")
                self.eat("op", "(")
                while not self.peek("op", ")"):
                    self.next()
                self.eat("op", ")")
                if not self.try_op(","):
                    break
        elif d == ".pragma":
            self.eat("str")
            if self.peek("str"):
                self.next()
        elif d == ".lattice":
            # .lattice T<> { Bottom -> c, Lub -> @f(_,_), Glb -> @g(_,_) [, Top -> c] }
            name = self.eat("id")[1]
            self.eat("op", "<")
            self.eat("op", ">")
            self.eat("op", "{")
            spec = {}
            while not self.peek("op", "}"):
                key = self.eat("id")[1]
                self.eat("op", "-")
                self.eat("op", ">")
                t = self.term()
                spec[key] = t
                self.try_op(",")
            self.eat("op", "}")
            p.lattices[name] = spec
        else:
            raise RefUnsupported("directive " + d + " is outside the reference fragment")

    # ---- clauses
    def clause(self):
        heads = [self.atom()]
        if self.try_op("<="):
            dominating = self.atom()
            self.eat("op", ":-")
            alts = self.disjunction()
            self.eat("op", ".")
            self.skip_plan()
            for body in alts:
                self.p.subsumptions.append(T("subsume", dominated=heads[0], dominating=dominating, body=body))
            return
        while self.try_op(","):
            heads.append(self.atom())
        alts = [[]]
        if self.try_op(":-"):
            alts = self.disjunction()
        self.eat("op", ".")
        self.skip_plan()
        for body in alts:
            self.p.clauses.append(T("clause", heads=heads, body=body))

    def skip_plan(self):
        if self.peek("dir", ".plan"):
            self.directive()

    def disjunction(self):
        """-> list of alternative literal lists (DNF)"""
        alts = self.conjunction()
        while self.try_op(";"):
            alts = alts + self.conjunction()
        return alts

    def conjunction(self):
        alts = [[]]
        while True:
            item = self.literal()     # list of alternatives, each a list of literals
            alts = [a + b for a in alts for b in item]
            if not self.try_op(","):
                return alts

    def literal(self):
        if self.peek("op", "("):
            # parenthesised disjunction or a parenthesised term starting a constraint
            save = self.i
            try:
                self.next()
                d = self.disjunction()
                self.eat("op", ")")
                if self.peek("op") and self.t[self.i][1] in ("=", "!=", "<", ">", "<=", ">=", "+", "-", "*", "/", "%", "^"):
                    raise DlError("term")
                return d
            except DlError:
                self.i = save
        if self.peek("op", "!"):
            self.next()
            if self.peek("op", "("):
                raise RefUnsupported("negated disjunction")
            a = self.atom()
            a.neg = True
            return [[a]]
        if self.peek("id", "true"):
            self.next()
            return [[T("bool", val=True)]]
        if self.peek("id", "false"):
            self.next()
            return [[T("bool", val=False)]]
        # atom or constraint
        if self.peek("id") and self.t[self.i + 1] == ("op", "(") and self.t[self.i][1] in self.p.rels:
            return [[self.atom()]]
        l = self.term()
        tk = self.next()
        if tk[0] != "op" or tk[1] not in ("=", "!=", "<", ">", "<=", ">="):
            raise DlError("datalog parser: expected comparison, got %r" % (tk,))
        r = self.term()
        return [[T("cmp", op=tk[1], lhs=l, rhs=r)]]

    def atom(self):
        name = self.eat("id")[1]
        self.eat("op", "(")
        args = []
        while not self.peek("op", ")"):
            args.append(self.term())
            if not self.try_op(","):
                break
        self.eat("op", ")")
        return T("atom", name=name, args=args, neg=False)

    # ---- terms (precedence climbing)
    PREC = [("lor",), ("lxor",), ("land",), ("bor",), ("bxor",), ("band",), ("bshl", "bshr", "bshru"), ("+", "-"), ("*", "/", "%"), ("^",)]

    def term(self, level=0):
        if level == len(self.PREC):
            return self.unary()
        l = self.term(level + 1)
        while True:
            tk = self.t[self.i]
            if tk[1] in self.PREC[level] and tk[0] in ("op", "id"):
                self.next()
                if tk[1] == "^":
                    r = self.term(level)      # right associative
                else:
                    r = self.term(level + 1)
                l = T("bin", op=tk[1], lhs=l, rhs=r)
            else:
                return l

    def unary(self):
        if self.peek("op", "-"):
            self.next()
            x = self.unary()
            if x.k == "num" and not getattr(x, "negated", False):
                if x.ty == "f":
                    return T("num", val=sym.f32bits(-sym.f32(x.val)), ty="f", negated=True)
                return T("num", val=sym.u32(-x.val), ty=x.ty, negated=True)
            return T("un", op="neg", arg=x)
        if self.peek("id", "bnot") or self.peek("id", "lnot"):
            op = self.next()[1]
            return T("un", op=op, arg=self.unary())
        return self.primary()

    def primary(self):
        tk = self.next()
        k, v = tk
        if k == "int":
            return T("num", val=sym.u32(int(v)), ty=None)
        if k == "uint":
            return T("num", val=sym.u32(int(v[:-1])), ty="u")
        if k == "hex":
            return T("num", val=sym.u32(int(v, 16)), ty=None)
        if k == "bin":
            return T("num", val=sym.u32(int(v[2:], 2)), ty=None)
        if k == "float":
            return T("num", val=sym.f32bits(float(v)), ty="f")
        if k == "str":
            return T("str", val=v[1:-1])
        if k == "op" and v == "(":
            x = self.term()
            self.eat("op", ")")
            return x
        if k == "op" and v == "[":
            args = []
            while not self.peek("op", "]"):
                args.append(self.term())
                if not self.try_op(","):
                    break
            self.eat("op", "]")
            return T("rec", args=args)
        if k == "op" and v == "$":
            if self.peek("id") and self.t[self.i + 1] == ("op", "("):
                bname = self.eat("id")[1]
                self.eat("op", "(")
                args = []
                while not self.peek("op", ")"):
                    args.append(self.term())
                    if not self.try_op(","):
                        break
                self.eat("op", ")")
                # desugared to a tagged tuple: constructors injective and pairwise disjoint.  The tag depends only on the
                # branch name (independent of declaration order and of souffle's branch numbering).
                import zlib
                tag = 0x40000000 | (zlib.crc32(bname.encode()) & 0x3FFFFFFF)
                return T("rec", args=[T("num", val=tag, ty="i")] + args, adt=bname)
            raise RefUnsupported("counter")
        if k == "id":
            if v == "_":
                self.anon += 1
                return T("wild", name="_%d" % self.anon)
            if v == "nil":
                return T("nil")
            if v in AGG and (self.peek("op", ":") or not self.peek("op", "(")):
                return self.aggregate(v)
            if v.startswith("@"):
                self.eat("op", "(")
                args = self.args()
                return T("usercall", name=v[1:], args=args)
            if self.peek("op", "("):
                self.next()
                args = self.args()
                if v in AGG and v in ("min", "max"):
                    return T("call", name=v, args=args)
                return T("call", name=v, args=args)
            return T("var", name=v)
        raise DlError("datalog parser: unexpected token %r in term" % (tk,))

    def args(self):
        args = []
        while not self.peek("op", ")"):
            args.append(self.term())
            if not self.try_op(","):
                break
        self.eat("op", ")")
        return args

    def aggregate(self, op):
        target = None
        if not self.peek("op", ":"):
            target = self.term()
        self.eat("op", ":")
        if self.try_op("{"):
            alts = self.disjunction()
            self.eat("op", "}")
        else:
            alts = [[self.atom()]]
        if len(alts) != 1:
            raise RefUnsupported("disjunction inside aggregate")
        return T("aggr", op=op, target=target, body=alts[0])


# ------------------------------------------------------------------------------------------------
# reference semantics
# ------------------------------------------------------------------------------------------------
def term_vars(t, acc=None, into_aggr=False):
    acc = set() if acc is None else acc
    if isinstance(t, T):
        if t.k == "var":
            acc.add(t.name)
        elif t.k == "aggr":
            if into_aggr:
                term_vars(t.target, acc, True)
                for l in t.body:
                    term_vars(l, acc, True)
        else:
            for v in t.__dict__.values():
                term_vars(v, acc, into_aggr)
    elif isinstance(t, (list, tuple)):
        for x in t:
            term_vars(x, acc, into_aggr)
    return acc


def has_aggr(t):
    if isinstance(t, T):
        if t.k == "aggr":
            return True
        return any(has_aggr(v) for v in t.__dict__.values())
    if isinstance(t, (list, tuple)):
        return any(has_aggr(x) for x in t)
    return False


class Reference:
    def __init__(self, prog, ctx, inputs, max_iter=60, functors=None):
        self.p = prog
        self.ctx = ctx
        self.uni = ctx.uni
        self.inputs = inputs
        self.max_iter = max_iter
        self.functors = functors or {}
        self.rels = {}
        for n, r in prog.rels.items():
            self.rels[n] = sym.Rel(n, r.arity, r.types, self.uni)
        self.iters = []
        self._defs = []

    def with_defs(self, f):
        """run f; returns (value, guard under which every aggregate evaluated inside f has a value)
        -- min/max over an empty set have none, and the enclosing literal is then false (manual's empty-set rule)"""
        saved = self._defs
        self._defs = []
        try:
            v = f()
            d = g_and(*self._defs)
        finally:
            self._defs = saved
        return v, d

    # ---- stratification
    def deps(self):
        """edges head -> (body relation, negative?)"""
        edges = {n: set() for n in self.p.rels}

        def body_rels(lits, neg, out):
            for l in lits:
                if l.k == "atom":
                    out.add((l.name, neg or l.neg))
                    walk_terms(l.args, out)
                elif l.k == "cmp":
                    walk_terms([l.lhs, l.rhs], out)

        def walk_terms(ts, out):
            for t in ts:
                if isinstance(t, T):
                    if t.k == "aggr":
                        body_rels(t.body, True, out)
                        if t.target is not None:
                            walk_terms([t.target], out)
                    else:
                        walk_terms([v for v in t.__dict__.values() if isinstance(v, (T, list))], out)
                elif isinstance(t, list):
                    walk_terms(t, out)
        for c in self.p.clauses:
            out = set()
            body_rels(c.body, False, out)
            for h in c.heads:
                walk_terms(h.args, out)
                edges[h.name] |= out
        for n, r in self.p.rels.items():
            if "eqrel" in r.quals:
                edges[n].add((n, False))
        return edges

    def strata(self):
        edges = self.deps()
        names = list(self.p.rels)
        index, low, onstack, stack, sccs = {}, {}, set(), [], []
        counter = [0]

        def sc(v):
            index[v] = low[v] = counter[0]
            counter[0] += 1
            stack.append(v)
            onstack.add(v)
            for (w, _) in edges[v]:
                if w not in index:
                    sc(w)
                    low[v] = min(low[v], low[w])
                elif w in onstack:
                    low[v] = min(low[v], index[w])
            if low[v] == index[v]:
                comp = []
                while True:
                    w = stack.pop()
                    onstack.discard(w)
                    comp.append(w)
                    if w == v:
                        break
                sccs.append(comp)
        for v in names:
            if v not in index:
                sc(v)
        # Tarjan emits SCCs in reverse topological order of the edge direction head->body: dependencies first
        for comp in sccs:
            cs = set(comp)
            for v in comp:
                for (w, neg) in edges[v]:
                    if neg and w in cs:
                        raise DlError("program is not stratifiable (negation/aggregation in a cycle through %s)" % w)
        return sccs

    # ---- evaluation
    def run(self):
        for n in self.p.inputs:
            src = self.inputs.get(n)
            if src is not None:
                for t, g in src.items():
                    self.rels[n].insert(t, g)
        for comp in self.strata():
            cs = set(comp)
            clauses = [c for c in self.p.clauses if any(h.name in cs for h in c.heads)]
            eq = [n for n in comp if "eqrel" in self.p.rels[n].quals]
            recursive = bool(eq) or any(self._mentions(c, cs) for c in clauses)
            if not recursive:
                for c in clauses:
                    self.apply_clause(c, cs, self.rels)
                continue
            it = 0
            while True:
                new = {n: sym.Rel(n, self.p.rels[n].arity, self.p.rels[n].types, self.uni) for n in comp}
                for c in clauses:
                    self.apply_clause(c, cs, new)
                for n in eq:
                    self.eq_closure(n, new[n])
                changed = []
                for n in comp:
                    for t, g in new[n].items():
                        fresh = g_and(g, g_not(self.rels[n].member(t)))
                        if fresh is not False:
                            changed.append(fresh)
                for n in comp:
                    for t, g in new[n].items():
                        self.rels[n].insert(t, g)
                it += 1
                ch = g_or(*changed)
                if ch is False:
                    break
                if ch is not True:
                    r, _ = self.ctx.check(ch)
                    if r == "unsat":
                        break
                    if r == "unknown":
                        raise EngineError("reference fixpoint: solver gave no verdict")
                if it >= self.max_iter:
                    raise EngineError("reference fixpoint not reached in %d rounds" % it)
            self.iters.append(it)
        return {n: self.rels[n] for n in self.p.outputs}

    def eq_closure(self, n, out):
        r = self.rels[n]
        its = r.items()
        for (a, b), g in its:
            out.insert((a, a), g)
            out.insert((b, b), g)
            out.insert((b, a), g)
        for (a, b), g in its:
            for (c, d), g2 in its:
                q = self.uni.eq(b, c)
                if q is False:
                    continue
                out.insert((a, d), g_and(g, g2, q))

    def _mentions(self, c, cs):
        found = []

        def walk(t):
            if isinstance(t, T):
                if t.k == "atom" and t.name in cs:
                    found.append(t.name)
                for v in t.__dict__.values():
                    walk(v)
            elif isinstance(t, list):
                for x in t:
                    walk(x)
        walk(c.body)
        for h in c.heads:
            walk(h.args)
        return bool(found)

    def apply_clause(self, c, cs, target):
        def emit(env, g):
            for h in c.heads:
                if h.name not in target:
                    continue
                info = self.p.rels[h.name]
                t, d = self.with_defs(lambda: tuple(self.eval(a, env, info.types[i]) for i, a in enumerate(h.args)))
                target[h.name].insert(t, g_and(g, d))
        self.body(list(c.body), {}, True, emit)

    def var_type(self, lits):
        """variable -> base type, from positive/negative atom positions"""
        vt = {}
        for l in lits:
            if l.k == "atom":
                info = self.p.rels.get(l.name)
                if info is None:
                    raise DlError("unknown relation " + l.name)
                for a, ty in zip(l.args, info.types):
                    if a.k == "var":
                        vt.setdefault(a.name, ty)
        return vt

    def body(self, lits, env, g, emit, vt=None):
        if vt is None:
            vt = self.var_type(lits)
            # propagate through equalities var = term
            for _ in range(3):
                for l in lits:
                    if l.k == "cmp" and l.op == "=":
                        for a, b in ((l.lhs, l.rhs), (l.rhs, l.lhs)):
                            if a.k == "var" and a.name not in vt:
                                ty = self.type_of(b, vt)
                                if ty:
                                    vt[a.name] = ty
        self.vt = dict(vt, **getattr(self, "outer_vt", {}))
        self._body(lits, env, g, emit)

    def _ground(self, t, env):
        return all(v in env for v in term_vars(t))

    def _body(self, lits, env, g, emit):
        if g is False:
            return
        if not lits:
            emit(env, g)
            return
        # aggregates are evaluated last: their injected (outer) variables must all be bound first
        if not getattr(self, "_agg_pass", False) and any(has_aggr(l) for l in lits):
            aggs = [l for l in lits if has_aggr(l)]
            # variables that only an aggregate equality can bind
            aggvars = set()
            for l in aggs:
                if l.k == "cmp" and l.op == "=":
                    for a in (l.lhs, l.rhs):
                        if a.k == "var":
                            aggvars.add(a.name)
            bound_elsewhere = set(env)
            for l in lits:
                if l.k == "atom" and not l.neg:
                    bound_elsewhere |= term_vars(l.args)
            aggvars -= bound_elsewhere
            plain = [l for l in lits if not has_aggr(l) and not (term_vars(l) & aggvars)]
            aggs = [l for l in lits if l not in plain]

            def after(env2, g2):
                self._agg_pass = True
                try:
                    self._body(aggs, env2, g2, emit)
                finally:
                    self._agg_pass = False
            return self._body(plain, env, g, after)
        # 1. ready filters
        for i, l in enumerate(lits):
            if l.k == "bool":
                rest = lits[:i] + lits[i + 1:]
                if l.val:
                    return self._body(rest, env, g, emit)
                return
            if l.k == "atom" and l.neg and self._ground(l.args, env):
                info = self.p.rels[l.name]
                t, d = self.with_defs(lambda: tuple(None if a.k == "wild" else self.eval(a, env, info.types[j]) for j, a in enumerate(l.args)))
                return self._body(lits[:i] + lits[i + 1:], env, g_and(g, d, g_not(self.rels[l.name].member(t))), emit)
            if l.k == "cmp" and self._ground(l.lhs, env) and self._ground(l.rhs, env) and not self._has_unbound_pattern(l, env):
                c, d = self.with_defs(lambda: self.compare(l, env))
                return self._body(lits[:i] + lits[i + 1:], env, g_and(g, d, c), emit)
        # 2. binding equalities (a variable that a positive atom will bind is left to the atom: the equality is then a
        #    typed comparison -- float equality is not bit identity, 0.0 = -0.0)
        atom_vars = set()
        for l in lits:
            if l.k == "atom" and not l.neg:
                atom_vars |= term_vars(l.args)
        for i, l in enumerate(lits):
            if l.k == "cmp" and l.op == "=":
                for a, b in ((l.lhs, l.rhs), (l.rhs, l.lhs)):
                    if a.k == "var" and a.name in atom_vars:
                        continue
                    if a.k == "var" and a.name not in env and b.k == "call" and b.name == "range" and self._ground(b, env):
                        ty = self.vt.get(a.name) or self.type_of(b, self.vt) or "i"
                        vals = self.range_values([self.eval(x, env, ty) for x in b.args], ty)
                        for v in vals:
                            env2 = dict(env)
                            env2[a.name] = v
                            self._body(lits[:i] + lits[i + 1:], env2, g, emit)
                        return
                    if a.k == "var" and a.name not in env and self._ground(b, env):
                        ty = self.vt.get(a.name) or self.type_of(b, self.vt)
                        env2 = dict(env)
                        env2[a.name], d = self.with_defs(lambda: self.eval(b, env, ty))
                        return self._body(lits[:i] + lits[i + 1:], env2, g_and(g, d), emit)
                    if a.k == "rec" and self._ground(b, env):
                        v = self.eval(b, env, "r")
                        if not isinstance(v, Rec):
                            if isinstance(v, int) and v == 0:
                                return
                            raise RefUnsupported("record pattern against a symbolic reference")
                        env2 = dict(env)
                        gs = [g]
                        for pa, fv in zip(a.args, v.fields):
                            if pa.k == "var" and pa.name not in env2:
                                env2[pa.name] = fv
                            elif pa.k == "wild":
                                pass
                            else:
                                gs.append(self.uni.eq(self.eval(pa, env2, None), fv))
                        return self._body(lits[:i] + lits[i + 1:], env2, g_and(*gs), emit)
        # 3. positive atom
        for i, l in enumerate(lits):
            if l.k == "atom" and not l.neg:
                info = self.p.rels[l.name]
                rest = lits[:i] + lits[i + 1:]
                for terms, eg in self.rels[l.name].items():
                    env2 = dict(env)
                    gs = [g, eg]
                    ok = True
                    for a, v, ty in zip(l.args, terms, info.types):
                        if a.k == "wild":
                            continue
                        if a.k == "var" and a.name not in env2:
                            env2[a.name] = v
                            continue
                        if a.k == "rec":
                            q = self.match(a, v, env2)
                            if q is False:
                                ok = False
                                break
                            gs.append(q)
                            continue
                        if not self._ground(a, env2):
                            raise RefUnsupported("non-ground functor argument in a positive atom")
                        av, d = self.with_defs(lambda: self.eval(a, env2, ty))
                        q = g_and(d, self.uni.eq(av, v))
                        if q is False:
                            ok = False
                            break
                        gs.append(q)
                    if ok:
                        self._body(rest, env2, g_and(*gs), emit)
                return
        raise DlError("reference: body is not grounded: %r (bound %s)" % (lits, sorted(env)))

    def _has_unbound_pattern(self, l, env):
        return False

    def match(self, pat, v, env):
        """match a record pattern against a value, binding unbound variables in env; returns a guard"""
        if pat.k == "wild":
            return True
        if pat.k == "var" and pat.name not in env:
            env[pat.name] = v
            return True
        if pat.k == "rec":
            if isinstance(v, Rec):
                if len(v.fields) != len(pat.args):
                    return False
                gs = []
                for pa, fv in zip(pat.args, v.fields):
                    q = self.match(pa, fv, env)
                    if q is False:
                        return False
                    gs.append(q)
                return g_and(*gs)
            if isinstance(v, int):
                return False       # nil or a foreign reference never matches a record constructor
            raise RefUnsupported("record pattern against a symbolic reference")
        return self.uni.eq(self.eval(pat, env, None), v)

    def range_values(self, args, ty):
        if ty == "f" or not all(isinstance(a, int) for a in args):
            raise RefUnsupported("range generator with symbolic or float bounds")
        cv = sym.s32 if ty == "i" else (lambda x: x)
        a, b = cv(args[0]), cv(args[1])
        if len(args) > 2:
            step = cv(args[2])
            if step == 0:
                return [sym.u32(a)] if a != b else []
        else:
            step = 1 if a <= b else -1
        out = []
        x = a
        while (step > 0 and x < b) or (step < 0 and x > b):
            out.append(sym.u32(x))
            x += step
            if len(out) > 64:
                raise RefUnsupported("range longer than 64")
        return out

    # ---- types
    def type_of(self, t, vt):
        k = t.k
        if k == "var":
            return vt.get(t.name)
        if k == "num":
            return t.ty
        if k == "str":
            return "s"
        if k in ("rec", "nil"):
            return "r"
        if k == "bin":
            return self.type_of(t.lhs, vt) or self.type_of(t.rhs, vt)
        if k == "un":
            return self.type_of(t.arg, vt)
        if k == "call":
            n = t.name
            if n in ("to_float", "itof", "utof"):
                return "f"
            if n in ("to_number", "ftoi", "utoi", "ord", "strlen"):
                return "i"
            if n in ("to_unsigned", "itou", "ftou"):
                return "u"
            for a in t.args:
                ty = self.type_of(a, vt)
                if ty:
                    return ty
            return None
        if k == "usercall":
            f = self.p.functors.get(t.name)
            return self.p.base_type(f[1]) if f else None
        if k == "aggr":
            if t.op == "count":
                return "i"
            if t.op == "mean":
                return "f"
            inner_vt = dict(vt)
            inner_vt.update(self.var_type(t.body))
            return self.type_of(t.target, inner_vt)
        return None

    # ---- terms
    def eval(self, t, env, ty):
        k = t.k
        if k == "var":
            if t.name not in env:
                raise DlError("reference: variable %s not bound" % t.name)
            return env[t.name]
        if k == "num":
            if t.ty == "f" or ty != "f":
                return t.val
            # integer literal in float context: souffle requires a float literal; treat as given
            return t.val
        if k == "str":
            return self.ctx.intern(t.val)
        if k == "nil":
            return 0
        if k == "rec":
            return Rec([self.eval(a, env, None) for a in t.args])
        if k == "bin":
            oty = self.type_of(t, self.vt) or ty or "i"
            a = self.eval(t.lhs, env, oty)
            b = self.eval(t.rhs, env, oty)
            op = t.op
            if op in ("land", "lor", "lxor"):
                x, y = sym.truthy(a), sym.truthy(b)
                if op == "land":
                    return sym.from_guard(g_and(x, y))
                if op == "lor":
                    return sym.from_guard(g_or(x, y))
                return sym.from_guard(g_or(g_and(x, g_not(y)), g_and(g_not(x), y)))
            if op == "^":
                if isinstance(a, int) and isinstance(b, int) and oty != "f":
                    return sym.u32(pow(sym.s32(a) if oty == "i" else a, b)) if b < 64 else 0
                raise RefUnsupported("symbolic exponentiation")
            return sym.arith(op, a, b, oty)
        if k == "un":
            oty = self.type_of(t, self.vt) or ty or "i"
            a = self.eval(t.arg, env, oty)
            if t.op == "neg":
                if oty == "f":
                    return sym.arith("bxor", a, 0x80000000, "u")
                return sym.arith("-", 0, a, oty)
            if t.op == "bnot":
                return sym.arith("bxor", a, 0xFFFFFFFF, "u")
            return sym.from_guard(g_not(sym.truthy(a)))
        if k == "call":
            n = t.name
            if n in ("min", "max"):
                oty = self.type_of(t, self.vt) or ty or "i"
                vs = [self.eval(a, env, oty) for a in t.args]
                r = vs[0]
                for x in vs[1:]:
                    r = sym.vmin(r, x, oty) if n == "min" else sym.vmax(r, x, oty)
                return r
            conv = {"itof": "itof", "utof": "utof", "ftoi": "ftoi", "ftou": "ftou", "itou": "itou", "utoi": "utoi"}
            if n in conv:
                return sym.conv(conv[n], self.eval(t.args[0], env, None))
            if n in ("to_float", "to_number", "to_unsigned"):
                src = self.type_of(t.args[0], self.vt) or "i"
                dst = {"to_float": "f", "to_number": "i", "to_unsigned": "u"}[n]
                v = self.eval(t.args[0], env, src)
                if src == "s":
                    raise RefUnsupported("string conversion")
                return sym.conv("%s2%s" % (src, dst), v)
            raise RefUnsupported("functor " + n)
        if k == "usercall":
            f = self.functors.get(t.name) or self.ctx.functors.get(t.name)
            if f is None:
                raise RefUnsupported("user functor without a model: " + t.name)
            return f(*[self.eval(a, env, None) for a in t.args])
        if k == "aggr":
            return self.aggregate(t, env)
        if k == "wild":
            raise DlError("reference: wildcard evaluated")
        raise RefUnsupported("term " + k)

    def compare(self, l, env):
        vt = self.vt
        ty = self.type_of(l.lhs, vt) or self.type_of(l.rhs, vt) or "i"
        a = self.eval(l.lhs, env, ty)
        b = self.eval(l.rhs, env, ty)
        op = l.op
        if op == "=":
            return sym.feq(a, b) if ty == "f" else self.uni.eq(a, b)
        if op == "!=":
            return g_not(sym.feq(a, b) if ty == "f" else self.uni.eq(a, b))
        if ty in ("s", "r"):
            raise RefUnsupported("ordering on symbols/records")
        if op == "<":
            return sym.cmp_lt(a, b, ty)
        if op == "<=":
            return sym.cmp_le(a, b, ty)
        if op == ">":
            return sym.cmp_lt(b, a, ty)
        return sym.cmp_le(b, a, ty)

    def aggregate(self, t, env):
        """value of an aggregate; _UNDEF marks 'no value' (min/max/mean over the empty set) -- the enclosing
        comparison is then false, which is the manual's empty-set rule"""
        lits = list(t.body)
        local_vt = self.var_type(lits)
        saved_vt = self.vt
        inner = dict(saved_vt)
        for k2, v in local_vt.items():
            inner.setdefault(k2, v)
        items = []
        wild = any(a.k == "wild" for l in lits if l.k == "atom" for a in l.args)
        n_pos = sum(1 for l in lits if l.k == "atom" and not l.neg)
        if wild and n_pos > 1:
            raise RefUnsupported("wildcards in a multi-atom aggregate body (materialisation changes the counted tuples)")
        tty = None
        if t.target is not None:
            tty = self.type_of(t.target, inner) or "i"

        def emit(e2, g2):
            val = None
            if t.target is not None:
                val = self.eval(t.target, e2, tty)
            items.append((g2, val, e2))
        self.vt = inner
        try:
            self._body(lits, dict(env), True, emit)
        finally:
            self.vt = saved_vt
        op = t.op
        if op == "count":
            r = 0
            for g2, _, _ in items:
                r = sym.arith("+", r, sym.from_guard(g2), "i")
            return r
        if op == "sum":
            r = 0
            for g2, v, _ in items:
                if tty == "f":
                    r = v_ite(g2, sym.arith("+", r, v, "f"), r)
                else:
                    r = sym.arith("+", r, v_ite(g2, v, 0), tty)
            return r
        if op in ("min", "max"):
            res, defined = None, False
            for g2, v, _ in items:
                if res is None:
                    res, defined = v, g2
                    continue
                better = sym.cmp_lt(v, res, tty) if op == "min" else sym.cmp_lt(res, v, tty)
                take = g_and(g2, g_or(g_not(defined), better))
                res = v_ite(take, v, res)
                defined = g_or(defined, g2)
            if res is None:
                res, defined = 0, False
            self._defs.append(defined)
            return res
        raise RefUnsupported("aggregate " + op)



"""C04 — optional AST optimisations and inlining preserve results."""
import itertools
import random

from engine_r import corpus, req, rcheck, variants, dl

PID = "C04"


def inline_variants(case):
    """inline / no_inline on every non-input, non-output relation that has rules"""
    p = dl.Program.parse(case.ref_text)
    out = []
    heads = set(h.name for c in p.clauses for h in c.heads)
    for n, r in p.rels.items():
        if n in p.outputs or n in p.inputs or n not in heads or r.quals & {"eqrel", "inline", "no_inline"}:
            continue
        out.append(req.Cfg("inline:" + n, text_fn=variants.AddQualifier(n, "inline")))
        out.append(req.Cfg("no_inline:" + n, text_fn=variants.AddQualifier(n, "no_inline")))
    return out


def run(tier, seed, only=None):
    names = variants.ast_transformers()
    base = [req.Cfg("default")]
    for n in names:
        base.append(req.Cfg("-z " + n, flags=["-z", n]))
    base.append(req.Cfg("-z all-optional", flags=["-z", ",".join(names)]))
    if tier == "thorough":
        rnd = random.Random(seed)
        for k in (2, 3, 4):
            for _ in range(4):
                sub = rnd.sample(names, k)
                base.append(req.Cfg("-z " + "+".join(s[:-len("Transformer")] for s in sub), flags=["-z", ",".join(sub)]))
    jobs = []
    for c in corpus.corpus(tier, extra=("opt",)):
        jobs.append((c, base + inline_variants(c)))
    return rcheck.run_jobs(PID, tier, jobs, only=only, rejected_ok=True, extra_cov={"ast_transformers": names},
                           what="Each optional AST pass named by the property is disabled singly (-z), all together, and in random subsets "
                                "(thorough); every non-input/non-output relation is marked inline and no_inline in turn (programs the "
                                "checker rejects are skipped and counted).  The transformed RAM of every variant is proved equal to the "
                                "least model of the original program for every database in the bound.")

"""C07 — user plans (all permutations, every version) and profile-guided auto-scheduling preserve results."""
import itertools
import os
import random
import re

from engine_r import corpus, req, rcheck, variants, dl
from vlib import common

PID = "C07"


class AddPlan:
    def __init__(self, line_no, plan):
        self.line_no = line_no
        self.plan = plan

    def __call__(self, text):
        lines = text.split("\n")
        lines[self.line_no] = lines[self.line_no] + " .plan " + self.plan
        return "\n".join(lines)


def plan_cfgs(case, tier, rnd):
    p = dl.Program.parse(case.ref_text)
    ref = dl.Reference(p, None.__class__ and _FakeCtx(), {})
    scc_of = {}
    for comp in ref.strata():
        for n in comp:
            scc_of[n] = frozenset(comp)
    cfgs = []
    lines = case.text.split("\n")
    for i, line in enumerate(lines):
        if ":-" not in line or not line.rstrip().endswith(".") or "<=" in line.split(":-")[0]:
            continue
        head, body = line.split(":-", 1)
        if ";" in body:
            continue
        body_top = re.sub(r"\{[^{}]*\}", "", body)
        hm = re.match(r"\s*([A-Za-z_][\w.]*)\s*\(", head)
        if not hm or hm.group(1) not in p.rels:
            continue
        hname = hm.group(1)
        atoms = [m.group(2) for m in re.finditer(r"(!?)\s*\b([A-Za-z_][\w.]*)\s*\(", body_top) if m.group(2) in p.rels and m.group(1) != "!"]
        k = len(atoms)
        if k < 2 or k > (3 if tier == "quick" else 4):
            continue
        nver = sum(1 for a in atoms if a in scc_of.get(hname, ()) and _recursive(p, hname, scc_of))
        nver = max(1, nver)
        perms = list(itertools.permutations(range(1, k + 1)))
        if tier == "quick" and len(perms) > 6:
            perms = rnd.sample(perms, 6)
        for perm in perms:
            ps = "(" + ",".join(map(str, perm)) + ")"
            plan = ", ".join("%d:%s" % (v, ps) for v in range(nver))
            cfgs.append(req.Cfg("plan l%d %s" % (i, plan), text_fn=AddPlan(i, plan)))
        if nver > 1:
            # versions with different orders (rotations of the identity against each other)
            ident = tuple(range(1, k + 1))
            rots = [ident[j:] + ident[:j] for j in range(1, k)] + [tuple(reversed(ident))]
            for rp in rots[:2 if tier == "quick" else len(rots)]:
                for v in range(nver):
                    plan = ", ".join("%d:(%s)" % (w, ",".join(map(str, rp if w == v else ident))) for w in range(nver))
                    cfgs.append(req.Cfg("plan l%d %s" % (i, plan), text_fn=AddPlan(i, plan)))
                    plan1 = "%d:(%s)" % (v, ",".join(map(str, rp)))
                    cfgs.append(req.Cfg("plan l%d %s" % (i, plan1), text_fn=AddPlan(i, plan1)))
        if tier == "thorough" and nver > 1:
            for _ in range(4):
                plan = ", ".join("%d:(%s)" % (v, ",".join(map(str, rnd.choice(perms)))) for v in range(nver))
                cfgs.append(req.Cfg("plan l%d %s" % (i, plan), text_fn=AddPlan(i, plan)))
    return cfgs


def _recursive(p, hname, scc_of):
    return True


class _FakeCtx:
    uni = None
    functors = {}


class ProfilePrep:
    """produce a profile with join-size statistics by one real run on a small concrete database, then use -a"""

    def __call__(self, work, text):
        p = dl.Program.parse(text) if ".plan" not in text else None
        d = os.path.join(work, "prof_" + str(abs(hash(text)) % 100000))
        os.makedirs(os.path.join(d, "facts"), exist_ok=True)
        if p is not None:
            for n in p.inputs:
                info = p.rels[n]
                with open(os.path.join(d, "facts", n + ".facts"), "w") as f:
                    for t in itertools.product([1, 2, 3], repeat=info.arity):
                        if sum(t) % 3 != 1 or info.arity < 2:
                            f.write("\t".join(map(str, t)) + "\n")
        src = os.path.join(d, "p.dl")
        open(src, "w").write(text)
        prof = os.path.join(d, "prof.log")
        rc, out, err = common.sh([common.SOUFFLE, "-w", "-F", os.path.join(d, "facts"), "-D", d, "-p", prof, "--emit-statistics", src],
                                 timeout=120, cwd=d)
        if rc != 0 or not os.path.exists(prof):
            raise req.SouffleRejected("profile run failed rc=%d: %s" % (rc, err[-300:]))
        return ["-a", prof]


def run(tier, seed, only=None):
    rnd = random.Random(seed)
    jobs = []
    fams = ("positive", "recursive", "negation", "constraint", "aggregate", "eqrel")
    for c in corpus.corpus(tier, extra=("opt",)):
        if c.family not in fams and c.family != "opt":
            continue
        cfgs = plan_cfgs(c, tier, rnd)
        cfgs += sips_cfgs(tier)
        cfgs.append(req.Cfg("auto-schedule", prep=ProfilePrep()))
        if cfgs:
            jobs.append((c, cfgs))
    return rcheck.run_jobs(PID, tier, jobs, only=only, rejected_ok=True,
                           what="For every corpus clause with 2-3 (thorough: 4) positive body atoms, every permutation is supplied as a "
                                ".plan for every version of the clause, and every built-in SIPS heuristic is selected (-PRamSIPS); the "
                                "transformed RAM of each variant is proved equal to the least model for every database in the bound.  "
                                "Auto-scheduling: a profile with join-size statistics is produced by one real run (-p --emit-statistics) on "
                                "a small concrete database and the RAM obtained with -a <profile> is proved equal to the least model too.")


def sips_cfgs(tier):
    src = common.read_repo("src/ast2ram/utility/SipsMetric.cpp")
    names = re.findall(r'heuristic == "([\w-]+)"', src)
    if len(names) < 5:
        raise common.EngineError("SIPS heuristics not found in SipsMetric.cpp")
    if tier == "quick":
        names = [n for n in names if n in ("naive", "max-bound", "least-free", "delta-max-bound", "input")]
    return [req.Cfg("sips:" + n, flags=["-PRamSIPS:" + n]) for n in names]

"""C05 — magic-set transformation preserves results."""
from engine_r import corpus, req, rcheck, variants, dl

PID = "C05"


def run(tier, seed, only=None):
    jobs = []
    for c in corpus.corpus(tier, extra=("opt", "magic")):
        p = dl.Program.parse(c.ref_text)
        cfgs = [req.Cfg("-m *", flags=["-m", "*"])]
        idb = [n for n in p.rels if n not in p.inputs and any(h.name == n for cl in p.clauses for h in cl.heads)]
        for n in idb[: (2 if tier == "quick" else 6)]:
            cfgs.append(req.Cfg("-m " + n, flags=["-m", n]))
            cfgs.append(req.Cfg("magic:" + n, text_fn=variants.AddQualifier(n, "magic")))
        if idb:
            cfgs.append(req.Cfg("-m * no_magic:" + idb[0], flags=["-m", "*"], text_fn=variants.AddQualifier(idb[0], "no_magic")))
            if tier == "thorough" and len(idb) > 1:
                cfgs.append(req.Cfg("-m * exclude:" + idb[-1], flags=["-m", "*", "--magic-transform-exclude", idb[-1]]))
        jobs.append((c, cfgs))
    return rcheck.run_jobs(PID, tier, jobs, only=only, rejected_ok=True,
                           what="The magic-set transformation is applied to all relations, to single relations, through magic/no_magic "
                                "qualifiers and with exclusions; the transformed RAM of each variant is proved equal to the least model of "
                                "the untransformed program for every database in the bound.")

"""C15 — printing a parsed program and reparsing it is lossless."""
import hashlib
import os

from vlib import common
from vlib.common import EngineError, sh
from engine_r import corpus, req, rcheck

PID = "C15"
_CACHE = {}


def show_ast(text, work):
    src = os.path.join(work, "a_%s.dl" % hashlib.md5(text.encode()).hexdigest()[:12])
    with open(src, "w") as f:
        f.write(text)
    rc, out, err = sh([common.SOUFFLE, "--show=initial-ast", "-w", src], timeout=120, cwd=work)
    return rc, out, err


class Reprint:
    """program text -> what the real souffle prints for it after parsing (--show=initial-ast)"""

    def __call__(self, text):
        if text in _CACHE:
            return _CACHE[text]
        work = common.scratch_dir("c15")
        try:
            rc, out, err = show_ast(text, work)
            if rc != 0:
                raise req.SouffleRejected("original program rejected: " + err[-200:])
        finally:
            common.rm_rf(work)
        _CACHE[text] = out
        return out


def run(tier, seed, only=None):
    common.ensure_souffle()
    cs = [c for c in corpus.corpus(tier, extra=("opt", "choice", "subsume", "limit", "syntax", "component"))
          if c.family != "component" and (not only or only in c.name)]
    # phase 1 (direct execution, no solver): printed program parses again and printing is a fixpoint
    work = common.scratch_dir("c15")
    syntactic = []
    viol = []
    try:
        import concurrent.futures as cf

        def one(c):
            rc, p2, err = show_ast(c.text, work)
            if rc != 0:
                return None
            rc2, p3, err2 = show_ast(p2, work)
            return (c, p2, rc2, p3, err2)
        with cf.ThreadPoolExecutor(max_workers=12) as ex:
            outs = list(ex.map(one, cs))
        for o in outs:
            if o is None:
                continue
            c, p2, rc2, p3, err2 = o
            _CACHE[c.text] = p2
            ok = rc2 == 0 and p3 == p2
            syntactic.append({"program": c.name, "reparses": rc2 == 0, "fixpoint": ok})
            if not ok:
                d = os.path.join(common.VERIF, "replays", PID, c.name + "__reprint")
                os.makedirs(d, exist_ok=True)
                open(os.path.join(d, "original.dl"), "w").write(c.text)
                open(os.path.join(d, "printed.dl"), "w").write(p2)
                open(os.path.join(d, "printed_again.dl"), "w").write(p3 if rc2 == 0 else err2)
                open(os.path.join(d, "README"), "w").write("souffle --show=initial-ast original.dl > printed.dl; the printed program %s\n" % (
                    "does not parse: " + err2[-300:] if rc2 != 0 else "prints differently when parsed again (diff printed.dl printed_again.dl)"))
                viol.append((c.name, "printed program does not reparse" if rc2 != 0 else "printing is not a fixpoint", d))
    finally:
        common.rm_rf(work)
    cfgs = [req.Cfg("printed", text_fn=Reprint())]
    res = rcheck.run_jobs(PID, tier, [(c, cfgs) for c in cs], rejected_ok=False,
                          what="For each corpus program (incl. qualifiers, plans, choice-domain, subsumption, limitsize, records, symbols, "
                               "operator precedence, negative constants): the text printed by --show=initial-ast parses again and prints "
                               "identically (two direct runs of the real parser/printer), and the RAM of the printed program is proved to "
                               "satisfy the original program's semantics (least model / declarative contract) for every database in the bound.  "
                               "The parser itself is not encoded.")
    for name, what, d in viol:
        res.violation("reprint|%s|%s" % (name, what[:20]), "%s: %s" % (name, what), d)
    res.coverage["syntactic_checks"] = len(syntactic)
    res.coverage["syntactic_ok"] = sum(1 for s in syntactic if s["fixpoint"])
    return res

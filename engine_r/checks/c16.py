"""C16 — component instantiation is equivalent to textual expansion."""
from engine_r import corpus, req, rcheck

PID = "C16"


def run(tier, seed, only=None):
    cfgs = [req.Cfg("default"), req.Cfg("initial-ram", ram="initial-ram")]
    jobs = [(c, cfgs) for c in corpus.corpus(tier, extra=("component",)) if c.family == "component"]
    return rcheck.run_jobs(PID, tier, jobs, only=only,
                           what="Each program wraps its relations and rules in components (instantiation, several instances, type and "
                                "component parameters, inheritance chains, overrides, nested inits, outputs declared inside components); "
                                "the RAM the real souffle emits for it is proved equal, for every database in the bound, to the least model "
                                "of the hand-flattened twin (names expanded by hand, parsed only by the independent reference front end).")

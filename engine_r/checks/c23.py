"""C23 — a size limit truncates recursion soundly."""
from engine_r import corpus, req, rcheck

PID = "C23"


def run(tier, seed, only=None):
    cfgs = [req.Cfg("default"), req.Cfg("initial-ram", ram="initial-ram"), req.Cfg("-j4", flags=["-j4"])]
    jobs = [(c, cfgs) for c in corpus.corpus(tier, extra=("limit",)) if c.family == "limit"]
    return rcheck.run_jobs(PID, tier, jobs, only=only, level="other",
                           what="Recursive programs with .limitsize R(n=k), k in {1,2,3}: on the RAM emitted by the real souffle, for every "
                                "database in the bound: output is a subset of the unlimited least model; equal to it when that has fewer "
                                "than k tuples; otherwise holds at least k tuples (cardinalities as integer sums over tuple guards).")

"""C09 — semi-naive evaluation is complete and non-redundant: one inductive step from an ARBITRARY loop-head
state of every recursive stratum (plus the base case), on the untransformed RAM the real translator emits."""
import itertools
import multiprocessing as mp
import time
import traceback

import z3

from vlib import common
from vlib.common import EngineError
from engine_r import corpus, req, dl, sym, ramexec, judges
from engine_r.sym import g_and, g_or, g_not

PID = "C09"


def free_rel(name, arity, types, uni, universe, tag):
    r = sym.Rel(name, arity, types, uni)
    for i, tup in enumerate(itertools.product(universe, repeat=arity)):
        r.insert(tuple(tup), z3.Bool("%s_%s_%d" % (tag, name, i)))
    return r


def subset_rel(name, base, tag):
    """arbitrary subset of base"""
    r = sym.Rel(name, base.arity, base.types, base.uni)
    for i, (t, g) in enumerate(base.items()):
        r.insert(t, g_and(g, z3.Bool("%s_%s_%d" % (tag, name, i))))
    return r


def minus(a, b, name):
    r = sym.Rel(name, a.arity, a.types, a.uni)
    for t, g in a.items():
        r.insert(t, g_and(g, g_not(b.member(t))))
    return r


def union(a, b, name):
    r = a.copy(name)
    for t, g in b.items():
        r.insert(t, g)
    return r


def find_loops(prog):
    """[(subroutine name, statements before the loop, loop statement, scc relation names)]"""
    out = []
    for sname, ss in prog.subs.items():
        for i, s in enumerate(ss):
            if s.kind != "loop":
                continue
            rels = set()
            used = set()

            def walk_op(o):
                if o is None:
                    return
                if o.kind == "insert" and o.rel.startswith("@new_"):
                    rels.add(o.rel[len("@new_"):])
                if hasattr(o, "rel"):
                    used.add(o.rel)
                for c in _conds(o):
                    used.add(c)
                walk_op(getattr(o, "body", None) if o.kind not in ("insert", "erase", "return") else None)

            def walk(st):
                for x in st:
                    if x.kind == "query":
                        walk_op(x.op)
                    elif hasattr(x, "body") and isinstance(x.body, list):
                        walk(x.body)
            walk(s.body)
            walk(ss[:i])
            out.append((sname, ss[:i], s, rels, used))
    return out


def _conds(o):
    """relation names mentioned in the conditions of an operation"""
    names = []

    def wc(c):
        if c is None:
            return
        if c.kind in ("exists", "isempty"):
            names.append(c.rel)
        for a in ("lhs", "rhs", "arg"):
            x = getattr(c, a, None)
            if x is not None and hasattr(x, "kind") and x.kind in ("and", "not", "exists", "isempty", "constraint", "true", "false"):
                wc(x)
    wc(getattr(o, "cond", None))
    return names


def _bindings(ref, clause, rels):
    """every body binding of a clause over the database `rels`: list of (head relation, head tuple, guard)"""
    out = []
    ref.rels = rels

    def emit(env, g):
        for h in clause.heads:
            info = ref.p.rels[h.name]
            t, d = ref.with_defs(lambda: tuple(ref.eval(a, env, info.types[i]) for i, a in enumerate(h.args)))
            out.append((h.name, t, g_and(g, d)))
    ref.body(list(clause.body), {}, True, emit)
    return out


def stratum_obligations(case):
    out = {"case": case.name, "strata": [], "error": None}
    t0 = time.time()
    work = common.scratch_dir("c09")
    try:
        refprog = dl.Program.parse(case.ref_text)
        if refprog.subsumptions or refprog.limits or any(r.choice or "eqrel" in r.quals for r in refprog.rels.values()):
            raise ramexec.Unsupported("stratum uses choice/subsumption/limitsize/eqrel (covered by C10/C11/C23/C08)")
        uni = sym.Universe()
        ctx = ramexec.Ctx(uni, timeout_ms=120000)
        consts = sorted(refprog.constants())
        for c in consts:
            uni.add_const(c)
        atoms = [z3.BitVec("s%d" % i, sym.W) for i in range(case.m)]
        for a in atoms:
            uni.add_atom(a)
        universe = consts + atoms
        # optional AST passes are switched off so that the RAM relations are the source program's relations
        from engine_r import variants
        prog = req.get_ram(case.text, req.Cfg("initial-ram", ram="initial-ram", flags=["-z", ",".join(variants.AST_OPTIONAL)]), work)
        for sname, pre, loop, scc, used in find_loops(prog):
            foreign = sorted(u for u in used if not u.startswith("@") and u not in refprog.rels)
            if foreign:
                raise ramexec.Unsupported("an AST pass introduced relations %s that the source program does not have" % foreign)
            if not scc or not all(r in refprog.rels for r in scc):
                raise EngineError("loop in subroutine %s writes relations %s unknown to the source program" % (sname, sorted(scc)))
            st = {"stratum": sorted(scc), "obligations": []}
            clauses = [c for c in refprog.clauses if any(h.name in scc for h in c.heads)]
            if any(len(c.heads) > 1 for c in clauses):
                raise ramexec.Unsupported("multi-head clause in a recursive stratum")

            def mentions_scc(c):
                return any(l.k == "atom" and l.name in scc for l in c.body)
            rec_clauses = [c for c in clauses if mentions_scc(c)]
            nonrec_clauses = [c for c in clauses if not mentions_scc(c)]
            # ---------------------------------------------------------------- arbitrary loop-head state
            lower = {}
            for n, info in refprog.rels.items():
                if n not in scc:
                    lower[n] = free_rel(n, info.arity, info.types, uni, universe, "low")
            main = {n: free_rel(n, refprog.rels[n].arity, refprog.rels[n].types, uni, universe, "main") for n in scc}
            delta = {n: subset_rel("@delta_" + n, main[n], "dl") for n in scc}
            old = {n: minus(main[n], delta[n], n) for n in scc}
            ref = dl.Reference(refprog, ctx, {})
            # invariant: every consequence of the stratum's rules over the old tuples is already in main
            inv = []
            for c in clauses:
                for hn, t, g in _bindings(ref, c, dict(lower, **old)):
                    inv.append(g_or(g_not(g), main[hn].member(t)))
            # expected: T(main) \ main, and per-head-tuple counts of bindings containing a delta tuple
            b_main = [x for c in rec_clauses for x in _bindings(ref, c, dict(lower, **main))]
            b_old = [x for c in rec_clauses for x in _bindings(ref, c, dict(lower, **old))]
            expected = {n: sym.Rel(n, refprog.rels[n].arity, refprog.rels[n].types, uni) for n in scc}
            for hn, t, g in b_main:
                expected[hn].insert(t, g_and(g, g_not(main[hn].member(t))))
            # with the invariant, bindings over old tuples add nothing new; the non-recursive clauses neither
            # ---------------------------------------------------------------- one loop body from that state
            ex = ramexec.Exec(prog, ctx, {}, loop_check=False, no_expire=True)
            for n in lower:
                if n in ex.rels:
                    ex.rels[n] = lower[n].copy(n)
            for n in scc:
                ex.rels[n] = main[n].copy(n)
                ex.rels["@delta_" + n] = delta[n].copy("@delta_" + n)
            ex.vars["loop_counter"] = 1
            ex.insert_events = []
            snaps = {}

            def on_exit(e, s, snaps=snaps):
                if "new" not in snaps:
                    snaps["new"] = {n: e.rels["@new_" + n].copy() for n in scc}
            ex.on_exit = on_exit
            ex.in_loop = 1
            ex.cur_iter = 0
            ex.stmts(loop.body)
            cont = ex.pc
            if "new" not in snaps:
                raise EngineError("loop body without EXIT")
            saved = list(ctx.assumptions)
            ctx.assumptions = saved + inv
            try:
                def obl(name, g):
                    r, model = ctx.check(g)
                    o = {"obligation": name, "verdict": {"unsat": "holds", "sat": "violated"}.get(r, "inconclusive")}
                    if r == "sat":
                        def val(v):
                            return v if isinstance(v, int) else model.eval(v, model_completion=True).as_long()
                        state = {}
                        for kind, rs in (("main", main), ("delta", delta), ("lower", lower)):
                            for n, rel in rs.items():
                                state["%s:%s" % (kind, n)] = [[sym.s32(val(x)) for x in t] for t, gg in rel.items()
                                                              if gg is True or z3.is_true(model.eval(sym.g_z3(gg), model_completion=True))]
                        o["loop_head_state"] = state
                    st["obligations"].append(o)
                # (i) completeness / soundness of the new tuples
                obl("new = T(main) \\ main", g_or(*[judges.rel_differ(snaps["new"][n], expected[n]) for n in scc]))
                # (iii) the loop exits iff nothing new
                nonempty = g_or(*[g_not(expected[n].is_empty()) for n in scc])
                obl("loop continues iff something is new", g_or(g_and(cont, g_not(nonempty)), g_and(g_not(cont), nonempty)))
                # (ii) table update re-establishes the invariant's state shape
                upd = []
                for n in scc:
                    upd.append(judges.rel_differ(ex.rels[n], union(main[n], expected[n], n)))
                    upd.append(judges.rel_differ(ex.rels["@delta_" + n], expected[n]))
                    upd.append(g_not(ex.rels["@new_" + n].is_empty()))
                obl("after the update: main' = main + new, delta' = new, new' = {}", g_and(cont, g_or(*upd)))
                # (iv) exactly once: per head tuple, #(version, binding) pairs reaching the insert ==
                #      #bindings over main with a delta tuple == #bindings(main) - #bindings(old), for heads not in main
                cnt = []
                for n in scc:
                    if refprog.rels[n].arity == 0:
                        # propositions: the translator stops at the first derivation (BREAK / ISEMPTY(@new) guard), which is
                        # sound; only completeness (i)-(iii) is demanded for them
                        continue
                    for t, _ in main[n].items():
                        ram_n = z3.Sum([z3.If(sym.g_z3(g_and(g, main[n].tuple_eq(et, t))), 1, 0)
                                        for (rn, et, g) in ex.insert_events if rn == "@new_" + n] + [z3.IntVal(0)])
                        fresh = g_not(main[n].member(t))
                        ref_n = z3.Sum([z3.If(sym.g_z3(g_and(g, fresh, main[n].tuple_eq(bt, t))), 1, 0) for (hn, bt, g) in b_main if hn == n] + [z3.IntVal(0)]) \
                            - z3.Sum([z3.If(sym.g_z3(g_and(g, fresh, main[n].tuple_eq(bt, t))), 1, 0) for (hn, bt, g) in b_old if hn == n] + [z3.IntVal(0)])
                        cnt.append(ram_n != ref_n)
                obl("each body combination with a delta tuple reaches the insert exactly once", z3.Or(*cnt) if cnt else False)
            finally:
                ctx.assumptions = saved
            # ---------------------------------------------------------------- base case
            ex0 = ramexec.Exec(prog, ctx, {}, loop_check=False, no_expire=True)
            for n in lower:
                if n in ex0.rels:
                    ex0.rels[n] = lower[n].copy(n)
            ex0.stmts(pre)
            base = []
            t_nonrec = {n: sym.Rel(n, refprog.rels[n].arity, refprog.rels[n].types, uni) for n in scc}
            empty = {n: sym.Rel(n, refprog.rels[n].arity, refprog.rels[n].types, uni) for n in scc}
            for c in nonrec_clauses:
                for hn, t, g in _bindings(ref, c, dict(lower, **empty)):
                    t_nonrec[hn].insert(t, g)
            for n in scc:
                base.append(judges.rel_differ(ex0.rels[n], t_nonrec[n]))
                base.append(judges.rel_differ(ex0.rels["@delta_" + n], ex0.rels[n]))
                base.append(g_not(ex0.rels["@new_" + n].is_empty()))
            r, model = ctx.check(g_or(*base))
            st["obligations"].append({"obligation": "base case: preamble establishes main = T_nonrec, delta = main, new = {}",
                                      "verdict": {"unsat": "holds", "sat": "violated"}.get(r, "inconclusive")})
            out["strata"].append(st)
        out["queries"] = ctx.n_queries
        out["solver_s"] = round(ctx.solver_time, 2)
    except ramexec.Unsupported as e:
        out["error"] = "unsupported: %s" % e
    except dl.RefUnsupported as e:
        out["error"] = "unsupported: reference: %s" % e
    except EngineError as e:
        out["error"] = "engine: %s" % e
    except TypeError as e:
        if "record compared with a symbolic number" in str(e):
            # a recursive relation with a record/ADT column cannot be given an arbitrary (symbolic) loop-head state
            out["error"] = "unsupported: record-valued column in a recursive stratum (arbitrary loop-head state is numeric only)"
        else:
            out["error"] = "exception: " + traceback.format_exc()[-1500:]
    except Exception:
        out["error"] = "exception: " + traceback.format_exc()[-1500:]
    finally:
        common.rm_rf(work)
    out["s"] = round(time.time() - t0, 2)
    return out


def run(tier, seed, only=None):
    common.ensure_souffle()
    cs = [c for c in corpus.corpus(tier, extra=("opt", "magic", "systematic"), deepen=2) if c.mode == "U" and (not only or only in c.name)]
    cs = [c for c in cs if "loop" in _quick_has_loop(c)]
    t0 = time.time()
    ctxm = mp.get_context("fork")
    with ctxm.Pool(max(1, min(common.NCPU - 2, 12)), maxtasksperchild=4) as pool:
        outs = pool.map(stratum_obligations, cs, chunksize=1)
    res = common.Result(PID, "proof")
    n = held = 0
    strata = 0
    skipped = []
    samples = []
    solver_s = 0
    for o in outs:
        if o["error"]:
            if o["error"].startswith("unsupported"):
                skipped.append([o["case"], o["error"][:140]])
            else:
                res.inconc("%s: %s" % (o["case"], o["error"][:500]))
            continue
        solver_s += o.get("solver_s", 0)
        for st in o["strata"]:
            strata += 1
            for ob in st["obligations"]:
                n += 1
                if ob["verdict"] == "holds":
                    held += 1
                elif ob["verdict"] == "violated":
                    d = _save(o["case"], st, ob, [c for c in cs if c.name == o["case"]][0])
                    res.violation("%s|%s|%s" % (o["case"], "+".join(st["stratum"]), ob["obligation"][:40]),
                                  "semi-naive obligation '%s' fails for stratum %s of %s from loop-head state %s" % (
                                      ob["obligation"], st["stratum"], o["case"], str(ob.get("loop_head_state"))[:400]), d)
                else:
                    res.inconc("%s %s: %s: solver gave no verdict" % (o["case"], st["stratum"], ob["obligation"]))
        if len(samples) < 6:
            samples.append(o)
    res.coverage = {
        "obligations": n, "discharged": held, "strata": strata, "programs": len([o for o in outs if not o["error"]]),
        "checker_cmd": "z3 (python API %s) on obligations generated by engine_r/checks/c09.py from `souffle --show=initial-ram`" % z3.get_version_string(),
        "trusted_base": ["RAM printed by the real souffle is the RAM executed", "RAM executor + reference semantics (engine_r)", "z3"],
        "skipped": skipped, "samples": samples, "solver_time_s": round(solver_s, 1),
        "explanation": "Per recursive stratum: from an arbitrary loop-head state (main, delta subset of main, lower relations arbitrary over the "
                       "universe) satisfying the semi-naive invariant, one execution of the real loop body yields new = T(main)\\main, "
                       "continues iff that is non-empty, updates main/delta/new correctly, and reaches the insert exactly once per body "
                       "combination containing a delta tuple (integer counting identity); the preamble establishes the invariant. "
                       "By induction the loop computes the least fixpoint for any number of iterations. A violated step is reported with the "
                       "loop-head state; states unreachable in a real run are excluded by the invariant.",
        "bounds": "U-mode universe: program constants + m pairwise distinct symbolic 32-bit values (m per program as in the corpus)",
    }
    res.assumptions = ["induction hypothesis = invariant 'every consequence of the stratum's rules over main\\delta is in main' and delta subset of main",
                       "RAM executor semantics as validated by C01"]
    return res


def _quick_has_loop(c):
    # recursive programs only (cheap syntactic pre-filter: some head relation occurs in a body)
    try:
        p = dl.Program.parse(c.ref_text)
    except EngineError:
        return ""
    for cl in p.clauses:
        heads = set(h.name for h in cl.heads)
        if any(l.k == "atom" and not l.neg for l in cl.body):
            pass
    ref = dl.Reference(p, ramexec.Ctx(sym.Universe()), {})
    try:
        for comp in ref.strata():
            cs = set(comp)
            if any(ref._mentions(cl, cs) for cl in p.clauses if any(h.name in cs for h in cl.heads)):
                return "loop"
    except EngineError:
        return ""
    return ""


def _save(case_name, st, ob, case):
    import json, os
    d = os.path.join(common.VERIF, "replays", PID, "%s__%s" % (case_name, "+".join(st["stratum"])))
    os.makedirs(d, exist_ok=True)
    open(os.path.join(d, "program.dl"), "w").write(case.text)
    json.dump({"stratum": st["stratum"], "obligation": ob["obligation"], "loop_head_state": ob.get("loop_head_state")},
              open(os.path.join(d, "counterexample.json"), "w"), indent=1)
    open(os.path.join(d, "README"), "w").write(
        "Inductive-step counterexample for the semi-naive loop of stratum %s.\n"
        "souffle --show=initial-ram program.dl prints the loop; starting its body from the loop-head state in counterexample.json\n"
        "(main / delta / lower relations) violates: %s\n" % (st["stratum"], ob["obligation"]))
    return d

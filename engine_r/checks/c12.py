"""C12 — lattice relations hold one least-upper-bound value per key."""
from engine_r import corpus, req, rcheck

PID = "C12"


def run(tier, seed, only=None):
    cfgs = [req.Cfg("default"), req.Cfg("-j4", flags=["-j4"]), req.Cfg("initial-ram", ram="initial-ram")]
    jobs = [(c, cfgs) for c in corpus.corpus(tier, extra=("lattice",)) if c.family == "lattice"]
    return rcheck.run_jobs(PID, tier, jobs, only=only, level="other",
                           what="Programs declaring a numeric lattice (Lub/Glb user functors given the interpreted models max/min and "
                                "bit-or/bit-and) with non-recursive and recursive rules: on the final database of the emitted RAM, for "
                                "every input database in the bound and two scan orders: one tuple per key; its value equals the join of all "
                                "values its rules derive for that key from the final database; every key with a derivable value is present.")

"""C06 — RAM-level optimisations preserve results: every transformer skipped singly (hook), vs least model."""
import itertools
import random

from engine_r import corpus, req, rcheck, variants

PID = "C06"


def run(tier, seed, only=None):
    names = variants.ram_transformers()
    cfgs = [req.Cfg("all-on", flags=["-j4"]), req.Cfg("initial-ram", ram="initial-ram")]
    for n in names:
        cfgs.append(req.Cfg("skip:" + n, flags=["-j4"], env={"SOUFFLE_VERIF_SKIP_RAM": n}))
    if tier == "thorough":
        rnd = random.Random(seed)
        pairs = list(itertools.combinations(names, 2))
        rnd.shuffle(pairs)
        for a, b in pairs[:12]:
            cfgs.append(req.Cfg("skip:%s+%s" % (a, b), flags=["-j4"], env={"SOUFFLE_VERIF_SKIP_RAM": a + "," + b}))
        cfgs.append(req.Cfg("skip:all", env={"SOUFFLE_VERIF_SKIP_RAM": ",".join(names)}))
    jobs = [(c, cfgs) for c in corpus.corpus(tier, extra=("opt", "index") + (("systematic",) if tier == "thorough" else ()))]
    return rcheck.run_jobs(PID, tier, jobs, only=only, extra_cov={"ram_transformers": names},
                           what="With the SOUFFLE_VERIF hook each RAM transformer of MainDriver's pipeline is skipped singly (pairs in the "
                                "thorough tier); the resulting transformed RAM, the untransformed RAM and the fully optimised RAM are each "
                                "proved equal to the least model for every database in the bound (-j4 so that ParallelTransformer runs).")

"""C01 — evaluation computes the stratified least model (engine R)."""
from engine_r import corpus, req, rcheck, selfval

PID = "C01"


def run(tier, seed, only=None):
    cfgs = [req.Cfg("transformed-ram"), req.Cfg("initial-ram", ram="initial-ram")]
    jobs = [(c, cfgs) for c in corpus.corpus(tier)]
    res = rcheck.run_jobs(PID, tier, jobs, only=only,
                           what="For each corpus program, the RAM that the real souffle emits (before and after RAM optimisation) is "
                                "executed symbolically over a symbolic fact database and z3 decides that every output relation equals "
                                "the stratified least model computed by an independent reference, for every database in the bound.")
    if not only:
        v = selfval.validate(tier)
        res.coverage["traces_validated_against_impl"] = v["validated"]
        res.coverage["ram_semantics_validation"] = v
        for name, kind, why in v["mismatches"]:
            res.inconc("RAM-semantics validation: repo test %s: %s %s (executor disagrees with the suite's expected output)" % (name, kind, why))
        if v["validated"] < 100:
            res.inconc("RAM-semantics validation ran on only %d repo tests" % v["validated"])
    return res

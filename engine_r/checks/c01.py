"""C01 — evaluation computes the stratified least model (engine R)."""
from engine_r import corpus, req, rcheck, selfval

PID = "C01"


def run(tier, seed, only=None):
    cfgs = [req.Cfg("transformed-ram"), req.Cfg("initial-ram", ram="initial-ram")]
    jobs = [(c, cfgs) for c in corpus.corpus(tier, extra=("systematic",), deepen=2)]
    res = rcheck.run_jobs(PID, tier, jobs, only=(None if only == "aggregate-kernels" else only),
                           what="For each corpus program, the RAM that the real souffle emits (before and after RAM optimisation) is "
                                "executed symbolically over a symbolic fact database and z3 decides that every output relation equals "
                                "the stratified least model computed by an independent reference, for every database in the bound.")
    if not only or only == "aggregate-kernels":
        # K part: the interpreter's aggregate kernels (Engine::initValue / runNested / fold step, cut verbatim) against the
        # aggregate specification incl. the empty-set rule -- shares the machinery of C02(d)
        from engine_k import c02
        k = c02.run(tier, seed, only="aggregate")
        for v in k.violations:
            res.violation("k:" + v["key"], "interpreter aggregate kernel: " + v["what"], v["replay"])
        for i in k.inconclusive:
            res.inconc("aggregate kernels: " + i)
        res.coverage["k_part_aggregate_kernels"] = {kk: k.coverage.get(kk) for kk in ("obligations", "discharged", "by_group", "queries", "solver_time_s", "functions_encoded")}
    if not only:
        v = selfval.validate(tier)
        res.coverage["traces_validated_against_impl"] = v["validated"]
        res.coverage["ram_semantics_validation"] = v
        for name, kind, why in v["mismatches"]:
            res.inconc("RAM-semantics validation: repo test %s: %s %s (executor disagrees with the suite's expected output)" % (name, kind, why))
        if v["validated"] < 100:
            res.inconc("RAM-semantics validation ran on only %d repo tests" % v["validated"])
    return res

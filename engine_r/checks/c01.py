"""C01 — evaluation computes the stratified least model (engine R)."""
from engine_r import corpus, req, rcheck

PID = "C01"


def run(tier, seed, only=None):
    cfgs = [req.Cfg("transformed-ram"), req.Cfg("initial-ram", ram="initial-ram")]
    jobs = [(c, cfgs) for c in corpus.corpus(tier)]
    return rcheck.run_jobs(PID, tier, jobs, only=only,
                           what="For each corpus program, the RAM that the real souffle emits (before and after RAM optimisation) is "
                                "executed symbolically over a symbolic fact database and z3 decides that every output relation equals "
                                "the stratified least model computed by an independent reference, for every database in the bound.")

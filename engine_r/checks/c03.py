"""C03 — results independent of thread count: RAM-level part (engine R)."""
from engine_r import corpus, req, rcheck, ramparse
from vlib import common

PID = "C03"


def parallel_placement_ok(prog):
    """(a) PARALLEL only on the outermost tuple-binding operation (scan / exists / aggregate) of a query and never around GUARDED INSERT / ERASE"""
    bad = []

    def walk_op(o, depth, in_par, q):
        if o is None:
            return
        par = getattr(o, "parallel", False)
        if par and depth > 0:
            bad.append("PARALLEL operation nested at depth %d" % depth)
        inp = in_par or par
        if inp and ((o.kind == "insert" and o.cond is not None) or o.kind == "erase"):
            bad.append("order-dependent %s inside a PARALLEL query" % o.kind)
        binds = o.kind in ("scan", "ifexists", "aggregate", "nestedop")
        walk_op(getattr(o, "body", None) if o.kind not in ("insert", "erase", "return") else None, depth + (1 if binds else 0), inp, q)

    def reads_writes(o, reads, writes, par):
        if o is None:
            return par
        par = par or getattr(o, "parallel", False)
        if o.kind in ("scan", "ifexists", "aggregate"):
            reads.add(o.rel)
        if o.kind in ("insert", "erase"):
            writes.add(o.rel)
        for c in [getattr(o, "cond", None)]:
            conds(c, reads)
        return reads_writes(getattr(o, "body", None) if o.kind not in ("insert", "erase", "return") else None, reads, writes, par)

    def conds(c, reads):
        if c is None:
            return
        if c.kind in ("exists", "isempty"):
            reads.add(c.rel)
        for a in ("lhs", "rhs", "arg"):
            x = getattr(c, a, None)
            if x is not None and getattr(x, "kind", None) in ("and", "not", "exists", "isempty"):
                conds(x, reads)

    def walk(ss):
        for s in ss:
            if s.kind == "query":
                walk_op(s.op, 0, False, s)
                reads, writes = set(), set()
                par = reads_writes(s.op, reads, writes, False)
                rw = set(r for r in (reads & writes) if prog.rels[r].arity - prog.rels[r].aux > 0)   # propositions guard themselves
                if par and rw:
                    # iterations of a PARALLEL loop must not observe each other's writes (non-interference)
                    bad.append("PARALLEL query reads and writes %s" % sorted(rw))
            elif hasattr(s, "body") and isinstance(s.body, list):
                walk(s.body)
    for ss in prog.subs.values():
        walk(ss)
    walk(prog.main)
    return bad


def run(tier, seed, only=None):
    cfgs = [req.Cfg("-j1", flags=["-j1"]), req.Cfg("-j2", flags=["-j2"]), req.Cfg("-j8", flags=["-j8"])]
    if tier == "thorough":
        cfgs.append(req.Cfg("-j16", flags=["-j16"]))
    cs = corpus.corpus(tier, extra=("opt", "choice", "subsume"))
    jobs = [(c, cfgs) for c in cs if c.family not in ("choice", "subsume")]
    if only and only.startswith("k:"):
        jobs = jobs[:1]
        only_r = None
    else:
        only_r = only
    res = rcheck.run_jobs(PID, tier, jobs, only=only_r, level="other",
                          what="RAM level: the transformed RAM for -j1/-j2/-j8 is proved equal to the least model (hence to each other) "
                               "for every database in the bound; PARALLEL placement obligations are checked on every emitted program "
                               "(outermost only; no guarded insert / erase under PARALLEL).  Lock, counter and union-find interleavings "
                               "are decided by C30/C22/C29; container-internal races are outside (DESIGN section 5).")
    # syntactic obligations on all programs incl. choice / subsumption
    work = common.scratch_dir("c03")
    n = 0
    try:
        for c in cs:
            if only and only not in c.name:
                continue
            try:
                prog = req.get_ram(c.text, req.Cfg("-j8", flags=["-j8"]), work)
            except req.SouffleRejected:
                continue
            n += 1
            for b in parallel_placement_ok(prog):
                import os
                d = os.path.join(common.VERIF, "replays", PID, "placement__" + c.name)
                os.makedirs(d, exist_ok=True)
                open(os.path.join(d, "program.dl"), "w").write(c.text)
                open(os.path.join(d, "ram.txt"), "w").write(prog.text)
                open(os.path.join(d, "README"), "w").write("souffle --show=transformed-ram -j8 program.dl prints ram.txt: %s\n" % b)
                res.violation("parallel-placement|%s|%s" % (c.name, b[:40]), "%s in RAM of %s with -j8" % (b, c.name), d)
    finally:
        common.rm_rf(work)
    res.coverage["parallel_placement_programs"] = n
    if not only or only.startswith("k:"):
        from engine_k import c03k
        c03k.extend(res, tier, seed, only)
    return res

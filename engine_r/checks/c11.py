"""C11 — subsumption leaves exactly the non-dominated derivable tuples."""
from engine_r import corpus, req, rcheck

PID = "C11"


def run(tier, seed, only=None):
    cfgs = [req.Cfg("default"), req.Cfg("-j8", flags=["-j8"]), req.Cfg("initial-ram", ram="initial-ram")]
    jobs = [(c, cfgs) for c in corpus.corpus(tier, extra=("subsume",)) if c.family == "subsume"]
    res = rcheck.run_jobs(PID, tier, jobs, only=only, level="other",
                           what="Programs with subsumptive clauses whose dominance is a strict partial order (min/max cost, shortest "
                                "path, Pareto pairs): on the emitted RAM for every database in the bound: no output tuple is dominated by "
                                "another output tuple; every output tuple is in the unsubsumed least model; for monotone-cost programs "
                                "the output equals the minimal tuples of the unsubsumed least model; same for -j1/-j8 RAM.")
    if not only:
        # K part: the interpreter's deletable relation keeps one B-tree per search order; ERASE must reach all of them
        # (obligation of the interp-relation group of engine_k/c08k.py: BtreeDeleteRelation::erase with 1..3 indexes)
        from engine_k import c08k
        c08k.extend(res, tier, seed, "k:rel_erase")
    return res

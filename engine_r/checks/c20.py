"""C20 — profiling is transparent and the sizes the profile events carry add up to the final relation sizes."""
import multiprocessing as mp
import re
import time
import traceback

import z3

from vlib import common
from vlib.common import EngineError
from engine_r import corpus, req, rcheck, dl, sym, ramexec
from engine_r.sym import g_and, g_or, g_not

PID = "C20"
FAMS = ("positive", "recursive", "negation", "constraint", "aggregate")


def _int(v):
    # sizes are tiny compared with 2^32: 32-bit bit-vector sums cannot wrap
    return sym.bv(v)


def size_obligation(case):
    """reported tuple count (souffle/profile/Relation.h size(): non-recursive count + sum of per-iteration counts; a timer
    event carries the size DELTA of its target over the timed statement, LOG SIZE the absolute size, and the first
    event written for a key wins) == number of tuples held when the relation is output"""
    out = {"case": case.name, "obls": [], "error": None}
    t0 = time.time()
    work = common.scratch_dir("c20")
    try:
        refprog = dl.Program.parse(case.ref_text)
        uni = sym.Universe()
        ctx = ramexec.Ctx(uni, timeout_ms=120000)
        # counting identities are hard for the solver: cap the universe (constants + symbolic values) at 4
        import copy
        case = copy.copy(case)
        case.m = max(1, min(case.m, 4 - len(refprog.constants())))
        out["bound"] = {"m": case.m, "constants": len(refprog.constants())}
        db = req.make_db(refprog, case, ctx)
        cfg = req.Cfg("profile", flags=["-p", "prof.log"])
        prog = req.get_ram(case.text, cfg, work)
        ex = ramexec.Exec(prog, ctx, db.inputs, max_loop=case.max_loop, no_expire=True)
        ex.run_main()
        # events as the profiler groups them
        nonrec, rec = {}, {}
        for ev in ex.logsizes:
            m = re.search(r'"@([tn])-(nonrecursive|recursive)-relation\\;([^\\]+)\\;', ev["msg"])
            if not m:
                continue
            rel = m.group(3)
            contrib = z3.If(sym.g_z3(ev["pc"]), _int(ev["size"]), z3.BitVecVal(0, 32))
            # ProfileDatabase::writeEntry does not rewrite an existing entry: the FIRST event of a key wins
            if m.group(2) == "nonrecursive":
                nonrec.setdefault(rel, contrib)
            else:
                rec.setdefault(rel, {}).setdefault(ev["iter"], contrib)
        for rel in sorted(set(nonrec) | set(rec)):
            if rel not in refprog.rels or "eqrel" in refprog.rels[rel].quals or rel not in ex.rels:
                continue
            total = nonrec.get(rel, z3.BitVecVal(0, 32))
            for it, c in rec.get(rel, {}).items():
                total = total + c
            final = _int(ex.rels[rel].size())
            r, model = ctx.check(total != final)
            ob = {"relation": rel, "verdict": {"unsat": "holds", "sat": "violated"}.get(r, "inconclusive"),
                  "iterations_with_events": len(rec.get(rel, {}))}
            if r == "sat":
                ob["facts"] = {k: [list(x) for x in v] for k, v in db.concretize(model).items()}
                ob["reported"] = str(model.eval(total, model_completion=True))
                ob["actual"] = str(model.eval(final, model_completion=True))
            out["obls"].append(ob)
    except ramexec.Unsupported as e:
        out["error"] = "unsupported: %s" % e
    except EngineError as e:
        out["error"] = "engine: %s" % e
    except Exception:
        out["error"] = "exception: " + traceback.format_exc()[-1200:]
    finally:
        common.rm_rf(work)
    out["s"] = round(time.time() - t0, 2)
    return out


def replay_size(case, ob):
    """run the real souffle -p on the model database and read the profile's own numbers"""
    import json, os
    refprog = dl.Program.parse(case.ref_text)
    d = os.path.join(common.VERIF, "replays", PID, "%s__%s" % (case.name, ob["relation"]))
    os.makedirs(d, exist_ok=True)
    facts = {k: [tuple(t) for t in v] for k, v in ob["facts"].items()}
    req.write_facts(refprog, facts, os.path.join(d, "facts"))
    prof = os.path.join(d, "prof.json")
    rc, real, err = req.run_real(case.text, req.Cfg("profile", flags=["-p", prof]), os.path.join(d, "facts"), os.path.join(d, "out"))
    if rc != 0 or not os.path.exists(prof):
        return False, "profile run failed: %s" % err[-200:], d
    try:
        pj = json.load(open(prof))
        relj = pj["root"]["program"]["relation"][ob["relation"]]
        reported = int(relj.get("num-tuples", 0)) + sum(int(v.get("num-tuples", 0)) for v in relj.get("iteration", {}).values())
    except Exception as e:
        return False, "cannot read profile: %s" % e, d
    actual = len(real.get(ob["relation"], set())) if ob["relation"] in real else None
    if actual is None:
        return False, "relation is not an output; cannot compare", d
    return reported != actual, "profile reports %d tuples, relation holds %d" % (reported, actual), d


def run(tier, seed, only=None):
    cfgs = [req.Cfg("profile", flags=["-p", "prof.log"]), req.Cfg("profile-j4", flags=["-p", "prof.log", "-j4"]),
            req.Cfg("profile-freq", flags=["-p", "prof.log", "--profile-frequency"])]
    cs = [c for c in corpus.corpus(tier) if c.family in FAMS and (not only or only in c.name)]
    res = rcheck.run_jobs(PID, tier, [(c, cfgs) for c in cs], level="other",
                          what="On the RAM emitted with -p: (a) outputs equal the least model for every database in the bound; (b) the "
                               "tuple count souffleprof derives from the size events (non-recursive count + sum of per-iteration counts) "
                               "equals the relation's final size, as an integer identity over the symbolic guards.  Event "
                               "serialisation and souffleprof's parsing are outside.")
    ctxm = mp.get_context("fork")
    with ctxm.Pool(max(1, min(common.NCPU - 2, 12)), maxtasksperchild=4) as pool:
        outs = pool.map(size_obligation, [c for c in cs if c.mode == "U"], chunksize=1)
    by = {c.name: c for c in cs}
    n = held = 0
    for o in outs:
        if o["error"]:
            if o["error"].startswith("unsupported"):
                res.coverage.setdefault("size_skipped", []).append([o["case"], o["error"][:120]])
            else:
                res.inconc("%s: size obligations: %s" % (o["case"], o["error"][:400]))
            continue
        for ob in o["obls"]:
            n += 1
            if ob["verdict"] == "holds":
                held += 1
            elif ob["verdict"] == "violated":
                ok, info, d = replay_size(by[o["case"]], ob)
                if ok:
                    res.violation("size|%s|%s" % (o["case"], ob["relation"]), "%s (%s, relation %s)" % (info, o["case"], ob["relation"]), d)
                else:
                    res.inconc("%s %s: size counterexample did not reproduce: %s" % (o["case"], ob["relation"], info))
            else:
                res.inconc("%s %s: solver gave no verdict" % (o["case"], ob["relation"]))
    res.coverage["size_obligations"] = n
    res.coverage["size_discharged"] = held
    res.coverage["size_samples"] = outs[:4]
    return res

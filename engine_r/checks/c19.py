"""C19 — provenance is faithful: same results, and every annotated tuple has a well-founded proof step."""
import multiprocessing as mp
import re
import time
import traceback

import z3

from vlib import common
from vlib.common import EngineError
from engine_r import corpus, req, rcheck, dl, sym, ramexec
from engine_r.sym import g_and, g_or, g_not

PID = "C19"
FAMS = ("positive", "recursive", "negation", "constraint", "eqrel", "functor")


def subproof_obligations(case):
    """for one program: run the -t explain RAM symbolically, then for every annotated tuple call its rule's
    subproof subroutine: it must return a row (the explainer finds the proof step) and every body tuple it
    returns must have a strictly smaller height (proof trees are finite)."""
    out = {"case": case.name, "obls": [], "error": None, "s": 0}
    t0 = time.time()
    work = common.scratch_dir("c19")
    try:
        refprog = dl.Program.parse(case.ref_text)
        uni = sym.Universe()
        ctx = ramexec.Ctx(uni, timeout_ms=120000)
        db = req.make_db(refprog, case, ctx)
        cfg = req.Cfg("explain", flags=["-t", "explain"])
        prog = req.get_ram(case.text, cfg, work)
        ex = ramexec.Exec(prog, ctx, db.inputs, max_loop=case.max_loop, no_expire=True)
        ex.run_main()
        for name, d in prog.rels.items():
            if name.startswith("@") or d.rep == "info" or not d.aux or name not in refprog.rels:
                continue
            n = d.arity - d.aux
            rel = ex.rels[name]
            missing, notwf = [], []
            ntuples = 0
            for t, g in rel.items():
                rule = t[n]
                if not isinstance(rule, int):
                    raise EngineError("symbolic rule number in %s" % name)
                if rule == 0:
                    continue       # input fact / base
                sub = "%s_%d_subproof" % (name, rule)
                if sub not in prog.subs:
                    missing.append(g)
                    continue
                ntuples += 1
                sx = ramexec.Exec(prog, ctx, db.inputs, max_loop=case.max_loop, no_expire=True)
                sx.rels = ex.rels
                rets = sx.run_sub(sub, list(t[:n]) + [t[d.arity - 1]])
                missing.append(g_and(g, g_not(g_or(*[rg for _, rg, _ in rets]))))
                for vals, rg, env in rets:
                    for tid, terms in env.items():
                        if len(terms) >= 2 and isinstance(terms, tuple) and tid in _scanned_aux(prog, sub):
                            notwf.append(g_and(g, rg, g_not(sym.cmp_lt(terms[-1], t[d.arity - 1], "i"))))
            for label, gs in (("proof-step-exists", missing), ("heights-decrease", notwf)):
                r, model = ctx.check(g_or(*gs))
                ob = {"relation": name, "obligation": label, "tuples": ntuples, "verdict": {"unsat": "holds", "sat": "violated"}.get(r, "inconclusive")}
                if r == "sat":
                    ob["facts"] = {k: [list(x) for x in v] for k, v in db.concretize(model).items()}
                out["obls"].append(ob)
        out["queries"] = ctx.n_queries
        out["solver_s"] = round(ctx.solver_time, 2)
    except ramexec.Unsupported as e:
        out["error"] = "unsupported: %s" % e
    except EngineError as e:
        out["error"] = "engine: %s" % e
    except Exception:
        out["error"] = "exception: " + traceback.format_exc()[-1200:]
    finally:
        common.rm_rf(work)
    out["s"] = round(time.time() - t0, 2)
    return out


_SC = {}


def _scanned_aux(prog, sub):
    """tuple ids bound by scans over annotated relations in a subroutine"""
    key = (id(prog), sub)
    if key in _SC:
        return _SC[key]
    ids = set()

    def walk(o):
        if o is None:
            return
        if o.kind in ("scan", "ifexists") and prog.rels[o.rel].aux:
            ids.add(o.tid)
        walk(getattr(o, "body", None) if o.kind not in ("insert", "erase", "return") else None)
    for s in prog.subs[sub]:
        if s.kind == "query":
            walk(s.op)
    _SC[key] = ids
    return ids


def replay_explain(case, ob):
    """ask the real `souffle -t explain` for the proof of every tuple of the relation on the model database"""
    import os
    refprog = dl.Program.parse(case.ref_text)
    d = os.path.join(common.VERIF, "replays", PID, "%s__%s__%s" % (case.name, ob["relation"], ob["obligation"].replace(" ", "_")))
    os.makedirs(d, exist_ok=True)
    facts = {k: [tuple(t) for t in v] for k, v in ob["facts"].items()}
    req.write_facts(refprog, facts, os.path.join(d, "facts"))
    # the relation must be visible: output it
    text = case.text if ob["relation"] in refprog.outputs else case.text + "\n.output %s\n" % ob["relation"]
    rc, real, err = req.run_real(text, req.Cfg("plain"), os.path.join(d, "facts"), os.path.join(d, "out"))
    rows = sorted(real.get(ob["relation"], set()))[:8]
    if rc != 0 or not rows:
        return False, "plain run failed or relation empty on the model database", d
    cmds = ["setdepth 30"] + ["explain %s(%s)" % (ob["relation"], ", ".join(r.split("\t")) if r != "()" else "") for r in rows] + ["exit"]
    open(os.path.join(d, "explain.in"), "w").write("\n".join(cmds) + "\n")
    rc, out, err = common.sh([common.SOUFFLE, "-w", "-t", "explain", "-F", os.path.join(d, "facts"), "-D", os.path.join(d, "out"),
                              os.path.join(d, "out", "prog.dl")], timeout=120, input="\n".join(cmds) + "\n", cwd=d)
    open(os.path.join(d, "explain.out"), "w").write(out + "\n--- stderr\n" + err)
    open(os.path.join(d, "README"), "w").write("souffle -t explain -F facts out/prog.dl < explain.in > explain.out\nobligation: %s for relation %s\n" % (ob["obligation"], ob["relation"]))
    bad = []
    if rc != 0:
        bad.append("souffle -t explain exited with %d" % rc)
    if "subproof" in out:
        bad.append("a proof did not bottom out in facts within depth 30 (circular / ever-growing proof)")
    if "not found" in out.lower():
        bad.append("an output tuple could not be explained")
    return bool(bad), "; ".join(bad) or "all %d tuples explained with finite proofs" % len(rows), d


def run(tier, seed, only=None):
    cfgs = [req.Cfg("explain", flags=["-t", "explain"]), req.Cfg("explain-j4", flags=["-t", "explain", "-j4"])]
    cs = [c for c in corpus.corpus(tier) if c.family in FAMS and (not only or only in c.name)]
    res = rcheck.run_jobs(PID, tier, [(c, cfgs) for c in cs], rejected_ok=True,
                          what="On the RAM emitted with -t explain: (a) every output relation projected onto its original columns equals "
                               "the least model for every database in the bound; (b) for every tuple annotated (rule k, height h) the "
                               "generated <rel>_<k>_subproof subroutine returns a proof step, and every body tuple it returns has height "
                               "< h (by induction on h every tree the explainer assembles is a valid finite proof).  The tree assembly "
                               "and rendering code (ExplainProvenanceImpl.h) is outside.")
    ctxm = mp.get_context("fork")
    with ctxm.Pool(max(1, min(common.NCPU - 2, 12)), maxtasksperchild=4) as pool:
        outs = pool.map(subproof_obligations, [c for c in cs if c.mode == "U"], chunksize=1)
    n = held = 0
    samples = []
    for o in outs:
        if o["error"]:
            if o["error"].startswith("unsupported"):
                res.coverage.setdefault("subproof_skipped", []).append([o["case"], o["error"][:120]])
            else:
                res.inconc("%s: subproof obligations: %s" % (o["case"], o["error"][:400]))
            continue
        for ob in o["obls"]:
            n += 1
            if ob["verdict"] == "holds":
                held += 1
            elif ob["verdict"] == "violated":
                case = [c for c in cs if c.name == o["case"]][0]
                ok, info, d = replay_explain(case, ob)
                if ok:
                    res.violation("subproof|%s|%s|%s" % (o["case"], ob["relation"], ob["obligation"]),
                                  "provenance proof-step obligation '%s' fails for relation %s of %s: %s" % (
                                      ob["obligation"], ob["relation"], o["case"], info), d)
                else:
                    res.inconc("%s %s %s: counterexample did not reproduce with the real explain: %s" % (o["case"], ob["relation"], ob["obligation"], info))
            else:
                res.inconc("%s %s %s: solver gave no verdict" % (o["case"], ob["relation"], ob["obligation"]))
        if len(samples) < 4:
            samples.append(o)
    res.coverage["subproof_obligations"] = n
    res.coverage["subproof_discharged"] = held
    res.coverage["subproof_samples"] = samples
    return res

"""C08 — relation representation is transparent; eqrel holds the closure (engine R part; K part: engine_k.c08k)."""
from engine_r import corpus, req, rcheck, variants, dl

PID = "C08"


def jobs_for(tier):
    jobs = []
    for c in corpus.corpus(tier, extra=("eqrel2",)):
        p = dl.Program.parse(c.ref_text)
        cfgs = [req.Cfg("default")]
        rels = [n for n, r in p.rels.items() if r.arity > 0 and "eqrel" not in r.quals]
        for rep in ("btree", "brie"):
            cfgs.append(req.Cfg("all:" + rep, text_fn=variants.Chain(*[variants.AddQualifier(n, rep) for n in rels])))
        if tier == "thorough":
            for n in rels[:4]:
                for rep in ("btree", "brie"):
                    cfgs.append(req.Cfg("%s:%s" % (n, rep), text_fn=variants.AddQualifier(n, rep)))
        jobs.append((c, cfgs))
    return jobs


def run(tier, seed, only=None):
    res = rcheck.run_jobs(PID, tier, jobs_for(tier), only=only, rejected_ok=True,
                          what="R part: every relation is declared btree / brie / default and the RAM of each variant is proved equal to "
                               "the least model; programs with eqrel relations are compared with a reference in which the relation is "
                               "defined by explicit reflexive/symmetric/transitive rules (reads, filters, joins, either column bound).")
    try:
        from engine_k import c08k
    except ImportError:
        res.coverage["k_part"] = "not built"
        return res
    c08k.extend(res, tier, seed, only)
    return res

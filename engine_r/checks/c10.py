"""C10 — choice-domain results are functional, sound and maximal."""
from engine_r import corpus, req, rcheck

PID = "C10"


def run(tier, seed, only=None):
    cfgs = [req.Cfg("default"), req.Cfg("-j8", flags=["-j8"]), req.Cfg("initial-ram", ram="initial-ram")]
    jobs = [(c, cfgs) for c in corpus.corpus(tier, extra=("choice",)) if c.family == "choice"]
    return rcheck.run_jobs(PID, tier, jobs, only=only, level="other",
                           what="Programs with choice-domain keys (single, several, composite; non-recursive and recursive): on the final "
                                "database computed by the emitted RAM (sequential guarded-insert semantics, three different scan orders, "
                                "-j1 and -j8 RAM) for every input database in the bound: no two tuples agree on a declared key; every tuple "
                                "is derivable by the rules from the final database; every derivable absent tuple clashes on a key.")

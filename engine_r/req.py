"""Engine R driver: (program, configuration) -> real souffle RAM -> symbolic execution -> z3 equivalence with
the reference least model over a symbolic database -> model -> replay on the real souffle."""
import hashlib
import itertools
import multiprocessing as mp
import os
import re
import shutil
import time
import traceback

import z3

from vlib import common
from vlib.common import EngineError, sh
from . import sym, ramparse, ramexec, dl, concrete
from .sym import g_and, g_or, g_not


class Cfg:
    """How the real souffle is invoked for one side of a comparison."""

    def __init__(self, name, flags=(), env=None, ram="transformed-ram", text_fn=None, prep=None):
        self.name = name
        self.flags = list(flags)
        self.env = dict(env or {})
        self.ram = ram
        self.text_fn = text_fn      # optional rewrite of the program text given to souffle (qualifiers, plans...)
        self.prep = prep            # optional callable(work_dir, text) -> extra flags (e.g. produce a profile first)

    def key(self):
        return self.name


class Case:
    def __init__(self, name, text, mode="U", m=2, n=2, ref_text=None, out_map=None, functors=None, family="", max_loop=40,
                 consts_in_universe=True, assume=None, judge="lm", judge_arg=None, orders=("fwd",), extra_consts=()):
        self.name = name
        self.text = text
        self.ref_text = ref_text if ref_text is not None else text
        self.mode = mode
        self.m = m
        self.n = n
        self.out_map = out_map or {}     # souffle output relation name -> reference relation name
        self.functors = functors or {}
        self.family = family
        self.max_loop = max_loop
        self.consts_in_universe = consts_in_universe
        self.assume = assume             # optional function(db) -> guard restricting the database (stated in evidence)
        self.judge = judge               # name in judges.JUDGES: 'lm' = outputs equal the least model
        self.judge_arg = judge_arg
        self.orders = orders             # scan orders to try for order-dependent programs: fwd, rev, rot
        self.extra_consts = tuple(extra_consts)   # concrete values added to the U-mode universe besides the program's constants


def souffle_show(text, cfg, work, what=None, extra_flags=()):
    """run the real souffle (built from /repo) and return what it prints for --show=<what>"""
    src = os.path.join(work, "p_%s.dl" % hashlib.md5((cfg.name + text).encode()).hexdigest()[:10])
    with open(src, "w") as f:
        f.write(text)
    env = {"SOUFFLE_VERIF_TYPED_RAM": "1"}
    env.update(cfg.env)
    cmd = [common.SOUFFLE, "--show=" + (what or cfg.ram), "-w"] + cfg.flags + list(extra_flags) + [src]
    rc, out, err = sh(cmd, timeout=120, env=env, cwd=work)
    return rc, out, err


def get_ram(text, cfg, work):
    t = cfg.text_fn(text) if cfg.text_fn else text
    extra = cfg.prep(work, t) if cfg.prep else ()
    rc, out, err = souffle_show(t, cfg, work, extra_flags=extra)
    if rc != 0 or not out.startswith("PROGRAM"):
        raise SouffleRejected("souffle rc=%d: %s" % (rc, (err or out)[-400:]))
    return ramparse.parse_program(out)


class SouffleRejected(EngineError):
    pass


# ------------------------------------------------------------------------------------------------
# symbolic databases
# ------------------------------------------------------------------------------------------------
class Db:
    def __init__(self):
        self.inputs = {}      # relation -> Rel
        self.presence = {}    # relation -> list of (terms, Bool var)
        self.atoms = []

    def concretize(self, model):
        """model -> {relation: [tuple of ints]}"""
        def val(v):
            if isinstance(v, int):
                return v
            return model.eval(v, model_completion=True).as_long()
        facts = {}
        for r, plist in self.presence.items():
            rows = []
            for terms, b in plist:
                if b is True or z3.is_true(model.eval(b, model_completion=True)):
                    rows.append(tuple(val(t) for t in terms))
            facts[r] = sorted(set(rows))
        return facts


def make_db(refprog, case, ctx):
    uni = ctx.uni
    db = Db()
    consts = sorted(set(refprog.constants()) | set(sym.u32(c) for c in getattr(case, "extra_consts", ()))) if case.consts_in_universe else []
    for c in consts:
        uni.add_const(c)
    if case.mode == "U":
        atoms = [z3.BitVec("s%d" % i, sym.W) for i in range(case.m)]
        for a in atoms:
            uni.add_atom(a)
        db.atoms = atoms
        universe = list(consts) + atoms
        for name in refprog.inputs:
            info = refprog.rels[name]
            if any(t in ("r", "s") for t in info.types) and False:
                raise EngineError("U-mode input with record column")
            r = sym.Rel(name, info.arity, info.types, uni)
            pl = []
            for idx, tup in enumerate(itertools.product(universe, repeat=info.arity)):
                b = z3.Bool("in_%s_%d" % (name, idx))
                r.insert(tuple(tup), b)
                pl.append((tuple(tup), b))
            db.inputs[name] = r
            db.presence[name] = pl
    else:
        for name in refprog.inputs:
            info = refprog.rels[name]
            r = sym.Rel(name, info.arity, info.types, uni)
            pl = []
            for i in range(case.n):
                b = z3.Bool("in_%s_%d" % (name, i))
                tup = tuple(z3.BitVec("v_%s_%d_%d" % (name, i, j), sym.W) for j in range(info.arity))
                r.insert(tup, b)
                pl.append((tup, b))
            db.inputs[name] = r
            db.presence[name] = pl
    return db


def concrete_inputs(refprog, facts, uni):
    inputs = {}
    for name in refprog.inputs:
        info = refprog.rels[name]
        r = sym.Rel(name, info.arity, info.types, uni)
        for row in facts.get(name, []):
            r.insert(tuple(row), True)
        inputs[name] = r
    return inputs


def rel_differ(a, b):
    """guard: relations a and b differ as sets"""
    gs = []
    for t, g in a.items():
        gs.append(g_and(g, g_not(b.member(t))))
    for t, g in b.items():
        gs.append(g_and(g, g_not(a.member(t))))
    return g_or(*gs)


# ------------------------------------------------------------------------------------------------
# replay on the real binary
# ------------------------------------------------------------------------------------------------
def write_facts(refprog, facts, d):
    os.makedirs(d, exist_ok=True)
    for name in refprog.inputs:
        info = refprog.rels[name]
        with open(os.path.join(d, name + ".facts"), "w") as f:
            for row in facts.get(name, []):
                cols = []
                for v, ty in zip(row, info.types):
                    if ty == "u":
                        cols.append(str(v))
                    elif ty == "f":
                        cols.append(repr(sym.f32(v)))
                    else:
                        cols.append(str(sym.s32(v)))
                f.write("\t".join(cols) + "\n")


def run_real(text, cfg, facts_dir, out_dir, extra=()):
    os.makedirs(out_dir, exist_ok=True)
    t = cfg.text_fn(text) if cfg.text_fn else text
    src = os.path.join(out_dir, "prog.dl")
    with open(src, "w") as f:
        f.write(t)
    flags = [x for x in cfg.flags]
    if cfg.prep:
        flags += list(cfg.prep(out_dir, t))
    rc, out, err = sh([common.SOUFFLE, "-w", "-F", facts_dir, "-D", out_dir] + flags + list(extra) + [src], timeout=300,
                      env=cfg.env, cwd=out_dir)
    res = {}
    if rc != 0:
        return rc, res, err
    for fn in os.listdir(out_dir):
        if fn.endswith(".csv"):
            with open(os.path.join(out_dir, fn)) as f:
                res[fn[:-4]] = set(l.rstrip("\n") for l in f if l.strip() != "")
    return rc, res, err


def ref_concrete(refprog, facts, functors=None):
    uni = sym.Universe()
    ctx = ramexec.Ctx(uni)
    inputs = concrete_inputs(refprog, facts, uni)
    ref = dl.Reference(refprog, ctx, inputs, max_iter=10000, functors=functors)
    outs = ref.run()
    return {n: concrete.render(r, ctx) for n, r in outs.items()}


# ------------------------------------------------------------------------------------------------
# one program: reference once, every configuration against it
# ------------------------------------------------------------------------------------------------
def check_case(case, cfgs, timeout_ms=60000, want_witness=True):
    """returns dict: name, per-cfg results [{cfg, verdict: equal|differ|unsupported|rejected|inconclusive, ...}]"""
    t0 = time.time()
    work = common.scratch_dir("r")
    out = {"case": case.name, "family": case.family, "mode": case.mode, "bound": {"m": case.m} if case.mode == "U" else {"n": case.n},
           "results": [], "ref_s": 0, "error": None}
    try:
        refprog = dl.Program.parse(case.ref_text)
        uni = sym.Universe()
        ctx = ramexec.Ctx(uni, timeout_ms=timeout_ms)
        ctx.functors.update(case.functors)
        db = make_db(refprog, case, ctx)
        if case.assume:
            ctx.assume(case.assume(db))
        tr = time.time()
        if case.judge in ("lattice", "choice"):
            ref_out = {}
            ref = None
        else:
            ref = dl.Reference(refprog, ctx, db.inputs, functors=case.functors)
            ref_out = ref.run()
            out["ref_iters"] = ref.iters
        out["ref_s"] = round(time.time() - tr, 2)
        out["db_vars"] = sum(len(v) for v in db.presence.values())
        # non-vacuity witness: some output can be non-empty
        if want_witness and ref_out:
            nonempty = g_or(*[g_not(r.is_empty()) for r in ref_out.values()])
            r, model = ctx.check(nonempty)
            out["witness"] = r
            if r == "sat":
                out["witness_facts"] = {k: [list(map(sym.s32, t)) for t in v] for k, v in db.concretize(model).items()}
        for cfg in cfgs:
            res = {"cfg": cfg.name}
            tc = time.time()
            try:
                prog = get_ram(case.text, cfg, work)
                from . import judges
                judge = judges.JUDGES[case.judge]
                res["verdict"] = "equal"
                for oname in case.orders:
                    ex = ramexec.Exec(prog, ctx, db.inputs, max_loop=case.max_loop, order=judges.ORDERS[oname],
                                      no_expire=(case.judge != "lm"))
                    outs = ex.run_main()
                    res["loop_iters"] = ex.loop_iters
                    diffs = judge(case, refprog, ctx, db, ex, outs, ref_out)
                    if not ref_out and "witness" not in out:
                        # contract judges have no reference outputs: non-vacuity = some RAM output can be non-empty
                        rw, mw = ctx.check(g_or(*[g_not(r_.is_empty()) for r_ in outs.values()]))
                        out["witness"] = rw
                        if rw == "sat":
                            out["witness_facts"] = {k: [list(map(sym.s32, t)) for t in v] for k, v in db.concretize(mw).items()}
                    g = g_or(*[d for _, d in diffs])
                    tq = time.time()
                    r, model = ctx.check(g)
                    res["query_s"] = round(res.get("query_s", 0) + time.time() - tq, 3)
                    if r == "unsat":
                        continue
                    if r == "unknown":
                        res["verdict"] = "inconclusive"
                        res["why"] = "z3 gave no verdict within %d ms" % timeout_ms
                        break
                    res["verdict"] = "differ"
                    res["order"] = oname
                    facts = db.concretize(model)
                    res["facts"] = {k: [list(t) for t in v] for k, v in facts.items()}
                    res["which"] = [n for n, d in diffs if d is not False and (d is True or z3.is_true(model.eval(sym.g_z3(d), model_completion=True)))]
                    break
            except ramexec.Unsupported as e:
                res["verdict"] = "unsupported"
                res["why"] = str(e)
            except SouffleRejected as e:
                res["verdict"] = "rejected"
                res["why"] = str(e)[:300]
            except ramexec.LoopBound as e:
                res["verdict"] = "inconclusive"
                res["why"] = str(e)
            res["s"] = round(time.time() - tc, 2)
            out["results"].append(res)
        out["queries"] = ctx.n_queries
        out["solver_s"] = round(ctx.solver_time, 2)
        out["cross"] = ctx.cross
        if ctx.cross["disagree"]:
            out["error"] = "engine: solver disagreement: " + "; ".join(ctx.cross["disagree"][:2])
    except dl.RefUnsupported as e:
        out["error"] = "reference-unsupported: %s" % e
    except EngineError as e:
        out["error"] = "engine: %s" % e
    except Exception:
        out["error"] = "exception: " + traceback.format_exc()[-700:]
    finally:
        common.rm_rf(work)
    out["s"] = round(time.time() - t0, 2)
    return out


def replay_differ(case, cfg, facts, tag):
    """Re-run the solver's database on the real souffle and on the concrete reference.
    -> (reproduced: bool, info: str, replay_dir)"""
    refprog = dl.Program.parse(case.ref_text)
    d = os.path.join(common.VERIF, "replays", tag)
    shutil.rmtree(d, ignore_errors=True)
    fd = os.path.join(d, "facts")
    facts = {k: [tuple(t) for t in v] for k, v in facts.items()}
    write_facts(refprog, facts, fd)
    extra = ()
    if getattr(case, "functor_lib", None):
        from . import models
        src = os.path.join(d, "functors.cpp")
        os.makedirs(d, exist_ok=True)
        with open(src, "w") as f:
            f.write(models.FUNCTORS_CPP[case.functor_lib])
        rcb, outb, errb = sh(["g++", "-std=c++17", "-shared", "-fPIC", "-O1", "-I", os.path.join(common.REPO, "src", "include"), src,
                              "-o", os.path.join(d, "libfunctors.so")], timeout=300)
        if rcb != 0:
            raise EngineError("cannot build functor library for replay: " + errb[-300:])
        extra = ("-L" + d, "-lfunctors")
    rc, real, err = run_real(case.text, cfg, fd, os.path.join(d, "out"), extra=extra)
    info = []
    repro = False
    if rc != 0:
        info.append("souffle exited with rc=%d: %s" % (rc, err[-300:]))
        repro = True
    want = {}
    if case.judge != "lm":
        from . import judges
        why = judges.replay_contract(case, refprog, facts, real) if rc == 0 else []
        if why:
            repro = True
            info += why
    else:
        want = ref_concrete(refprog, facts, case.functors)
    for oname_ref, lines in want.items():
        onames = [o for o, r in case.out_map.items() if r == oname_ref] or [oname_ref]
        for o in onames:
            got = real.get(o, set())
            if got != lines:
                repro = True
                info.append("%s: missing %s unexpected %s" % (o, sorted(lines - got)[:5], sorted(got - lines)[:5]))
    with open(os.path.join(d, "README"), "w") as f:
        f.write("case %s cfg %s flags %s env %s\nreference (least model) vs real souffle output:\n%s\n" % (
            case.name, cfg.name, cfg.flags, cfg.env, "\n".join(info) or "no difference"))
        f.write("\nreplay: souffle -w -F facts -D out %s out/prog.dl\n" % " ".join(cfg.flags))
    with open(os.path.join(d, "expected.txt"), "w") as f:
        for k, v in want.items():
            f.write("%s:\n%s\n" % (k, "\n".join(sorted(v))))
    return repro, "; ".join(info), d


# ------------------------------------------------------------------------------------------------
# pool
# ------------------------------------------------------------------------------------------------
def _job(args):
    case, cfgs, timeout_ms = args
    return check_case(case, cfgs, timeout_ms)


def run_cases(jobs, timeout_ms=60000, procs=None):
    """jobs: list of (case, [cfg...]); returns list of result dicts in the same order"""
    procs = procs or max(1, min(common.NCPU - 2, 14))
    args = [(c, cf, timeout_ms) for c, cf in jobs]
    if procs == 1 or len(args) == 1:
        return [_job(a) for a in args]
    ctxm = mp.get_context("fork")
    with ctxm.Pool(procs, maxtasksperchild=8) as pool:
        return pool.map(_job, args, chunksize=1)

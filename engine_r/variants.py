"""Picklable program-text rewriters and configuration lists (derived from the current source)."""
import re

from vlib.common import read_repo, EngineError
from .req import Cfg


class AddQualifier:
    """append a qualifier to the .decl of one relation"""

    def __init__(self, rel, qual):
        self.rel = rel
        self.qual = qual

    def __call__(self, text):
        out = []
        done = False
        for line in text.split("\n"):
            m = re.match(r"\.decl\s+%s\s*\(" % re.escape(self.rel), line)
            if m and not done:
                # strip an existing representation qualifier when replacing the representation
                if self.qual in ("btree", "brie", "eqrel"):
                    line = re.sub(r"\)\s*(btree|brie)\b", ")", line)
                i = line.rindex(")")
                # keep choice-domain / other qualifiers after ours
                line = line[:i + 1] + " " + self.qual + line[i + 1:]
                done = True
            out.append(line)
        if not done:
            raise EngineError("relation %s not declared" % self.rel)
        return "\n".join(out)


class AppendText:
    def __init__(self, extra):
        self.extra = extra

    def __call__(self, text):
        return text + "\n" + self.extra + "\n"


class Chain:
    def __init__(self, *fs):
        self.fs = fs

    def __call__(self, text):
        for f in self.fs:
            text = f(text)
        return text


def ram_transformers():
    """names of the RAM transformers in MainDriver's ramTransformerSequence (from the current source)"""
    src = read_repo("src/MainDriver.cpp")
    m = re.search(r"ramTransformerSequence\(.*?\{(.*?)return ramTransform;", src, re.S)
    if not m:
        raise EngineError("ramTransformerSequence not found in MainDriver.cpp")
    classes = sorted(set(re.findall(r"mk<(\w+)>\(", m.group(1))))
    names = []
    meta = {"TransformerSequence", "LoopTransformer", "ConditionalTransformer"}
    for c in classes:
        if c in meta:
            continue
        names.append(c)
    if len(names) < 8:
        raise EngineError("too few RAM transformers found: %s" % names)
    return names


AST_OPTIONAL = ["MinimiseProgramTransformer", "RemoveRelationCopiesTransformer", "RemoveEmptyRelationsTransformer",
                "RemoveRedundantRelationsTransformer", "ReduceExistentialsTransformer", "ReplaceSingletonVariablesTransformer",
                "PartitionBodyLiteralsTransformer", "SimplifyConstantBinaryConstraintsTransformer", "RemoveRedundantSumsTransformer"]


def ast_transformers():
    """the optional AST passes named by the property; each must still exist in the source"""
    names = []
    for n in AST_OPTIONAL:
        base = n[:-len("Transformer")]
        try:
            h = read_repo("src/ast/transform/%s.h" % base)
        except OSError:
            raise EngineError("AST transformer header missing: " + base)
        if '"%s"' % n not in h:
            raise EngineError("transformer name %s not found in its header" % n)
        names.append(n)
    return names

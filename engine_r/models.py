"""Interpreted models of the user-defined functors the corpus needs (picklable, referenced by name)."""
from . import sym


def lub_max(a, b):
    return sym.vmax(a, b, "i")


def glb_min(a, b):
    return sym.vmin(a, b, "i")


def lub_or(a, b):
    return sym.arith("bor", a, b, "u")


def glb_and(a, b):
    return sym.arith("band", a, b, "u")


FUNCTORS_CPP = {
    "max": """
#include "souffle/SouffleFunctor.h"
extern "C" {
souffle::RamDomain lub(souffle::SymbolTable*, souffle::RecordTable*, souffle::RamDomain a, souffle::RamDomain b) { return a > b ? a : b; }
souffle::RamDomain glb(souffle::SymbolTable*, souffle::RecordTable*, souffle::RamDomain a, souffle::RamDomain b) { return a < b ? a : b; }
}
""",
    "or": """
#include "souffle/SouffleFunctor.h"
extern "C" {
souffle::RamDomain lub(souffle::SymbolTable*, souffle::RecordTable*, souffle::RamDomain a, souffle::RamDomain b) { return a | b; }
souffle::RamDomain glb(souffle::SymbolTable*, souffle::RecordTable*, souffle::RamDomain a, souffle::RamDomain b) { return a & b; }
}
""",
}

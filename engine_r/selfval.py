"""Serval-style validation of the RAM semantics: push the repo's own evaluation tests (program + facts +
expected CSV) through the concrete mode of the RAM executor.  A mismatch is an engine error, not a verdict."""
import glob
import multiprocessing as mp
import os
import signal
import subprocess

from vlib import common
from vlib.common import EngineError
from . import ramparse, concrete
from .ramexec import Unsupported


class _TO(Exception):
    pass


def _alarm(*a):
    raise _TO()


def _one(args):
    d, cap = args
    name = os.path.basename(d.rstrip("/"))
    f = os.path.join(d, name + ".dl")
    if not os.path.exists(f) or not glob.glob(os.path.join(d, "*.csv")):
        return (name, "skip", "")
    signal.signal(signal.SIGALRM, _alarm)
    signal.alarm(cap)
    try:
        fd = os.path.join(d, "facts")
        env = dict(os.environ, SOUFFLE_VERIF_TYPED_RAM="1")
        p = subprocess.run([common.SOUFFLE, "--show=transformed-ram", "-w", "-F", fd, f], cwd=d, env=env, capture_output=True, text=True, timeout=cap)
        if p.returncode != 0 or not p.stdout.startswith("PROGRAM"):
            return (name, "skip", "souffle rejected")
        prog = ramparse.parse_program(p.stdout)
        ex, ctx = concrete.run_concrete(prog, fd)
        n = 0
        for rel, r in ex.outputs.items():
            exp = os.path.join(d, rel + ".csv")
            if not os.path.exists(exp):
                continue
            want = set(l.rstrip("\n") for l in open(exp, errors="replace") if l.rstrip("\n") != "" or r.arity == 1)
            got = concrete.render(r, ctx)
            n += 1
            if want != got:
                return (name, "MISMATCH", "%s: missing %s unexpected %s" % (rel, sorted(want - got)[:3], sorted(got - want)[:3]))
        return (name, "ok" if n else "skip", n)
    except Unsupported as e:
        return (name, "unsupported", str(e)[:80])
    except (_TO, subprocess.TimeoutExpired):
        return (name, "slow", "")
    except EngineError as e:
        return (name, "error", str(e)[:200])
    except RecursionError:
        return (name, "slow", "")
    except Exception as e:
        return (name, "error", repr(e)[:200])
    finally:
        signal.alarm(0)


# tests whose expected files are not plain tab-separated renderings of the relation (format tests)
FORMAT_TESTS = {"load13", "type_system4"}


def validate(tier):
    dirs = sorted(glob.glob(os.path.join(common.REPO, "tests/evaluation/*/")) + glob.glob(os.path.join(common.REPO, "tests/semantic/*/")))
    dirs = [d for d in dirs if os.path.basename(d.rstrip("/")) not in FORMAT_TESTS]
    cap = 8 if tier == "quick" else 40
    ctxm = mp.get_context("fork")
    with ctxm.Pool(max(1, min(common.NCPU - 2, 12)), maxtasksperchild=20) as pool:
        res = pool.map(_one, [(d, cap) for d in dirs], chunksize=4)
    ok = [r for r in res if r[1] == "ok"]
    bad = [r for r in res if r[1] in ("MISMATCH", "error")]
    return {"validated": len(ok), "relations_compared": sum(r[2] for r in ok), "unsupported": len([r for r in res if r[1] == "unsupported"]),
            "too_slow": len([r for r in res if r[1] == "slow"]), "mismatches": [list(r) for r in bad]}

"""Symbolic values, guards and relations shared by the RAM executor and the Datalog reference evaluator.

A value is a Python int (concrete 32-bit pattern, kept in 0..2^32-1), a z3 BitVec(32) term, or a Rec (record
with component values; nil is the int 0).  A guard is a Python bool or a z3 Bool.  Everything folds to
concrete Python values when its inputs are concrete, so the same code is a concrete evaluator."""
import struct
import z3

W = 32
MASK = (1 << W) - 1


def u32(x):
    return x & MASK


def s32(x):
    x &= MASK
    return x - (1 << W) if x >> (W - 1) else x


def f32(x):
    return struct.unpack("<f", struct.pack("<I", x & MASK))[0]


def f32bits(f):
    try:
        return struct.unpack("<I", struct.pack("<f", f))[0]
    except OverflowError:
        return 0x7F800000 if f > 0 else 0xFF800000


class Rec:
    """A record value: tuple of component values."""
    __slots__ = ("fields",)

    def __init__(self, fields):
        self.fields = tuple(fields)

    def __repr__(self):
        return "[" + ",".join(map(vrepr, self.fields)) + "]"


def vrepr(v):
    if isinstance(v, int):
        return str(s32(v))
    return str(v)


def is_conc(v):
    return isinstance(v, int)


def bv(v):
    if isinstance(v, int):
        return z3.BitVecVal(v, W)
    if isinstance(v, Rec):
        raise TypeError("record used as a number")
    return v


def vkey(v):
    if isinstance(v, int):
        return v
    if isinstance(v, Rec):
        return ("rec",) + tuple(vkey(f) for f in v.fields)
    return ("z", v.get_id())


# ------------------------------------------------------------------------------------------------
# guards
# ------------------------------------------------------------------------------------------------
def g_and(*gs):
    out = []
    for g in gs:
        if g is True:
            continue
        if g is False:
            return False
        out.append(g)
    if not out:
        return True
    if len(out) == 1:
        return out[0]
    return z3.And(*out)


def g_or(*gs):
    out = []
    for g in gs:
        if g is False:
            continue
        if g is True:
            return True
        out.append(g)
    if not out:
        return False
    if len(out) == 1:
        return out[0]
    return z3.Or(*out)


def g_not(g):
    if g is True:
        return False
    if g is False:
        return True
    return z3.Not(g)


def g_ite(c, a, b):
    """guard-valued if-then-else"""
    if c is True:
        return a
    if c is False:
        return b
    if a is b:
        return a
    if a is True and b is False:
        return c
    if a is False and b is True:
        return z3.Not(c)
    if a is True:
        return g_or(c, b)
    if a is False:
        return g_and(g_not(c), b)
    if b is True:
        return g_or(g_not(c), a)
    if b is False:
        return g_and(c, a)
    return z3.If(c, a, b)


def g_z3(g):
    if g is True:
        return z3.BoolVal(True)
    if g is False:
        return z3.BoolVal(False)
    return g


def v_ite(c, a, b):
    if c is True:
        return a
    if c is False:
        return b
    if isinstance(a, int) and isinstance(b, int) and a == b:
        return a
    return z3.If(c, bv(a), bv(b))


# ------------------------------------------------------------------------------------------------
# universe of pairwise distinct atoms (U-mode)
# ------------------------------------------------------------------------------------------------
class Universe:
    """Values assumed pairwise distinct: symbolic atoms and the program's constants."""

    def __init__(self):
        self.atom_ids = set()
        self.atoms = []
        self.consts = set()

    def add_atom(self, t):
        self.atom_ids.add(t.get_id())
        self.atoms.append(t)

    def add_const(self, c):
        self.consts.add(u32(c))

    def constraint(self):
        xs = list(self.atoms) + [z3.BitVecVal(c, W) for c in sorted(self.consts)]
        if len(self.atoms) == 0 or len(xs) < 2:
            return True
        return z3.Distinct(*xs)

    def eq(self, a, b):
        if isinstance(a, Rec) or isinstance(b, Rec):
            if isinstance(a, Rec) and isinstance(b, Rec):
                if len(a.fields) != len(b.fields):
                    return False
                gs = []
                for x, y in zip(a.fields, b.fields):
                    q = self.eq(x, y)
                    if q is False:
                        return False      # e.g. different ADT branch tags: the remaining fields have different shapes
                    gs.append(q)
                return g_and(*gs)
            other = b if isinstance(a, Rec) else a
            if isinstance(other, int):
                return False   # a packed record is never nil / never equals a plain number in our fragment
            raise TypeError("record compared with a symbolic number")
        ca, cb = isinstance(a, int), isinstance(b, int)
        if ca and cb:
            return a == b
        if not ca and not cb:
            if a.get_id() == b.get_id():
                return True
            if a.get_id() in self.atom_ids and b.get_id() in self.atom_ids:
                return False
            return a == b
        if ca:
            a, b = b, a
        # a symbolic, b concrete
        if a.get_id() in self.atom_ids and b in self.consts:
            return False
        return a == z3.BitVecVal(b, W)


# ------------------------------------------------------------------------------------------------
# typed operations ('i' signed, 'u' unsigned, 'f' float, others compare as signed)
# ------------------------------------------------------------------------------------------------
_FS = z3.Float32()
_RNE = z3.RNE()
_RTZ = z3.RTZ()


def fp(v):
    if isinstance(v, int):
        return z3.fpBVToFP(z3.BitVecVal(v, W), _FS)
    return z3.fpBVToFP(v, _FS)


def fp_to_bv(f):
    return z3.fpToIEEEBV(f)


def cmp_lt(a, b, ty):
    ca, cb = isinstance(a, int), isinstance(b, int)
    if ca and cb:
        if ty == "u":
            return a < b
        if ty == "f":
            return f32(a) < f32(b)
        return s32(a) < s32(b)
    if ty == "u":
        return z3.ULT(bv(a), bv(b))
    if ty == "f":
        return z3.fpLT(fp(a), fp(b))
    return bv(a) < bv(b)


def cmp_le(a, b, ty):
    ca, cb = isinstance(a, int), isinstance(b, int)
    if ca and cb:
        if ty == "u":
            return a <= b
        if ty == "f":
            return f32(a) <= f32(b)
        return s32(a) <= s32(b)
    if ty == "u":
        return z3.ULE(bv(a), bv(b))
    if ty == "f":
        return z3.fpLEQ(fp(a), fp(b))
    return bv(a) <= bv(b)


def feq(a, b):
    if isinstance(a, int) and isinstance(b, int):
        return f32(a) == f32(b)
    return z3.fpEQ(fp(a), fp(b))


def _fold_f(op, a, b):
    import math
    x, y = f32(a), f32(b)
    try:
        if op == "+":
            r = x + y
        elif op == "-":
            r = x - y
        elif op == "*":
            r = x * y
        else:
            if y == 0:
                if x == 0 or math.isnan(x):
                    r = float("nan")
                else:
                    r = math.copysign(float("inf"), x) * math.copysign(1.0, y)
            else:
                r = x / y
    except OverflowError:
        r = float("inf")
    return f32bits(r)


def arith(op, a, b, ty):
    """binary arithmetic with C semantics on 32-bit values; op in + - * / % band bor bxor bshl bshr bshru"""
    if ty == "f":
        if op not in "+-*/":
            raise NotImplementedError("float op " + op)
        if isinstance(a, int) and isinstance(b, int):
            return _fold_f(op, a, b)
        x, y = fp(a), fp(b)
        r = {"+": lambda: z3.fpAdd(_RNE, x, y), "-": lambda: z3.fpSub(_RNE, x, y),
             "*": lambda: z3.fpMul(_RNE, x, y), "/": lambda: z3.fpDiv(_RNE, x, y)}[op]()
        return fp_to_bv(r)
    if isinstance(a, int) and isinstance(b, int):
        if op == "+":
            return u32(a + b)
        if op == "-":
            return u32(a - b)
        if op == "*":
            return u32(a * b)
        if op in ("/", "%"):
            if ty == "u":
                if b == 0:
                    return 0
                return u32(a // b) if op == "/" else u32(a % b)
            x, y = s32(a), s32(b)
            if y == 0:
                return 0
            q = abs(x) // abs(y)
            if (x < 0) != (y < 0):
                q = -q
            return u32(q) if op == "/" else u32(x - q * y)
        if op == "band":
            return a & b
        if op == "bor":
            return a | b
        if op == "bxor":
            return a ^ b
        sh = b & 31
        if op == "bshl":
            return u32(a << sh)
        if op == "bshru":
            return a >> sh
        if op == "bshr":
            return u32(s32(a) >> sh) if ty != "u" else a >> sh
        raise NotImplementedError(op)
    x, y = bv(a), bv(b)
    if op == "+":
        return x + y
    if op == "-":
        return x - y
    if op == "*":
        return x * y
    if op == "/":
        return z3.UDiv(x, y) if ty == "u" else x / y
    if op == "%":
        return z3.URem(x, y) if ty == "u" else z3.SRem(x, y)
    if op == "band":
        return x & y
    if op == "bor":
        return x | y
    if op == "bxor":
        return x ^ y
    sh = y & 31
    if op == "bshl":
        return x << sh
    if op == "bshru":
        return z3.LShR(x, sh)
    if op == "bshr":
        return z3.LShR(x, sh) if ty == "u" else x >> sh
    raise NotImplementedError(op)


def truthy(a):
    """C truth value of a number as a guard"""
    if isinstance(a, int):
        return a != 0
    return a != z3.BitVecVal(0, W)


def from_guard(g):
    if g is True:
        return 1
    if g is False:
        return 0
    return z3.If(g, z3.BitVecVal(1, W), z3.BitVecVal(0, W))


def vmin(a, b, ty):
    return v_ite(cmp_lt(b, a, ty), b, a)


def vmax(a, b, ty):
    return v_ite(cmp_lt(a, b, ty), b, a)


def conv(kind, a):
    """numeric conversions: itou utoi (bit identity); itof utof ftoi ftou"""
    if kind in ("itou", "utoi", "i2u", "u2i", "i2i", "u2u", "f2f"):
        return a
    if isinstance(a, int):
        if kind in ("itof", "i2f"):
            return f32bits(float(s32(a)))
        if kind in ("utof", "u2f"):
            return f32bits(float(a))
        import math
        x = f32(a)
        if math.isnan(x) or math.isinf(x):
            return 0
        if kind in ("ftoi", "f2i"):
            return u32(int(x))
        if kind in ("ftou", "f2u"):
            return u32(int(x))
        raise NotImplementedError(kind)
    if kind in ("itof", "i2f"):
        return fp_to_bv(z3.fpSignedToFP(_RNE, a, _FS))
    if kind in ("utof", "u2f"):
        return fp_to_bv(z3.fpUnsignedToFP(_RNE, a, _FS))
    if kind in ("ftoi", "f2i"):
        return z3.fpToSBV(_RTZ, fp(a), z3.BitVecSort(W))
    if kind in ("ftou", "f2u"):
        return z3.fpToUBV(_RTZ, fp(a), z3.BitVecSort(W))
    raise NotImplementedError(kind)


# ------------------------------------------------------------------------------------------------
# relations
# ------------------------------------------------------------------------------------------------
class Rel:
    """Finite map tuple -> guard.  Entries with syntactically different keys may denote the same tuple under
    some assignment (L-mode); insert() keeps entries semantically disjoint so scans see every tuple once."""

    def __init__(self, name, arity, types, uni):
        self.name = name
        self.arity = arity
        self.types = types
        self.uni = uni
        self.entries = {}    # key -> [terms, guard]

    def copy(self, name=None):
        r = Rel(name or self.name, self.arity, self.types, self.uni)
        r.entries = {k: [e[0], e[1]] for k, e in self.entries.items()}
        return r

    def items(self):
        return [(e[0], e[1]) for e in self.entries.values() if e[1] is not False]

    def tuple_eq(self, a, b):
        gs = []
        for x, y in zip(a, b):
            if y is None or x is None:     # wildcard
                continue
            g = self.uni.eq(x, y)
            if g is False:
                return False
            gs.append(g)
        return g_and(*gs)

    def member(self, t, skip_key=None):
        """guard: tuple t (None components = wildcards) is in the relation"""
        if None not in t:
            k = tuple(vkey(v) for v in t)
            e = self.entries.get(k)
            if e is not None and e[1] is True:
                return True
        gs = []
        for k2, (terms, g) in self.entries.items():
            if g is False or k2 == skip_key:
                continue
            q = self.tuple_eq(terms, t)
            if q is False:
                continue
            gs.append(g_and(g, q))
        return g_or(*gs)

    def insert(self, t, g):
        if g is False:
            return
        k = tuple(vkey(v) for v in t)
        e = self.entries.get(k)
        if e is not None:
            e[1] = g_or(e[1], g)
            return
        # keep entries semantically disjoint
        m = self.member(t)
        self.entries[k] = [tuple(t), g_and(g, g_not(m))]

    def erase(self, t, g):
        """remove tuple t under guard g"""
        if g is False:
            return
        for k, e in self.entries.items():
            q = self.tuple_eq(e[0], t)
            if q is False:
                continue
            e[1] = g_and(e[1], g_not(g_and(g, q)))

    def clear(self, g):
        if g is True:
            self.entries = {}
            return
        if g is False:
            return
        ng = g_not(g)
        for e in self.entries.values():
            e[1] = g_and(e[1], ng)

    def is_empty(self):
        return g_not(g_or(*[g for _, g in self.items()]))

    def size(self):
        """number of tuples as a 32-bit value"""
        its = self.items()
        if all(g is True for _, g in its):
            return len(its)
        tot = z3.BitVecVal(0, W)
        c = 0
        for _, g in its:
            if g is True:
                c += 1
            else:
                tot = tot + z3.If(g, z3.BitVecVal(1, W), z3.BitVecVal(0, W))
        return tot + z3.BitVecVal(c, W) if c else tot


def rel_mix(c, a, b, name):
    """relation equal to a if guard c else b"""
    if c is True:
        return a.copy(name)
    if c is False:
        return b.copy(name)
    r = Rel(name, a.arity, a.types, a.uni)
    keys = list(a.entries.keys()) + [k for k in b.entries.keys() if k not in a.entries]
    for k in keys:
        ea, eb = a.entries.get(k), b.entries.get(k)
        terms = (ea or eb)[0]
        ga = ea[1] if ea else False
        gb = eb[1] if eb else False
        g = g_ite(c, ga, gb)
        if g is not False:
            r.entries[k] = [terms, g]
    return r

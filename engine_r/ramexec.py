"""Symbolic (and, on concrete inputs, concrete) executor for parsed RAM programs.  DESIGN.md section 2.1."""
import os
import subprocess
import tempfile

import z3

from vlib.common import EngineError
from . import sym
from .sym import g_and, g_or, g_not, g_ite, v_ite, Rec, W


class Unsupported(EngineError):
    """RAM construct outside the encoded fragment (the case is skipped and reported, never passed)."""


class LoopBound(EngineError):
    pass


class Ctx:
    """Solver context: background assumptions + satisfiability queries with a time cap."""

    def __init__(self, uni, timeout_ms=60000):
        self.uni = uni
        self.assumptions = []
        self.timeout_ms = timeout_ms
        self.n_queries = 0
        self.solver_time = 0.0
        self.interner = {}
        self.functors = {}      # user functor name -> python callable over values
        self.cross = {"checked": 0, "agree": 0, "disagree": [], "cvc5_unknown": 0}
        self.cross_budget = int(os.environ.get("VERIF_CROSSCHECK", "0"))   # number of unsat verdicts per context re-decided by cvc5

    def assume(self, g):
        if g is not True:
            self.assumptions.append(g)

    def intern(self, s):
        if s not in self.interner:
            self.interner[s] = len(self.interner)
        return self.interner[s]

    def solver(self):
        s = z3.Solver()
        s.set("timeout", self.timeout_ms)
        u = self.uni.constraint()
        if u is not True:
            s.add(u)
        for a in self.assumptions:
            s.add(sym.g_z3(a))
        return s

    def check(self, g):
        """-> ('sat', model) | ('unsat', None) | ('unknown', None)"""
        import time
        if g is False:
            return "unsat", None
        s = self.solver()
        if g is not True:
            s.add(g)
        t = time.time()
        r = s.check()
        self.solver_time += time.time() - t
        self.n_queries += 1
        if r == z3.sat:
            return "sat", s.model()
        if r == z3.unsat:
            if self.cross_budget > 0:
                self.cross_budget -= 1
                self._cross_check(s)
            return "unsat", None
        return "unknown", None

    def _cross_check(self, s):
        """re-decide an unsat verdict with cvc5 on the exported SMT-LIB text (second opinion on the encoding/solver)"""
        try:
            txt = "(set-logic ALL)\n" + s.to_smt2()
            with tempfile.NamedTemporaryFile("w", suffix=".smt2", delete=False, dir=os.environ.get("VERIF_SCRATCH", "/var/tmp")) as f:
                f.write(txt)
                path = f.name
            try:
                p = subprocess.run(["cvc5", "--tlimit=60000", path], capture_output=True, text=True, timeout=90)
                out = p.stdout.strip().splitlines()
                ans = out[0] if out else "unknown"
            finally:
                os.unlink(path)
        except Exception as e:      # the cross-check is advisory: its own failure is recorded, not fatal
            ans = "error: %s" % str(e)[:80]
        self.cross["checked"] += 1
        if ans == "unsat":
            self.cross["agree"] += 1
        elif ans == "sat":
            self.cross["disagree"].append("cvc5 says sat where z3 says unsat")
        else:
            self.cross["cvc5_unknown"] += 1


class EqRel(sym.Rel):
    """Equivalence relation storage: contents = reflexive/symmetric/transitive closure of inserted pairs."""

    def __init__(self, name, arity, types, uni):
        super().__init__(name, arity, types, uni)
        self.base = sym.Rel(name + "#base", arity, types, uni)
        self.dirty = False

    def copy(self, name=None):
        r = EqRel(name or self.name, self.arity, self.types, self.uni)
        r.base = self.base.copy()
        r.dirty = True
        r._close()
        return r

    def insert(self, t, g):
        self.base.insert(t, g)
        self.dirty = True

    def clear(self, g):
        self.base.clear(g)
        self.dirty = True

    def erase(self, t, g):
        raise Unsupported("erase from eqrel")

    def _close(self):
        if not self.dirty:
            return
        self.dirty = False
        uni = self.uni
        pairs = self.base.items()
        # node set
        nodes = {}
        for (a, b), g in pairs:
            nodes.setdefault(sym.vkey(a), a)
            nodes.setdefault(sym.vkey(b), b)
        ks = list(nodes.keys())
        if any(not (isinstance(k, int) or (isinstance(k, tuple) and k[0] == "z" and k[1] in uni.atom_ids)) for k in ks):
            # general symbolic values: node identity is not syntactic
            raise Unsupported("eqrel over non-atomic symbolic values")
        n = len(ks)
        idx = {k: i for i, k in enumerate(ks)}
        R = [[False] * n for _ in range(n)]
        for (a, b), g in pairs:
            i, j = idx[sym.vkey(a)], idx[sym.vkey(b)]
            R[i][j] = g_or(R[i][j], g)
            R[j][i] = g_or(R[j][i], g)
            R[i][i] = g_or(R[i][i], g)
            R[j][j] = g_or(R[j][j], g)
        for k in range(n):
            for i in range(n):
                if R[i][k] is False:
                    continue
                for j in range(n):
                    if R[k][j] is False:
                        continue
                    R[i][j] = g_or(R[i][j], g_and(R[i][k], R[k][j]))
        self.entries = {}
        for i in range(n):
            for j in range(n):
                if R[i][j] is not False:
                    t = (nodes[ks[i]], nodes[ks[j]])
                    self.entries[(ks[i], ks[j])] = [t, R[i][j]]

    def items(self):
        self._close()
        return super().items()

    def member(self, t, skip_key=None):
        self._close()
        return super().member(t, skip_key)

    def is_empty(self):
        return self.base.is_empty()

    def size(self):
        self._close()
        return super().size()


class AuxRel(sym.Rel):
    """relation with auxiliary columns: the key is the non-auxiliary part; an insert with an existing key updates the
    auxiliary columns (mode 'overwrite': interpreter Updater, lattices) or keeps the smaller (level, rule) annotation
    (mode 'prov': ProvenanceUpdater)"""

    def __init__(self, name, arity, types, uni, aux, mode):
        super().__init__(name, arity, types, uni)
        self.aux = aux
        self.mode = mode

    def copy(self, name=None):
        r = AuxRel(name or self.name, self.arity, self.types, self.uni, self.aux, self.mode)
        r.entries = {k: [e[0], e[1]] for k, e in self.entries.items()}
        return r

    def insert(self, t, g):
        if g is False:
            return
        n = self.arity - self.aux
        block = []
        for k, e in list(self.entries.items()):
            if e[1] is False:
                continue
            q = self.tuple_eq(e[0][:n], t[:n])
            if q is False:
                continue
            same = self.tuple_eq(e[0], t)
            if self.mode == "prov":
                lvl_new, lvl_old = t[self.arity - 1], e[0][self.arity - 1]
                rul_new, rul_old = t[self.arity - 2], e[0][self.arity - 2]
                smaller = g_or(sym.cmp_lt(lvl_new, lvl_old, "i"),
                               g_and(self.uni.eq(lvl_new, lvl_old), sym.cmp_lt(rul_new, rul_old, "i")))
                block.append(g_and(e[1], q, g_not(smaller)))
                e[1] = g_and(e[1], g_not(g_and(g, q, smaller)))
            else:
                e[1] = g_and(e[1], g_not(g_and(g, q, g_not(same))))
        super().insert(t, g_and(g, g_not(g_or(*block))))


class Exec:
    def __init__(self, prog, ctx, inputs, max_loop=40, loop_check=True, order=None, sub_args=None, no_expire=False):
        self.prog = prog
        self.ctx = ctx
        self.uni = ctx.uni
        self.inputs = inputs          # name -> Rel (already holding the symbolic/concrete facts)
        self.max_loop = max_loop
        self.loop_check = loop_check
        self.order = order            # optional function(list of (terms, guard)) -> reordered list
        self.rels = {}
        self.provenance = any("@level_number" in d.attrs for d in prog.rels.values())
        for name, d in prog.rels.items():
            if d.rep == "eqrel":
                self.rels[name] = EqRel(name, d.arity, d.types, self.uni)
            elif d.aux:
                self.rels[name] = AuxRel(name, d.arity, d.types, self.uni, d.aux, "prov" if self.provenance else "overwrite")
            else:
                self.rels[name] = sym.Rel(name, d.arity, d.types, self.uni)
        self.outputs = {}
        self.printsizes = {}
        self.pc = True
        self.vars = {}
        self.logsizes = []
        self.loop_iters = []
        self.cur_iter = None
        self.returns = []
        self.args = sub_args or []
        self.autoinc = 0
        self.stats = {"inserts": 0, "scans": 0}
        self.no_expire = no_expire    # keep relations that the program clears once no later stratum reads them
        self.in_loop = 0
        self.on_exit = None           # optional callback(exec, stmt) at every EXIT statement
        self.insert_events = None     # optional list collecting (relation, tuple, guard) for every insert reached

    # ------------------------------------------------------------------ statements
    def run_main(self):
        self.stmts(self.prog.main)
        return self.outputs

    def run_sub(self, name, args=None):
        self.args = args or []
        self.returns = []
        self.stmts(self._sub(name))
        return self.returns

    def _sub(self, name):
        subs = self.prog.subs
        if name in subs:
            return subs[name]
        if name.startswith("stratum_") and name[len("stratum_"):] in subs:
            return subs[name[len("stratum_"):]]
        raise EngineError("RAM: call of unknown subroutine %s" % name)

    def rel(self, name):
        r = self.rels.get(name)
        if r is None:
            raise EngineError("RAM: unknown relation %s" % name)
        return r

    def stmts(self, ss):
        for s in ss:
            if self.pc is False:
                return
            self.stmt(s)

    def stmt(self, s):
        k = s.kind
        if k == "query":
            self.op(s.op, {}, self.pc)
        elif k in ("debug", "timer", "parallel"):
            pre = None
            if k == "timer" and s.rel is not None:
                pre = self.rel(s.rel).size()
                it0, pc0 = self.cur_iter, self.pc
            self.stmts(s.body)
            if pre is not None:
                # profile Logger semantics: the event carries size_at_end - size_at_start of the timed statement
                post = self.rel(s.rel).size()
                self.logsizes.append({"rel": s.rel, "msg": s.msg, "size": sym.arith("-", post, pre, "u"), "pc": pc0, "kind": "timer", "iter": it0})
        elif k == "loop":
            self.loop(s)
        elif k == "exit":
            if self.on_exit is not None:
                self.on_exit(self, s)
            c = self.cond(s.cond, {})
            self.pc = g_and(self.pc, g_not(c))
        elif k == "clear":
            if self.no_expire and self.in_loop == 0 and not s.rel.startswith("@"):
                return
            self.rel(s.rel).clear(self.pc)
        elif k == "swap":
            a, b = self.rel(s.a), self.rel(s.b)
            if self.pc is True:
                self.rels[s.a], self.rels[s.b] = b, a
                a.name, b.name = s.b, s.a
            else:
                if isinstance(a, EqRel) or isinstance(b, EqRel):
                    if not (isinstance(a, EqRel) and isinstance(b, EqRel)):
                        raise Unsupported("swap of eqrel with non-eqrel")
                    na = EqRel(s.a, a.arity, a.types, self.uni)
                    nb = EqRel(s.b, b.arity, b.types, self.uni)
                    na.base = sym.rel_mix(self.pc, b.base, a.base, s.a + "#base")
                    nb.base = sym.rel_mix(self.pc, a.base, b.base, s.b + "#base")
                    na.dirty = nb.dirty = True
                else:
                    na = sym.rel_mix(self.pc, b, a, s.a)
                    nb = sym.rel_mix(self.pc, a, b, s.b)
                    for new, old in ((na, a), (nb, b)):
                        if isinstance(old, AuxRel):
                            new.__class__ = AuxRel
                            new.aux, new.mode = old.aux, old.mode
                self.rels[s.a], self.rels[s.b] = na, nb
        elif k == "mergeextend":
            # interpreter: src.extendAndInsert(trg) -- src (new knowledge) is extended by the classes of trg (old
            # knowledge) that contain an element of src; then the original src pairs are inserted into trg
            tgt, src = self.rel(s.target), self.rel(s.source)
            if not isinstance(tgt, EqRel) or not isinstance(src, EqRel):
                raise Unsupported("MERGE-EXTEND on non-eqrel")
            src_items = src.items()
            tgt_items = tgt.items()
            elems = [(t[0], g) for t, g in src_items if self.uni.eq(t[0], t[1]) is True]
            for (a, b), g in tgt_items:
                touch = g_or(*[g_and(ge, tgt.member((a, c))) for c, ge in elems])
                src.insert((a, b), g_and(self.pc, g, touch))
            for t, g in src_items:
                tgt.insert(t, g_and(self.pc, g))
        elif k == "io":
            self.io(s)
        elif k == "call":
            self.stmts(self._sub(s.name))
        elif k == "assign":
            v = self.expr(s.val, {})
            old = self.vars.get(s.var)
            self.vars[s.var] = v if (old is None or self.pc is True) else v_ite(self.pc, v, old)
        elif k == "logsize":
            self.logsizes.append({"rel": s.rel, "msg": s.msg, "size": self.rel(s.rel).size(), "pc": self.pc, "kind": "logsize", "iter": self.cur_iter})
        elif k == "nop":
            pass
        else:
            raise Unsupported("RAM statement " + k)

    def io(self, s):
        opn = s.dirs.get("operation", "")
        if opn == "input":
            src = self.inputs.get(s.rel)
            if src is None:
                # the magic-set transformation loads a split copy (@split_in.R) from R's fact file: the directive names it
                src = self.inputs.get(s.dirs.get("name", ""))
            if src is None:
                return   # no facts for this relation
            r = self.rel(s.rel)
            pad = (0,) * self.prog.rels[s.rel].aux
            for t, g in src.items():
                r.insert(tuple(t) + pad, g_and(self.pc, g))
        elif opn == "output":
            d = self.prog.rels[s.rel]
            r = self.rel(s.rel)
            if d.aux:
                n = d.arity - d.aux
                pr = sym.Rel(s.rel, n, d.types[:n], self.uni)
                for t, g in r.items():
                    pr.insert(t[:n], g)
                self.outputs[s.rel] = pr
            else:
                self.outputs[s.rel] = r.copy()
        elif opn == "printsize":
            self.printsizes[s.rel] = self.rel(s.rel).size()
        else:
            raise Unsupported("IO operation %r" % opn)

    def loop(self, s):
        saved = self.pc
        it = 0
        while True:
            if self.pc is False:
                break
            if it > 0 and self.loop_check and self.pc is not True:
                r, _ = self.ctx.check(self.pc)
                if r == "unsat":
                    break
                if r == "unknown":
                    raise LoopBound("solver gave no verdict on the loop-continuation obligation (iteration %d)" % it)
            if it >= self.max_loop:
                raise LoopBound("loop not exhausted after %d unrollings (unwinding obligation not discharged)" % it)
            self.in_loop += 1
            self.cur_iter = it
            try:
                self.stmts(s.body)
            finally:
                self.in_loop -= 1
                self.cur_iter = None
            it += 1
        self.loop_iters.append(it)
        self.pc = saved

    # ------------------------------------------------------------------ operations
    def _entries(self, rel):
        its = rel.items()
        if self.order is not None:
            its = self.order(rel, its)
        return its

    def _index_guard(self, op, rel, terms, env):
        gs = []
        for col, lo, hi in op.index:
            ty = rel.types[col] if col < len(rel.types) else "i"
            v = terms[col]
            if lo is hi and lo is not None:
                gs.append(self.uni.eq(v, self.expr(lo, env)) if ty != "f" else self._feq_index(v, self.expr(lo, env)))
                continue
            if lo is not None:
                gs.append(sym.cmp_le(self.expr(lo, env), v, ty))
            if hi is not None:
                gs.append(sym.cmp_le(v, self.expr(hi, env), ty))
        return g_and(*gs)

    def _feq_index(self, a, b):
        # an equality bound on a float column is a bit-pattern lookup in the interpreter (observed on the real binary:
        # an index search for -0.0 does not return the tuple holding 0.0, and both are distinct tuples of a relation)
        return self.uni.eq(a, b)

    def op(self, o, env, g):
        """execute operation o under guard g; returns the guard under which a BREAK fired"""
        if g is False:
            return False
        k = o.kind
        if k == "scan":
            rel = self.rel(o.rel)
            alive = True
            self.stats["scans"] += 1
            for terms, eg in self._entries(rel):
                g2 = g_and(g, alive, eg)
                if g2 is False:
                    continue
                env2 = dict(env)
                env2[o.tid] = terms
                if o.index:
                    g2 = g_and(g2, self._index_guard(o, rel, terms, env2))
                    if g2 is False:
                        continue
                b = self.op(o.body, env2, g2)
                if b is not False:
                    alive = g_and(alive, g_not(b))
            return False
        if k == "ifexists":
            rel = self.rel(o.rel)
            alive = True
            for terms, eg in self._entries(rel):
                env2 = dict(env)
                env2[o.tid] = terms
                m = g_and(eg, self._index_guard(o, rel, terms, env2) if o.index else True)
                if m is False:
                    continue
                m = g_and(m, self.cond(o.cond, env2))
                if m is False:
                    continue
                g2 = g_and(g, alive, m)
                self.op(o.body, env2, g2)
                alive = g_and(alive, g_not(m))
                if alive is False:
                    break
            return False
        if k == "aggregate":
            return self.aggregate(o, env, g)
        if k == "filter":
            c = self.cond(o.cond, env)
            if g_and(g, c) is False:
                return False      # statically dead (e.g. the branch test of an ADT pattern on another branch's value)
            return self.op(o.body, env, g_and(g, c))
        if k == "break":
            c = self.cond(o.cond, env)
            b = g_and(g, c)
            inner = self.op(o.body, env, g_and(g, g_not(c)))
            return g_or(b, inner)
        if k == "unpack":
            v = self.expr(o.expr, env)
            if isinstance(v, Rec):
                if len(v.fields) != o.arity:
                    # untransformed RAM unpacks every nested ADT pattern before testing any branch tag; the value read from
                    # a record of another arity is unspecified until HoistConditions has moved the tag test up
                    raise Unsupported("unpack of a record of another arity before the branch test (initial RAM of nested ADT patterns)")
                env2 = dict(env)
                env2[o.tid] = v.fields
                return self.op(o.body, env2, g)
            if isinstance(v, int):
                if v == 0:
                    return False     # nil
                raise Unsupported("unpack of a concrete non-nil reference")
            raise Unsupported("unpack of a symbolic reference")
        if k == "nestedop":
            return self.nestedop(o, env, g)
        if k == "insert":
            t = tuple(self.expr(a, env) for a in o.args)
            if any(v is None for v in t):
                raise EngineError("UNDEF inserted")
            c = True if o.cond is None else self.cond(o.cond, env)
            if self.insert_events is not None:
                self.insert_events.append((o.rel, t, g_and(g, c)))
            self.rel(o.rel).insert(t, g_and(g, c))
            self.stats["inserts"] += 1
            return False
        if k == "erase":
            t = tuple(self.expr(a, env) for a in o.args)
            self.rel(o.rel).erase(t, g)
            return False
        if k == "return":
            self.returns.append(([self.expr(a, env) for a in o.args], g, env))
            return False
        raise Unsupported("RAM operation " + k)

    def nestedop(self, o, env, g):
        args = [self.expr(a, env) for a in o.args]
        if o.op not in ("RANGE", "URANGE", "FRANGE"):
            raise Unsupported("nested operator " + o.op)
        if o.op == "FRANGE" or not all(isinstance(a, int) for a in args):
            raise Unsupported("range generator with symbolic or float bounds")
        conv = sym.s32 if o.op == "RANGE" else (lambda x: x)
        a, b = conv(args[0]), conv(args[1])
        step = conv(args[2]) if len(args) > 2 else (1 if a <= b else -1)
        if len(args) > 2 and step == 0:
            vals = [a] if a != b else []
        else:
            vals = []
            x = a
            while (step > 0 and x < b) or (step < 0 and x > b):
                vals.append(x)
                x += step
                if len(vals) > 64:
                    raise Unsupported("range generator longer than 64")
        alive = True
        for v in vals:
            env2 = dict(env)
            env2[o.tid] = (sym.u32(v),)
            br = self.op(o.body, env2, g_and(g, alive))
            if br is not False:
                alive = g_and(alive, g_not(br))
        return False

    def aggregate(self, o, env, g):
        rel = self.rel(o.rel)
        items = []
        for terms, eg in self._entries(rel):
            env2 = dict(env)
            env2[o.tid] = terms
            m = eg
            if o.index:
                m = g_and(m, self._index_guard(o, rel, terms, env2))
            if m is False:
                continue
            m = g_and(m, self.cond(o.cond, env2))
            if m is False:
                continue
            val = None
            if o.target.kind != "undef":
                val = self.expr(o.target, env2)
            items.append((m, val))
        if o.agg.kind == "user_agg":
            acc = self.expr(o.agg.init, env)
            f = self.ctx.functors.get(o.agg.name)
            if f is None:
                raise Unsupported("user-defined aggregator without a model: " + o.agg.name)
            for m, v in items:
                acc = v_ite(m, f(acc, v), acc)
            defined = True
            res = acc
        else:
            op = o.agg.op
            ty = "f" if op.startswith("F") or op == "MEAN" else ("u" if op.startswith("U") else "i")
            base = op.lstrip("FU") if op not in ("MEAN", "COUNT") else op
            if op in ("UMAX", "UMIN", "USUM"):
                base = op[1:]
            if op in ("FMAX", "FMIN", "FSUM"):
                base = op[1:]
            if base == "COUNT":
                res = 0
                for m, _ in items:
                    res = sym.arith("+", res, sym.from_guard(m), "i")
                defined = True
            elif base == "SUM":
                res = 0
                for m, v in items:
                    if ty == "f":
                        res = v_ite(m, sym.arith("+", res, v, "f"), res)
                    else:
                        res = sym.arith("+", res, v_ite(m, v, 0), ty)
                defined = True
            elif base in ("MIN", "MAX"):
                res = None
                defined = False
                for m, v in items:
                    if res is None:
                        res, defined = v, m
                        continue
                    better = sym.cmp_lt(v, res, ty) if base == "MIN" else sym.cmp_lt(res, v, ty)
                    take = g_and(m, g_or(g_not(defined), better))
                    res = v_ite(take, v, res)
                    defined = g_or(defined, m)
                if res is None:
                    return False
            elif base == "MEAN":
                raise Unsupported("mean aggregate")
            else:
                raise Unsupported("aggregate " + op)
        env2 = dict(env)
        env2[o.tid] = (res,)
        return self.op(o.body, env2, g_and(g, defined))

    # ------------------------------------------------------------------ expressions
    def expr(self, e, env):
        k = e.kind
        if k == "elem":
            t = env.get(e.tid)
            if t is None:
                raise EngineError("RAM: tuple t%d not bound" % e.tid)
            if e.col >= len(t):
                raise EngineError("RAM: t%d.%d out of range" % (e.tid, e.col))
            return t[e.col]
        if k == "const":
            return e.val
        if k == "string":
            return self.ctx.intern(e.val)
        if k == "undef":
            return None
        if k == "arg":
            if e.idx >= len(self.args):
                raise EngineError("subroutine argument %d missing" % e.idx)
            return self.args[e.idx]
        if k == "var":
            return self.vars[e.name]
        if k == "size":
            return self.rel(e.rel).size()
        if k == "pack":
            return Rec([self.expr(a, env) for a in e.args])
        if k == "autoinc":
            raise Unsupported("autoinc")
        if k == "userop":
            f = self.ctx.functors.get(e.name)
            if f is None:
                raise Unsupported("user-defined functor without a model: " + e.name)
            return f(*[self.expr(a, env) for a in e.args])
        if k == "intrinsic":
            return intrinsic(e.op, [self.expr(a, env) for a in e.args])
        raise Unsupported("RAM expression " + k)

    # ------------------------------------------------------------------ conditions
    def cond(self, c, env):
        k = c.kind
        if k == "true":
            return True
        if k == "false":
            return False
        if k == "and":
            l = self.cond(c.lhs, env)
            if l is False:
                return False
            return g_and(l, self.cond(c.rhs, env))
        if k == "not":
            return g_not(self.cond(c.arg, env))
        if k == "isempty":
            return self.rel(c.rel).is_empty()
        if k == "exists":
            t = tuple(self.expr(a, env) for a in c.args)
            rel = self.rel(c.rel)
            if c.prov:
                return self.prov_exists(rel, t)
            return rel.member(t)
        if k == "constraint":
            return constraint(self.uni, c.op, self.expr(c.lhs, env), self.expr(c.rhs, env))
        raise Unsupported("RAM condition " + k)

    def prov_exists(self, rel, t):
        """tuple present (ignoring the rule-number column) with height <= the given height"""
        d = self.prog.rels[rel.name]
        n = d.arity - d.aux
        gs = []
        for terms, g in rel.items():
            q = rel.tuple_eq(terms[:n], t[:n])
            if q is False:
                continue
            # aux columns: [rule number, height]; compare the last (height) column
            h = g_and(*[sym.cmp_le(terms[i], t[i], "i") for i in range(n + 1, d.arity) if t[i] is not None])
            gs.append(g_and(g, q, h))
        return g_or(*gs)


def _ty(op):
    if op.startswith("U") and op not in ("U2U", "U2F", "U2I", "U2S"):
        return "u", op[1:]
    if op.startswith("F") and op not in ("F2F", "F2I", "F2S", "F2U"):
        return "f", op[1:]
    return "i", op


def intrinsic(op, a):
    ty, base = _ty(op)
    if base in ("ADD", "SUB", "MUL", "DIV", "MOD", "BAND", "BOR", "BXOR", "BSHIFT_L", "BSHIFT_R", "BSHIFT_R_UNSIGNED"):
        o = {"ADD": "+", "SUB": "-", "MUL": "*", "DIV": "/", "MOD": "%", "BAND": "band", "BOR": "bor", "BXOR": "bxor",
             "BSHIFT_L": "bshl", "BSHIFT_R": "bshr", "BSHIFT_R_UNSIGNED": "bshru"}[base]
        r = a[0]
        for x in a[1:]:
            r = sym.arith(o, r, x, ty)
        return r
    if base == "NEG":
        if ty == "f":
            return sym.arith("bxor", a[0], 0x80000000, "u")
        return sym.arith("-", 0, a[0], ty)
    if base == "BNOT":
        return sym.arith("bxor", a[0], 0xFFFFFFFF, "u")
    if base == "LNOT":
        return sym.from_guard(g_not(sym.truthy(a[0])))
    if base == "LAND":
        return sym.from_guard(g_and(sym.truthy(a[0]), sym.truthy(a[1])))
    if base == "LOR":
        return sym.from_guard(g_or(sym.truthy(a[0]), sym.truthy(a[1])))
    if base == "LXOR":
        x, y = sym.truthy(a[0]), sym.truthy(a[1])
        return sym.from_guard(g_or(g_and(x, g_not(y)), g_and(g_not(x), y)))
    if base in ("MAX", "MIN"):
        r = a[0]
        for x in a[1:]:
            r = sym.vmax(r, x, ty) if base == "MAX" else sym.vmin(r, x, ty)
        return r
    if op in ("I2U", "U2I", "I2I", "U2U", "F2F", "I2F", "U2F", "F2I", "F2U"):
        return sym.conv(op.lower(), a[0])
    raise Unsupported("intrinsic functor " + op)


def constraint(uni, op, a, b):
    if op == "EQ":
        return uni.eq(a, b)
    if op == "NE":
        return g_not(uni.eq(a, b))
    if op == "FEQ":
        return sym.feq(a, b)
    if op == "FNE":
        return g_not(sym.feq(a, b))
    tbl = {"LT": ("i", "lt", 0), "ULT": ("u", "lt", 0), "FLT": ("f", "lt", 0),
           "LE": ("i", "le", 0), "ULE": ("u", "le", 0), "FLE": ("f", "le", 0),
           "GT": ("i", "lt", 1), "UGT": ("u", "lt", 1), "FGT": ("f", "lt", 1),
           "GE": ("i", "le", 1), "UGE": ("u", "le", 1), "FGE": ("f", "le", 1)}
    if op in tbl:
        ty, f, swap = tbl[op]
        if swap:
            a, b = b, a
        return sym.cmp_lt(a, b, ty) if f == "lt" else sym.cmp_le(a, b, ty)
    raise Unsupported("constraint " + op)

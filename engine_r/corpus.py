"""Program corpus for engine R (enumeration of rule shapes -- stated as enumeration, not as a solver claim;
the solver quantifies over all input databases of each program).  Deterministic."""
from .req import Case

E2 = ".decl e(x:number,y:number)\n.input e\n"
F2 = ".decl f(x:number,y:number)\n.input f\n"
V1 = ".decl v(x:number)\n.input v\n"


def P(name, text, family, mode="U", m=2, n=2, tiers=("quick", "thorough"), **kw):
    c = Case(name, text, mode=mode, m=m, n=n, family=family, **kw)
    c.tiers = tiers
    return c


def base_corpus():
    C = []
    a = C.append
    # ---------------------------------------------------------------- positive / recursive shapes
    a(P("copy", E2 + ".decl p(x:number,y:number)\n.output p\np(x,y) :- e(x,y).\n", "positive", m=3))
    a(P("swapcols", E2 + ".decl p(x:number,y:number)\n.output p\np(y,x) :- e(x,y).\n", "positive", m=3))
    a(P("join2", E2 + F2 + ".decl p(x:number,y:number)\n.output p\np(x,z) :- e(x,y), f(y,z).\n", "positive"))
    a(P("join3", E2 + F2 + ".decl p(x:number,y:number)\n.output p\np(x,w) :- e(x,y), f(y,z), e(z,w).\n", "positive"))
    a(P("selfjoin_diag", E2 + ".decl p(x:number)\n.output p\np(x) :- e(x,x).\n", "positive", m=3))
    a(P("const_body", E2 + ".decl p(x:number)\n.output p\np(x) :- e(x,7).\n", "positive", m=3))
    a(P("const_head", E2 + ".decl p(x:number,y:number)\n.output p\np(x,5) :- e(x,_).\np(5,y) :- e(_,y).\n", "positive", m=3))
    a(P("facts_and_rules", E2 + ".decl p(x:number,y:number)\n.output p\np(1,2).\np(2,3).\np(x,y) :- e(x,y).\np(x,z) :- p(x,y), p(y,z).\n", "recursive"))
    a(P("tc_linear_left", E2 + ".decl p(x:number,y:number)\n.output p\np(x,y) :- e(x,y).\np(x,z) :- p(x,y), e(y,z).\n", "recursive", m=3))
    a(P("tc_linear_right", E2 + ".decl p(x:number,y:number)\n.output p\np(x,y) :- e(x,y).\np(x,z) :- e(x,y), p(y,z).\n", "recursive", m=3))
    a(P("tc_nonlinear", E2 + ".decl p(x:number,y:number)\n.output p\np(x,y) :- e(x,y).\np(x,z) :- p(x,y), p(y,z).\n", "recursive", m=3))
    a(P("tc_triple", E2 + ".decl p(x:number,y:number)\n.output p\np(x,y) :- e(x,y).\np(x,w) :- p(x,y), p(y,z), p(z,w).\n", "recursive"))
    a(P("same_generation", E2 + V1 + ".decl sg(x:number,y:number)\n.output sg\nsg(x,x) :- v(x).\nsg(x,y) :- e(a,x), sg(a,b), e(b,y).\n", "recursive"))
    a(P("mutual2", E2 + V1 + ".decl ev(x:number)\n.decl od(x:number)\n.output ev\n.output od\nev(x) :- v(x).\nod(y) :- ev(x), e(x,y).\nev(y) :- od(x), e(x,y).\n", "recursive", m=3))
    a(P("mutual3", E2 + V1 + ".decl a(x:number)\n.decl b(x:number)\n.decl c(x:number)\n.output a\n.output b\n.output c\na(x) :- v(x).\nb(y) :- a(x), e(x,y).\nc(y) :- b(x), e(x,y).\na(y) :- c(x), e(x,y).\nc(x) :- a(x), b(x).\n", "recursive"))
    a(P("two_recursive_rels_join", E2 + ".decl p(x:number,y:number)\n.decl q(x:number,y:number)\n.output p\n.output q\np(x,y) :- e(x,y).\nq(x,y) :- p(x,y).\np(x,z) :- q(x,y), p(y,z).\nq(x,z) :- p(x,y), q(y,z), p(z,z).\n", "recursive"))
    a(P("rec_nullary_gate", E2 + V1 + ".decl r(x:number)\n.decl g()\n.output r\n.output g\nr(x) :- v(x).\ng() :- r(x), e(x,x).\nr(y) :- r(x), e(x,y), g().\nr(y) :- r(x), e(x,y), x < y.\n", "recursive", m=3))
    a(P("rec_nullary_first", E2 + V1 + ".decl r(x:number)\n.decl g()\n.output r\ng() :- r(x), v(x), e(x,_).\nr(x) :- e(x,x).\nr(y) :- g(), r(x), e(x,y).\n", "recursive", m=3))
    a(P("rec_two_nullary", E2 + ".decl a()\n.decl b()\n.decl r(x:number)\n.output r\n.output b\nr(x) :- e(x,x).\na() :- r(x), e(x,y), x != y.\nb() :- a(), r(_).\nr(y) :- r(x), a(), b(), e(x,y).\n", "recursive", m=2))
    a(P("rec_mutual_ternary", ".decl p0(x:number)\n.input p0\n.decl t(x:number)\n.input t\n.decl s(x:number,y:number,z:number)\n.input s\n.decl p(x:number)\n.decl q(x:number)\n.output p\np(x) :- p0(x).\nq(y) :- p(y), t(y).\np(z) :- p(x), q(y), s(x,y,z).\n", "recursive", m=2))
    a(P("input_and_rules", E2 + ".decl p(x:number,y:number)\n.input p\n.output p\np(x,y) :- e(y,x).\np(1,1).\n", "positive", m=2))
    a(P("input_and_recursive_rules", E2 + ".decl p(x:number,y:number)\n.input p\n.output p\np(x,z) :- p(x,y), e(y,z).\n", "recursive", m=2))
    a(P("multi_head", E2 + ".decl p(x:number)\n.decl q(x:number)\n.output p\n.output q\np(x), q(y) :- e(x,y).\n", "positive", m=3))
    a(P("disjunction", E2 + F2 + ".decl p(x:number)\n.output p\np(x) :- e(x,_) ; f(_,x).\n", "positive"))
    a(P("disjunction_nested", E2 + F2 + V1 + ".decl p(x:number)\n.output p\np(x) :- v(x), (e(x,_) ; f(x,_)).\n", "positive"))
    a(P("nullary", E2 + ".decl flag()\n.decl p(x:number)\n.output p\n.output flag\nflag() :- e(x,x).\np(x) :- e(x,_), flag().\n", "positive", m=3))
    # ---------------------------------------------------------------- negation / strata / expiry
    a(P("neg_simple", E2 + V1 + ".decl p(x:number)\n.output p\np(x) :- v(x), !e(x,x).\n", "negation", m=3))
    a(P("neg_wild", E2 + V1 + ".decl p(x:number)\n.output p\np(x) :- v(x), !e(x,_).\n", "negation", m=3))
    a(P("neg_derived", E2 + V1 + ".decl r(x:number)\n.decl u(x:number)\n.output u\nr(1).\nr(y) :- r(x), e(x,y).\nu(x) :- v(x), !r(x).\n", "negation"))
    a(P("neg_two_strata", E2 + V1 + ".decl r(x:number,y:number)\n.decl nr(x:number,y:number)\n.decl s(x:number)\n.output nr\n.output s\nr(x,y) :- e(x,y).\nr(x,z) :- r(x,y), e(y,z).\nnr(x,y) :- v(x), v(y), !r(x,y).\ns(x) :- v(x), !nr(x,x), r(x,_).\n", "negation"))
    a(P("neg_in_recursion_lower", E2 + V1 + ".decl blocked(x:number)\n.decl reach(x:number)\n.output reach\nblocked(x) :- e(x,x).\nreach(x) :- v(x), !blocked(x).\nreach(y) :- reach(x), e(x,y), !blocked(y).\n", "negation", m=3))
    a(P("expiry_chain", E2 + ".decl a(x:number,y:number)\n.decl b(x:number,y:number)\n.decl c(x:number,y:number)\n.decl d(x:number,y:number)\n.output d\n.output b\na(x,y) :- e(x,y).\nb(x,y) :- a(y,x).\nc(x,y) :- b(x,y), a(x,y).\nd(x,y) :- c(x,y), !a(y,y), b(x,_).\n", "negation"))
    # ---------------------------------------------------------------- constraints
    a(P("cmp_lt", E2 + ".decl p(x:number,y:number)\n.output p\np(x,y) :- e(x,y), x < y.\n", "constraint", m=3))
    a(P("cmp_le_ne", E2 + ".decl p(x:number,y:number)\n.output p\np(x,y) :- e(x,y), x <= y, x != y.\n", "constraint", m=3))
    a(P("cmp_const", E2 + ".decl p(x:number)\n.output p\np(x) :- e(x,y), y >= 3, x < 3.\n", "constraint", m=3))
    a(P("cmp_join_ineq", E2 + F2 + ".decl p(x:number,y:number)\n.output p\np(x,z) :- e(x,y), f(z,w), y < w, x != z.\n", "constraint"))
    a(P("cmp_recursive", E2 + ".decl p(x:number,y:number)\n.output p\np(x,y) :- e(x,y).\np(x,z) :- p(x,y), e(y,z), x < z.\n", "constraint", m=3))
    a(P("eq_binding", E2 + ".decl p(x:number,y:number)\n.output p\np(x,z) :- e(x,y), z = y.\n", "constraint", m=3))
    # ---------------------------------------------------------------- typed columns (L-mode: all 32-bit values)
    a(P("unsigned_lt", ".decl e(x:unsigned,y:unsigned)\n.input e\n.decl p(x:unsigned,y:unsigned)\n.output p\np(x,y) :- e(x,y), x < y.\n", "typed", mode="L", n=2))
    a(P("unsigned_range_join", ".decl e(x:unsigned,y:unsigned)\n.input e\n.decl f(x:unsigned)\n.input f\n.decl p(x:unsigned,y:unsigned)\n.output p\np(x,z) :- e(x,y), f(z), z >= x, z <= y.\n", "typed", mode="L", n=2))
    a(P("signed_range_join", E2 + V1 + ".decl p(x:number,y:number)\n.output p\np(x,z) :- e(x,y), v(z), z > x, z < y.\n", "typed", mode="L", n=2))
    a(P("float_cmp", ".decl e(x:float,y:float)\n.input e\n.decl p(x:float)\n.output p\np(x) :- e(x,y), x < y.\n", "typed", mode="L", n=2, tiers=("thorough",)))
    a(P("mixed_bounds", E2 + V1 + ".decl p(x:number)\n.output p\np(z) :- e(x,y), v(z), z >= x, z <= y, z != 0, z > -5.\n", "typed", mode="L", n=2))
    # ---------------------------------------------------------------- functors (L-mode)
    a(P("arith_head", E2 + ".decl p(x:number,y:number)\n.output p\np(x+1,y*2) :- e(x,y).\n", "functor", mode="L", n=2))
    a(P("arith_body", E2 + ".decl p(x:number)\n.output p\np(z) :- e(x,y), z = x + y, z != 0.\n", "functor", mode="L", n=2))
    a(P("arith_bits", E2 + ".decl p(x:number,y:number)\n.output p\np(x band y, x bor 1) :- e(x,y), x bxor y != 0.\n", "functor", mode="L", n=2))
    a(P("arith_shift", ".decl e(x:number,y:number)\n.input e\n.decl p(x:number,y:number)\n.output p\np(x bshl 2, y bshr 1) :- e(x,y).\n", "functor", mode="L", n=2))
    a(P("arith_unsigned", ".decl e(x:unsigned,y:unsigned)\n.input e\n.decl p(x:unsigned,y:unsigned)\n.output p\np(x+y, x-y) :- e(x,y), x*2 > y.\n", "functor", mode="L", n=2))
    a(P("minmax_functor", E2 + ".decl p(x:number,y:number)\n.output p\np(min(x,y), max(x,y,3)) :- e(x,y).\n", "functor", mode="L", n=2))
    a(P("arith_recursive_bounded", V1 + ".decl p(x:number)\n.output p\np(x) :- v(x), x >= 0, x < 3.\np(x+1) :- p(x), x < 3.\n", "functor", mode="L", n=1, max_loop=8))
    a(P("range_gen", V1 + ".decl p(x:number,y:number)\n.output p\np(x,y) :- v(x), y = range(1,4).\n", "generator", m=2))
    a(P("range_step", ".decl p(y:number)\n.output p\np(y) :- y = range(10,0,-3).\n", "generator", m=1))
    # ---------------------------------------------------------------- aggregates
    a(P("count_all", E2 + ".decl c(n:number)\n.output c\nc(n) :- n = count : { e(_,_) }.\n", "aggregate"))
    a(P("count_group", E2 + V1 + ".decl c(x:number,n:number)\n.output c\nc(x,n) :- v(x), n = count : { e(x,_) }.\n", "aggregate"))
    a(P("count_empty_derived", E2 + V1 + ".decl d(x:number)\n.decl c(n:number)\n.output c\nd(x) :- v(x), e(x,x).\nc(n) :- n = count : { d(_) }.\n", "aggregate"))
    a(P("sum_group", E2 + V1 + ".decl c(x:number,n:number)\n.output c\nc(x,n) :- v(x), n = sum y : { e(x,y) }.\n", "aggregate"))
    a(P("sum_cond", E2 + ".decl c(n:number)\n.output c\nc(n) :- n = sum y : { e(x,y), x < y }.\n", "aggregate"))
    a(P("min_group", E2 + V1 + ".decl c(x:number,n:number)\n.output c\nc(x,n) :- v(x), n = min y : { e(x,y) }.\n", "aggregate"))
    a(P("max_all", E2 + ".decl c(n:number)\n.output c\nc(n) :- n = max y : { e(_,y) }.\n", "aggregate"))
    a(P("max_empty_guard", E2 + V1 + ".decl c(x:number)\n.output c\nc(x) :- v(x), y = max z : { e(x,z) }, y > x.\n", "aggregate"))
    a(P("min_unsigned", ".decl e(x:unsigned,y:unsigned)\n.input e\n.decl c(n:unsigned)\n.output c\nc(n) :- n = min y : { e(_,y) }.\n", "aggregate", mode="L", n=2))
    a(P("max_unsigned_group", ".decl e(x:unsigned,y:unsigned)\n.input e\n.decl c(x:unsigned,n:unsigned)\n.output c\nc(x,n) :- e(x,_), n = max y : { e(x,y) }.\n", "aggregate", mode="L", n=2))
    a(P("count_in_negation_stratum", E2 + V1 + ".decl c(x:number)\n.output c\nc(x) :- v(x), 0 = count : { e(x,_) }.\n", "aggregate"))
    a(P("agg_over_recursive", E2 + ".decl p(x:number,y:number)\n.decl c(x:number,n:number)\n.output c\np(x,y) :- e(x,y).\np(x,z) :- p(x,y), e(y,z).\nc(x,n) :- e(x,_), n = count : { p(x,_) }.\n", "aggregate"))
    a(P("agg_two_atoms", E2 + F2 + V1 + ".decl c(x:number,n:number)\n.output c\nc(x,n) :- v(x), n = count : { e(x,y), f(y,z) }.\n", "aggregate"))
    a(P("sum_const", E2 + V1 + ".decl c(x:number,n:number)\n.output c\nc(x,n) :- v(x), n = sum 2 : { e(x,y) }.\n", "aggregate"))
    # ---------------------------------------------------------------- records
    a(P("record_roundtrip", E2 + ".type Pr = [a:number, b:number]\n.decl r(p:Pr)\n.decl o(x:number,y:number)\n.output o\nr([x,y]) :- e(x,y).\no(y,x) :- r([x,y]).\n", "record"))
    a(P("record_nested_match", E2 + ".type Pr = [a:number, b:number]\n.decl r(k:number,p:Pr)\n.decl o(x:number)\n.output o\nr(x,[x,y]) :- e(x,y).\nr(y,nil) :- e(_,y).\no(x) :- r(x,[x,x]).\no(x) :- r(x,p), p = nil, e(x,_).\n", "record"))
    # ---------------------------------------------------------------- algebraic data types (lowered to records / branch numbers)
    ADT = ".type T = A {x:number} | B {a:number, b:number} | N {}\n"
    a(P("adt_branches", E2 + ADT + ".decl r(t:T)\n.decl o(x:number,y:number)\n.output o\nr($A(x)) :- e(x,x).\nr($B(x,y)) :- e(x,y), x < y.\nr($N()) :- e(_,7).\no(x,0) :- r($A(x)).\no(x,y) :- r($B(y,x)).\no(1,1) :- r($N()).\n", "adt"))
    a(P("adt_enum", E2 + ".type En = Red {} | Green {} | Blue {}\n.decl c(x:number, k:En)\n.decl o(x:number,y:number)\n.output o\nc(x,$Red()) :- e(x,_).\nc(y,$Green()) :- e(_,y).\nc(x,$Blue()) :- e(x,x).\no(x,2) :- c(x,$Green()), !c(x,$Red()).\no(x,3) :- c(x,k), k = $Blue().\no(x,4) :- c(x,k), k != $Red(), k != $Blue().\n", "adt", m=3))
    a(P("adt_decl_order", E2 + ".type T = Zed {x:number} | Mid {a:number, b:number} | Abc {x:number}\n.decl r(k:number,t:T)\n.decl o(x:number,y:number)\n.output o\nr(x,$Zed(y)) :- e(x,y).\nr(x,$Abc(y)) :- e(y,x).\nr(x,$Mid(x,y)) :- e(x,y), x != y.\no(x,y) :- r(x,$Abc(y)), !r(x,$Zed(y)).\no(y,x) :- r(x,$Mid(_,y)), r(y,$Zed(_)).\n", "adt"))
    a(P("adt_nested_recursive", E2 + V1 + ".type L = Nil {} | Cons {h:number, t:L}\n.decl l(x:number,p:L)\n.decl o(x:number,y:number)\n.output o\nl(x,$Nil()) :- v(x).\nl(y,$Cons(x,$Nil())) :- l(x,$Nil()), e(x,y).\nl(z,$Cons(y,$Cons(x,$Nil()))) :- l(y,$Cons(x,$Nil())), e(y,z).\no(z,x) :- l(z,$Cons(_,$Cons(x,_))).\no(y,y) :- l(y,$Cons(_,t)), t = $Nil().\n", "adt", m=2))
    # ---------------------------------------------------------------- eqrel
    a(P("eqrel_basic", E2 + ".decl q(x:number,y:number) eqrel\n.output q\nq(x,y) :- e(x,y).\n", "eqrel", m=3))
    a(P("eqrel_join", E2 + V1 + ".decl q(x:number,y:number) eqrel\n.decl o(x:number,y:number)\n.output o\nq(x,y) :- e(x,y).\no(x,y) :- v(x), q(x,y).\n", "eqrel", m=3))
    a(P("eqrel_second_col", E2 + V1 + ".decl q(x:number,y:number) eqrel\n.decl o(x:number,y:number)\n.output o\nq(x,y) :- e(x,y).\no(x,y) :- v(y), q(x,y), x != y.\n", "eqrel", m=3))
    a(P("eqrel_input_and_rules", F2 + V1 + ".decl q(x:number,y:number) eqrel\n.input q\n.decl o(x:number,y:number)\n.output o\nq(x,y) :- f(x,y).\no(x,y) :- v(x), q(x,y).\n", "eqrel", m=2))
    a(P("eqrel_input_only", V1 + ".decl q(x:number,y:number) eqrel\n.input q\n.decl o(x:number,y:number)\n.output o\no(x,y) :- v(x), q(y,x), x != y.\n", "eqrel", m=3))
    a(P("eqrel_recursive", E2 + V1 + ".decl q(x:number,y:number) eqrel\n.decl r(x:number)\n.output q\n.output r\nq(x,y) :- e(x,y), r(x).\nr(x) :- v(x).\nr(y) :- q(x,y), r(x).\n", "eqrel"))
    return C


def opt_corpus():
    """shapes targeted by the optional AST passes (C04) and the magic-set transformation (C05)"""
    C = []
    a = C.append
    a(P("alias_chain", E2 + ".decl a1(x:number,y:number)\n.decl a2(x:number,y:number)\n.decl p(x:number,y:number)\n.output p\na1(x,y) :- e(x,y).\na2(x,y) :- a1(x,y).\np(x,y) :- a2(x,y), a1(y,x).\n", "opt"))
    a(P("empty_relation", E2 + ".decl emp(x:number)\n.decl p(x:number)\n.decl q(x:number)\n.output p\n.output q\np(x) :- e(x,_), !emp(x).\nq(x) :- e(x,_), emp(x).\n", "opt"))
    a(P("empty_in_aggregate", E2 + ".decl emp(x:number)\n.decl c(n:number)\n.output c\nc(n) :- n = count : { emp(_) }.\nc(n) :- n = sum x : { emp(x) }.\n", "opt"))
    a(P("redundant_relation", E2 + ".decl dead(x:number)\n.decl p(x:number)\n.output p\ndead(x) :- e(x,_).\ndead(y) :- dead(x), e(x,y).\np(x) :- e(_,x).\n", "opt"))
    a(P("existential", E2 + V1 + ".decl r(x:number,y:number)\n.decl p(x:number)\n.output p\nr(x,y) :- e(x,y).\nr(x,z) :- r(x,y), e(y,z).\np(x) :- v(x), r(x,_).\n", "opt"))
    a(P("existential_nullary", E2 + ".decl r(x:number,y:number)\n.decl p(x:number)\n.output p\nr(x,y) :- e(x,y), x != y.\np(x) :- e(x,x), r(_,_).\n", "opt"))
    a(P("singleton_vars", E2 + F2 + ".decl p(x:number)\n.output p\np(x) :- e(x,y), f(z,w).\n", "opt"))
    a(P("partition_body", E2 + F2 + V1 + ".decl p(x:number)\n.output p\np(x) :- v(x), e(a,b), f(b,c), a != c.\n", "opt"))
    a(P("partition_recursive", E2 + F2 + V1 + ".decl p(x:number)\n.output p\np(x) :- v(x).\np(y) :- p(x), e(x,y), f(a,a).\n", "opt"))
    a(P("const_constraints", E2 + ".decl p(x:number)\n.decl q(x:number)\n.output p\n.output q\np(x) :- e(x,_), 1 < 2, 3 != 4.\nq(x) :- e(x,_), 2 < 1.\nq(x) :- e(_,x), 5 = 5.\n", "opt"))
    a(P("redundant_sum", E2 + V1 + ".decl c(x:number,n:number)\n.output c\nc(x,n) :- v(x), n = sum 3 : { e(x,_) }.\n", "opt"))
    a(P("duplicate_clauses", E2 + ".decl p(x:number,y:number)\n.output p\np(x,y) :- e(x,y), e(y,x).\np(a,b) :- e(b,a), e(a,b).\np(x,y) :- e(x,y), e(x,y), e(y,x).\n", "opt"))
    a(P("equivalent_relations", E2 + ".decl p(x:number,y:number)\n.decl q(x:number,y:number)\n.decl o(x:number)\n.output o\np(x,y) :- e(x,y).\np(x,z) :- p(x,y), e(y,z).\nq(a,b) :- e(a,b).\nq(a,c) :- q(a,b), e(b,c).\no(x) :- p(x,x), q(x,x).\n", "opt"))
    a(P("minimise_instance", E2 + V1 + ".decl link(x:number,y:number)\n.decl loop(x:number,y:number)\n.decl o1(x:number,y:number)\n.decl o2(x:number,y:number)\n.output o1\n.output o2\nlink(x,y) :- e(x,y), v(y).\nloop(x,x) :- e(x,x), v(x).\no1(x,y) :- link(x,y), x != 9.\no2(x,y) :- loop(x,y), x != 9.\n", "opt", m=2))
    a(P("minimise_instance_rev", E2 + V1 + ".decl aloop(x:number,y:number)\n.decl blink(x:number,y:number)\n.decl o1(x:number,y:number)\n.decl o2(x:number,y:number)\n.output o1\n.output o2\nblink(x,y) :- e(x,y), v(y).\naloop(x,x) :- e(x,x), v(x).\no1(x,y) :- blink(x,y), x != 9.\no2(x,y) :- aloop(x,y), x != 9.\n", "opt", m=2))
    a(P("minimise_const_instance", E2 + ".decl a1(x:number,y:number)\n.decl a2(x:number,y:number)\n.decl o1(x:number,y:number)\n.decl o2(x:number,y:number)\n.output o1\n.output o2\na1(x,y) :- e(x,y), e(y,x).\na2(x,3) :- e(x,3), e(3,x).\no1(x,y) :- a1(x,y), x != y.\no2(x,y) :- a2(x,y), x != y.\n", "opt", m=2))
    a(P("inline_candidate", E2 + V1 + ".decl h(x:number,y:number)\n.decl p(x:number)\n.output p\nh(x,y) :- e(x,y), x < y.\nh(x,y) :- e(y,x), v(x).\np(x) :- v(x), h(x,_).\np(x) :- v(x), !h(x,x).\n", "opt"))
    a(P("inline_in_aggregate", E2 + V1 + ".decl h(x:number,y:number)\n.decl c(x:number,n:number)\n.output c\nh(x,y) :- e(x,y), x != y.\nc(x,n) :- v(x), n = count : { h(x,_) }.\n", "opt"))
    a(P("magic_bound_arg", E2 + ".decl p(x:number,y:number)\n.decl o(y:number)\n.output o\np(x,y) :- e(x,y).\np(x,z) :- p(x,y), e(y,z).\no(y) :- p(7,y).\n", "magic"))
    a(P("magic_negation", E2 + V1 + ".decl p(x:number,y:number)\n.decl o(y:number)\n.output o\np(x,y) :- e(x,y).\np(x,z) :- p(x,y), e(y,z).\no(y) :- v(y), !p(7,y).\n", "magic"))
    a(P("magic_aggregate", E2 + V1 + ".decl p(x:number,y:number)\n.decl o(x:number,n:number)\n.output o\np(x,y) :- e(x,y).\np(x,z) :- p(x,y), e(y,z).\no(x,n) :- v(x), n = count : { p(x,_) }.\n", "magic"))
    a(P("magic_two_outputs", E2 + V1 + ".decl p(x:number,y:number)\n.decl o1(y:number)\n.decl o2(x:number)\n.output o1\n.output o2\np(x,y) :- e(x,y).\np(x,z) :- e(x,y), p(y,z).\no1(y) :- v(x), p(x,y).\no2(x) :- v(y), p(x,y).\n", "magic"))
    a(P("magic_eqrel", E2 + V1 + ".decl q(x:number,y:number) eqrel\n.decl o(y:number)\n.output o\nq(x,y) :- e(x,y).\no(y) :- v(x), q(x,y).\n", "magic"))
    a(P("magic_fact_after_rules", ".decl b(x:number)\n.input b\n.decl c(x:number)\n.input c\n.decl d1(x:number)\n.input d1\n.decl d2(x:number)\n.input d2\n.decl s(x:number)\n.decl r(x:number)\n.decl t(x:number)\n.decl q(x:number)\n.decl rr(x:number)\n.output q\n.output rr\ns(x) :- d1(x), d2(x).\nr(x) :- c(x), s(x).\nr(0).\nt(x) :- b(x), !r(x).\nq(x) :- t(x), s(x).\nrr(x) :- r(x).\n", "magic", m=2))
    a(P("magic_fact_after_rules_agg", E2 + V1 + ".decl s(x:number)\n.decl r(x:number)\n.decl o(x:number,n:number)\n.output o\ns(x) :- e(x,x).\nr(x) :- v(x), s(x).\nr(1).\no(x,n) :- v(x), s(x), n = count : { r(x) }.\n", "magic", m=2))
    a(P("magic_float_zero_L", ".decl e(x:float,y:number)\n.input e\n.decl g(y:number)\n.input g\n.decl p(x:float,y:number)\n.decl r(y:number)\n.output r\np(x,y) :- e(x,y), g(y).\nr(y) :- p(x,y), x = -0.0.\n", "magic", mode="L", n=2))
    a(P("magic_both_bound", E2 + ".decl p(x:number,y:number)\n.decl o()\n.decl o2(x:number)\n.output o\n.output o2\np(x,y) :- e(x,y).\np(x,z) :- p(x,y), p(y,z).\no() :- p(1,2).\no2(x) :- p(x,x), !p(x,1).\n", "magic"))
    a(P("magic_neg_two_recursive", E2 + V1 + ".decl r(x:number,y:number)\n.decl s(x:number,y:number)\n.decl o(y:number)\n.output o\nr(x,y) :- e(x,y).\nr(x,z) :- r(x,y), e(y,z).\ns(x,y) :- v(x), v(y), !r(x,y).\ns(x,z) :- s(x,y), e(y,z), !r(z,x).\no(y) :- s(3,y).\n", "magic"))
    a(P("magic_record", E2 + ".type Pr = [a:number, b:number]\n.decl r(k:number,p:Pr)\n.decl o(x:number,y:number)\n.output o\nr(x,[x,y]) :- e(x,y).\no(x,y) :- r(4,[x,y]).\n", "magic"))
    a(P("magic_choice", E2 + ".decl c(x:number,y:number) choice-domain x\n.decl o(y:number)\n.output c\n.output o\nc(x,y) :- e(x,y).\no(y) :- c(2,y).\n", "magic", judge="choice", orders=("fwd", "rev")))
    a(P("magic_float_L", ".decl e(x:float,y:float)\n.input e\n.decl p(x:float,y:float)\n.decl o(y:float)\n.output o\np(x,y) :- e(x,y), x < y.\no(y) :- p(1.5,y).\n", "magic", mode="L", n=2, tiers=("thorough",)))
    a(P("magic_functor_L", E2 + ".decl p(x:number,y:number)\n.decl o(y:number)\n.output o\np(x,y) :- e(x,y).\no(y+1) :- p(3,y).\n", "magic", mode="L", n=2))
    return C


def index_corpus():
    """inequality / multi-bound index shapes over signed / unsigned / float columns (C06, L-mode)"""
    C = []
    a = C.append
    U2 = ".decl e(x:unsigned,y:unsigned)\n.input e\n"
    UV = ".decl v(x:unsigned)\n.input v\n"
    a(P("idx_strict_both", E2 + V1 + ".decl p(x:number,z:number)\n.output p\np(x,z) :- e(x,y), v(z), x < z, z < y.\n", "index", mode="L", n=2))
    a(P("idx_eq_and_range", E2 + F2 + ".decl p(x:number,w:number)\n.output p\np(x,w) :- e(x,y), f(x,w), w >= y, w != 2147483647.\n", "index", mode="L", n=2))
    a(P("idx_two_lower", E2 + V1 + ".decl p(z:number)\n.output p\np(z) :- e(x,y), v(z), z > x, z > y.\n", "index", mode="L", n=2))
    a(P("idx_two_upper", E2 + V1 + ".decl p(z:number)\n.output p\np(z) :- e(x,y), v(z), z < x, z < y.\n", "index", mode="L", n=2))
    a(P("idx_two_upper_weak", E2 + V1 + ".decl p(z:number)\n.output p\np(z) :- e(x,y), v(z), z <= x, z <= y.\n", "index", mode="L", n=2))
    a(P("idx_two_lower_weak_upper", E2 + F2 + V1 + ".decl p(z:number)\n.output p\np(z) :- e(x,y), f(a,b), v(z), z >= x, z >= y, z <= a, z < b.\n", "index", mode="L", n=1))
    a(P("idx_unsigned_two_upper", U2 + UV + ".decl p(z:unsigned)\n.output p\np(z) :- e(x,y), v(z), z <= x, z < y, z >= 1.\n", "index", mode="L", n=2))
    a(P("idx_const_and_var_upper", E2 + V1 + ".decl p(z:number)\n.output p\np(z) :- e(x,_), v(z), z <= 5, z <= x, z > -5, z >= x - 3.\n", "index", mode="L", n=2))
    a(P("idx_unsigned_strict", U2 + UV + ".decl p(z:unsigned)\n.output p\np(z) :- e(x,y), v(z), x < z, z < y.\n", "index", mode="L", n=2))
    a(P("idx_unsigned_const", U2 + ".decl p(x:unsigned)\n.output p\np(x) :- e(x,y), y > 0, y < 4294967295, x >= 1.\n", "index", mode="L", n=2))
    a(P("idx_signed_const_extremes", E2 + ".decl p(x:number)\n.output p\np(x) :- e(x,y), y > -2147483648, x < 2147483647, x != y.\n", "index", mode="L", n=2))
    a(P("idx_neg_const", E2 + V1 + ".decl p(x:number)\n.output p\np(x) :- v(x), e(x,-1).\np(x) :- v(x), e(-2147483648,x).\n", "index", mode="L", n=2))
    a(P("idx_float_range", ".decl e(x:float,y:float)\n.input e\n.decl v(x:float)\n.input v\n.decl p(z:float)\n.output p\np(z) :- e(x,y), v(z), x <= z, z <= y.\n", "index", mode="L", n=2, tiers=("thorough",)))
    a(P("idx_agg_range", E2 + V1 + ".decl c(x:number,n:number)\n.output c\nc(x,n) :- v(x), n = count : { e(a,b), a > x, b <= x }.\n", "index", mode="L", n=2))
    return C


def contract_corpus():
    """choice-domain, subsumption, limitsize programs (judged by their declarative contracts)"""
    C = []
    a = C.append
    O3 = ("fwd", "rev", "rot")
    a(P("choice_single_key", E2 + ".decl c(x:number,y:number) choice-domain x\n.output c\nc(x,y) :- e(x,y).\n", "choice", judge="choice", orders=O3, m=3))
    a(P("choice_two_keys", E2 + ".decl c(x:number,y:number) choice-domain x, y\n.output c\nc(x,y) :- e(x,y).\n", "choice", judge="choice", orders=O3, m=3))
    a(P("choice_pair_key", ".decl e3(x:number,y:number,z:number)\n.input e3\n.decl c(x:number,y:number,z:number) choice-domain (x,y)\n.output c\nc(x,y,z) :- e3(x,y,z).\n", "choice", judge="choice", orders=O3))
    a(P("choice_two_rules", E2 + F2 + ".decl c(x:number,y:number) choice-domain x\n.output c\nc(x,y) :- e(x,y).\nc(x,y) :- f(y,x).\n", "choice", judge="choice", orders=O3))
    a(P("choice_recursive", E2 + V1 + ".decl c(x:number,y:number) choice-domain y\n.output c\nc(x,x) :- v(x).\nc(x,z) :- c(x,y), e(y,z).\n", "choice", judge="choice", orders=O3))
    a(P("choice_recursive_swap", E2 + ".decl c(x:number,y:number) choice-domain x\n.output c\nc(x,y) :- e(x,y).\nc(y,x) :- c(x,y), e(y,_).\n", "choice", judge="choice", orders=O3))
    a(P("choice_spanning_tree", E2 + V1 + ".decl st(x:number,y:number) choice-domain y\n.output st\nst(x,x) :- v(x), x = 1.\nst(x,y) :- st(_,x), e(x,y).\n", "choice", judge="choice", orders=O3))
    a(P("choice_subset_keys", ".decl e3(x:number,y:number,z:number)\n.input e3\n.decl c(x:number,y:number,z:number) choice-domain (x,y), x\n.output c\nc(x,y,z) :- e3(x,y,z).\n", "choice", judge="choice", orders=O3, m=2))
    a(P("choice_superset_keys", ".decl e3(x:number,y:number,z:number)\n.input e3\n.decl c(x:number,y:number,z:number) choice-domain z, (z,y), (y,x)\n.output c\nc(x,y,z) :- e3(x,y,z).\n", "choice", judge="choice", orders=O3, m=2))
    a(P("choice_subset_keys_rec", E2 + V1 + ".decl w(a:number,b:number) choice-domain (a,b), a\n.output w\nw(x,y) :- v(x), e(x,y).\nw(b,c) :- w(_,b), e(b,c).\n", "choice", judge="choice", orders=O3, m=2))
    a(P("choice_mutual_indirect", ".decl seed(k:number,v:number)\n.input seed\n.decl step(u:number,v:number)\n.input step\n.decl ca(k:number,v:number) choice-domain k\n.decl cb(k:number,v:number)\n.output ca\n.output cb\nca(k,v) :- seed(k,v).\ncb(k,v) :- ca(k,u), step(u,v).\nca(k,v) :- cb(k,v).\n", "choice", judge="choice", orders=O3, m=2))
    a(P("choice_mutual_three", E2 + V1 + ".decl ca(k:number,v:number) choice-domain k\n.decl cb(k:number,v:number)\n.decl cc(k:number,v:number) choice-domain v\n.output ca\n.output cb\n.output cc\nca(x,x) :- v(x).\ncb(k,w) :- ca(k,u), e(u,w).\ncc(k,w) :- cb(k,w).\nca(k,w) :- cc(k,w).\n", "choice", judge="choice", orders=O3, m=2))
    # subsumption (min-cost shapes): judge_arg = monotone-cost program
    D2 = ".decl e(x:number,d:number)\n.input e\n"
    a(P("subsume_min_nonrec", D2 + ".decl s(x:number,d:number) btree_delete\n.output s\ns(x,d) :- e(x,d).\ns(x,d1) <= s(x,d2) :- d2 < d1.\n", "subsume", judge="subsume", judge_arg=1, mode="L", n=3))
    a(P("subsume_max_nonrec", D2 + ".decl s(x:number,d:number) btree_delete\n.output s\ns(x,d) :- e(x,d).\ns(x,d1) <= s(x,d2) :- d1 < d2.\n", "subsume", judge="subsume", judge_arg=1, mode="L", n=3))
    a(P("subsume_min_umode", D2 + ".decl s(x:number,d:number) btree_delete\n.output s\ns(x,d) :- e(x,d).\ns(x,d1) <= s(x,d2) :- d2 < d1.\n", "subsume", judge="subsume", judge_arg=1, m=3))
    a(P("subsume_shortest_path", E2 + ".decl src(x:number)\n.input src\n.decl s(x:number,d:number) btree_delete\n.output s\ns(x,0) :- src(x).\ns(y,d+1) :- s(x,d), e(x,y), d < 3.\ns(x,d1) <= s(x,d2) :- d2 < d1.\n", "subsume", judge="subsume", judge_arg=1, m=2, max_loop=12))
    a(P("subsume_mutual", E2 + ".decl src(x:number)\n.input src\n.decl dist(x:number,d:number) btree_delete\n.decl step(x:number,d:number)\n.output dist\ndist(x,0) :- src(x).\nstep(y,d+1) :- dist(x,d), e(x,y), d < 3.\ndist(y,d) :- step(y,d).\ndist(x,d1) <= dist(x,d2) :- d2 < d1.\n", "subsume", judge="subsume", judge_arg=1, m=2, max_loop=14))
    a(P("subsume_mutual_rev_names", E2 + ".decl src(x:number)\n.input src\n.decl zdist(x:number,d:number) btree_delete\n.decl astep(x:number,d:number)\n.output zdist\nzdist(x,0) :- src(x).\nastep(y,d+1) :- zdist(x,d), e(x,y), d < 3.\nzdist(y,d) :- astep(y,d).\nzdist(x,d1) <= zdist(x,d2) :- d2 < d1.\n", "subsume", judge="subsume", judge_arg=1, m=2, max_loop=14))
    a(P("subsume_pairs_lex", ".decl e3(x:number,a:number,b:number)\n.input e3\n.decl s(x:number,a:number,b:number) btree_delete\n.output s\ns(x,a,b) :- e3(x,a,b).\ns(x,a1,b1) <= s(x,a2,b2) :- a2 <= a1, b2 <= b1.\n", "subsume", judge="subsume", judge_arg=0, m=2))
    # limitsize
    a(P("limit_tc_1", E2 + ".decl l(x:number,y:number)\n.limitsize l(n=1)\n.output l\nl(x,y) :- e(x,y).\nl(x,z) :- l(x,y), e(y,z).\n", "limit", judge="limit"))
    a(P("limit_tc_2", E2 + ".decl l(x:number,y:number)\n.limitsize l(n=2)\n.output l\nl(x,y) :- e(x,y).\nl(x,z) :- l(x,y), e(y,z).\n", "limit", judge="limit", m=3))
    a(P("limit_tc_3", E2 + ".decl l(x:number,y:number)\n.limitsize l(n=3)\n.output l\nl(x,y) :- e(x,y).\nl(x,z) :- l(x,y), l(y,z).\n", "limit", judge="limit", m=3))
    a(P("limit_unary", E2 + V1 + ".decl r(x:number)\n.limitsize r(n=2)\n.output r\nr(x) :- v(x).\nr(y) :- r(x), e(x,y).\n", "limit", judge="limit", m=3))
    a(P("limit_with_downstream", E2 + V1 + ".decl r(x:number)\n.decl o(x:number)\n.limitsize r(n=2)\n.output r\nr(x) :- v(x).\nr(y) :- r(x), e(x,y).\n", "limit", judge="limit"))
    return C


def lattice_corpus():
    from . import models
    C = []
    LAT = (".type L <: number\n.functor lub(a:L, b:L):L stateful\n.functor glb(a:L, b:L):L stateful\n"
           ".lattice L<> {\n Bottom -> 0,\n Lub -> @lub(_,_),\n Glb -> @glb(_,_)\n}\n")
    EV = ".decl e(x:number,v:L)\n.input e\n"
    G2 = ".decl g(x:number,y:number)\n.input g\n"

    def PL(name, body, libs=("max", "or"), **kw):
        for lib, fm in (("max", {"lub": models.lub_max, "glb": models.glb_min}), ("or", {"lub": models.lub_or, "glb": models.glb_and})):
            if lib not in libs:
                continue
            c = P("%s_%s" % (name, lib), LAT + body, "lattice", judge="lattice", functors=fm, orders=("fwd", "rev"), **kw)
            c.functor_lib = lib
            C.append(c)
    PL("lat_nonrec", EV + ".decl r(x:number, v:L<>)\n.output r\nr(x,v) :- e(x,v).\n", m=3)
    PL("lat_two_rules", EV + ".decl f(x:number,v:L)\n.input f\n.decl r(x:number, v:L<>)\n.output r\nr(x,v) :- e(x,v).\nr(x,v) :- f(x,v).\n", m=2)
    PL("lat_propagate", EV + G2 + ".decl r(x:number, v:L<>)\n.output r\nr(x,v) :- e(x,v).\nr(y,v) :- r(x,v), g(x,y), x < y.\n", libs=("max",), m=0, extra_consts=(0, 7), max_loop=12)
    PL("lat_propagate_join", EV + G2 + ".decl r(x:number, v:L<>)\n.output r\nr(x,v) :- e(x,v).\nr(y,@lub(v,w)) :- r(x,v), g(x,y), e(y,w), x < y.\n", libs=("max",), m=0, extra_consts=(0, 7), max_loop=12)
    PL("lat_two_values", ".decl e3(x:number,a:L,b:L)\n.input e3\n.decl r(x:number, a:L<>, b:L<>)\n.output r\nr(x,a,b) :- e3(x,a,b).\n", m=2)
    PL("lat_two_values_rec", ".decl e3(x:number,a:L,b:L)\n.input e3\n" + G2 + ".decl r(x:number, a:L<>, b:L<>)\n.output r\nr(x,a,b) :- e3(x,a,b).\nr(y,a,b) :- r(x,a,b), g(x,y), x < y.\n", libs=("max",), m=0, extra_consts=(0, 7), max_loop=12)
    PL("lat_two_keys", ".decl e3(x:number,y:number,v:L)\n.input e3\n.decl r(x:number, y:number, v:L<>)\n.output r\nr(x,y,v) :- e3(x,y,v).\n", m=2)
    return C


def syntax_corpus():
    """print / reparse shapes (C15): qualifiers, plans, precedence, negative constants, records, symbols"""
    C = []
    a = C.append
    a(P("syn_precedence", E2 + ".decl p(x:number,y:number)\n.output p\np((x+y)*2, x-(y-1)) :- e(x,y).\np(x*2+y, -x) :- e(x,y), x != -1.\np(x/(y+100), x%7) :- e(x,y), y > 0, y < 50.\n", "syntax", mode="L", n=2))
    a(P("syn_bitops", E2 + ".decl p(x:number,y:number)\n.output p\np(x band (y bor 1), (x bxor y) bshl 1) :- e(x,y).\np(bnot x, lnot y) :- e(x,y).\np(x land y, x lor (y lxor 1)) :- e(x,y).\n", "syntax", mode="L", n=2))
    a(P("syn_neg_consts", E2 + ".decl p(x:number)\n.output p\np(x) :- e(x,-3).\np(-7) :- e(-1,_).\np(x) :- e(x,y), y < -2147483647.\n", "syntax", m=2))
    a(P("syn_plan_qualifiers", E2 + ".decl h(x:number,y:number) inline\n.decl p(x:number,y:number) btree\n.output p\nh(x,y) :- e(x,y), x != y.\np(x,y) :- h(x,y).\np(x,z) :- p(x,y), p(y,z). .plan 0:(2,1), 1:(1,2)\n", "syntax", m=2))
    a(P("syn_disjunction_neg", E2 + F2 + V1 + ".decl p(x:number)\n.output p\np(x) :- v(x), (e(x,_) ; f(_,x), !e(x,x)), x != 0.\n", "syntax", m=2))
    a(P("syn_aggregates", E2 + V1 + ".decl c(x:number,n:number)\n.output c\nc(x,n) :- v(x), n = count : { e(x,_) }.\nc(x,n+1) :- v(x), n = sum y : { e(x,y), y > 1 }, n > 0.\nc(x,n) :- v(x), n = min y : { e(x,y) }.\n", "syntax", m=2))
    a(P("syn_records", E2 + ".type Pr = [a:number, b:number]\n.decl r(p:Pr)\n.decl o(x:number,y:number)\n.output o\nr([x,y]) :- e(x,y).\nr(nil) :- e(1,1).\no(y,x) :- r([x,y]).\n", "syntax", m=2))
    a(P("syn_symbols", ".decl e(x:symbol,y:symbol)\n.input e\n.decl p(x:symbol,y:symbol)\n.output p\np(x,y) :- e(x,y), x != y.\np(x,\"k\") :- e(x,\"a b\").\n", "syntax", m=2))
    a(P("syn_multi_head_fact", E2 + ".decl p(x:number)\n.decl q(x:number)\n.output p\n.output q\np(1).\nq(2).\np(x), q(x) :- e(x,x).\n", "syntax", m=2))
    a(P("syn_unsigned_float", ".decl e(x:unsigned,y:float)\n.input e\n.decl p(x:unsigned,y:float)\n.output p\np(x+1,y) :- e(x,y), x < 10, y >= 1.5.\np(to_unsigned(to_number(y)),y) :- e(x,y), y > 0.0, y < 100.0, x = 3.\n", "syntax", mode="L", n=1, tiers=("thorough",)))
    return C


def component_corpus():
    """(wrapped program, hand-flattened twin) pairs for C16"""
    C = []

    def PC(name, wrapped, flat, **kw):
        c = P(name, wrapped, "component", ref_text=flat, **kw)
        C.append(c)
    G = ".decl edge(x:number,y:number)\n.decl reach(x:number,y:number)\nreach(x,y) :- edge(x,y).\nreach(x,z) :- reach(x,y), edge(y,z).\n"

    def flatG(pfx):
        return G.replace("edge(", pfx + "edge(").replace("reach(", pfx + "reach(")
    PC("comp_simple", E2 + ".comp Graph {\n" + G + "}\n.init g = Graph\ng.edge(x,y) :- e(x,y).\n.decl o(x:number,y:number)\n.output o\no(x,y) :- g.reach(x,y).\n",
       E2 + flatG("g.") + "g.edge(x,y) :- e(x,y).\n.decl o(x:number,y:number)\n.output o\no(x,y) :- g.reach(x,y).\n")
    PC("comp_two_instances", E2 + F2 + ".comp Graph {\n" + G + "}\n.init g = Graph\n.init h = Graph\ng.edge(x,y) :- e(x,y).\nh.edge(x,y) :- f(x,y).\nh.edge(x,y) :- g.reach(y,x).\n.decl o(x:number,y:number)\n.output o\no(x,y) :- h.reach(x,y), !g.reach(x,y).\n",
       E2 + F2 + flatG("g.") + flatG("h.") + "g.edge(x,y) :- e(x,y).\nh.edge(x,y) :- f(x,y).\nh.edge(x,y) :- g.reach(y,x).\n.decl o(x:number,y:number)\n.output o\no(x,y) :- h.reach(x,y), !g.reach(x,y).\n")
    PC("comp_type_param", E2 + ".comp Box<T> {\n.decl v(x:T)\n.decl w(x:T)\nw(x) :- v(x), x != 0.\n}\n.init b = Box<number>\nb.v(x) :- e(x,_).\n.decl o(x:number)\n.output o\no(x) :- b.w(x).\n",
       E2 + ".decl b.v(x:number)\n.decl b.w(x:number)\nb.w(x) :- b.v(x), x != 0.\nb.v(x) :- e(x,_).\n.decl o(x:number)\n.output o\no(x) :- b.w(x).\n")
    PC("comp_inherit", E2 + ".comp A {\n.decl r(x:number)\n.decl s(x:number)\ns(x) :- r(x), x > 0.\n}\n.comp B : A {\n.decl t(x:number)\nt(x) :- s(x), !r(3).\n}\n.init b = B\nb.r(x) :- e(x,_).\n.decl o(x:number)\n.output o\no(x) :- b.t(x).\n",
       E2 + ".decl b.r(x:number)\n.decl b.s(x:number)\n.decl b.t(x:number)\nb.s(x) :- b.r(x), x > 0.\nb.t(x) :- b.s(x), !b.r(3).\nb.r(x) :- e(x,_).\n.decl o(x:number)\n.output o\no(x) :- b.t(x).\n")
    PC("comp_override", E2 + ".comp A {\n.decl r(x:number) overridable\n.decl s(x:number)\nr(x) :- e(x,_).\ns(x) :- r(x).\n}\n.comp B : A {\n.override r\nr(y) :- e(_,y).\n}\n.init a = A\n.init b = B\n.decl o(x:number)\n.decl o2(x:number)\n.output o\n.output o2\no(x) :- b.s(x).\no2(x) :- a.s(x).\n",
       E2 + ".decl a.r(x:number)\n.decl a.s(x:number)\na.r(x) :- e(x,_).\na.s(x) :- a.r(x).\n.decl b.r(x:number)\n.decl b.s(x:number)\nb.r(y) :- e(_,y).\nb.s(x) :- b.r(x).\n.decl o(x:number)\n.decl o2(x:number)\n.output o\n.output o2\no(x) :- b.s(x).\no2(x) :- a.s(x).\n")
    PC("comp_nested_init", E2 + ".comp Inner {\n.decl p(x:number)\n.decl q(x:number)\nq(x) :- p(x), x != 1.\n}\n.comp Outer {\n.init in1 = Inner\n.init in2 = Inner\n.decl r(x:number)\nin1.p(x) :- r(x).\nin2.p(x) :- in1.q(x).\n}\n.init o1 = Outer\no1.r(x) :- e(x,_).\n.decl o(x:number)\n.output o\no(x) :- o1.in2.q(x).\n",
       E2 + ".decl o1.in1.p(x:number)\n.decl o1.in1.q(x:number)\n.decl o1.in2.p(x:number)\n.decl o1.in2.q(x:number)\n.decl o1.r(x:number)\no1.in1.q(x) :- o1.in1.p(x), x != 1.\no1.in2.q(x) :- o1.in2.p(x), x != 1.\no1.in1.p(x) :- o1.r(x).\no1.in2.p(x) :- o1.in1.q(x).\no1.r(x) :- e(x,_).\n.decl o(x:number)\n.output o\no(x) :- o1.in2.q(x).\n")
    PC("comp_param_component", E2 + ".comp Imp1 {\n.decl f(x:number,y:number)\nf(x,y) :- e(x,y).\n}\n.comp Imp2 {\n.decl f(x:number,y:number)\nf(x,y) :- e(y,x).\n}\n.comp User<I> {\n.init impl = I\n.decl g(x:number)\ng(x) :- impl.f(x,x).\ng(y) :- g(x), impl.f(x,y).\n}\n.init u1 = User<Imp1>\n.init u2 = User<Imp2>\n.decl o(x:number)\n.output o\no(x) :- u1.g(x), !u2.g(x).\n",
       E2 + ".decl u1.impl.f(x:number,y:number)\nu1.impl.f(x,y) :- e(x,y).\n.decl u1.g(x:number)\nu1.g(x) :- u1.impl.f(x,x).\nu1.g(y) :- u1.g(x), u1.impl.f(x,y).\n.decl u2.impl.f(x:number,y:number)\nu2.impl.f(x,y) :- e(y,x).\n.decl u2.g(x:number)\nu2.g(x) :- u2.impl.f(x,x).\nu2.g(y) :- u2.g(x), u2.impl.f(x,y).\n.decl o(x:number)\n.output o\no(x) :- u1.g(x), !u2.g(x).\n")
    SRC = ".comp S1 {\n.decl r(x:number)\nr(x) :- e(x,_).\n}\n.comp S2 {\n.decl r(x:number)\nr(y) :- e(_,y).\n}\n"
    PAIR = ".comp Pair<A, B> {\n.init first = A\n.init second = B\n.decl fst(x:number)\n.decl snd(x:number)\nfst(x) :- first.r(x).\nsnd(x) :- second.r(x), !first.r(x).\n}\n"

    def flat_pair(pfx, a, b):
        ra = "r(x) :- e(x,_)." if a == 1 else "r(y) :- e(_,y)."
        rb = "r(x) :- e(x,_)." if b == 1 else "r(y) :- e(_,y)."
        return (".decl %sfirst.r(x:number)\n%sfirst.%s\n.decl %ssecond.r(x:number)\n%ssecond.%s\n.decl %sfst(x:number)\n.decl %ssnd(x:number)\n"
                "%sfst(x) :- %sfirst.r(x).\n%ssnd(x) :- %ssecond.r(x), !%sfirst.r(x).\n" % (pfx, pfx, ra, pfx, pfx, rb, pfx, pfx, pfx, pfx, pfx, pfx, pfx))
    OUT = ".decl o1(x:number)\n.decl o2(x:number)\n.output o1\n.output o2\n"
    PC("comp_param_permuted_inherit", E2 + SRC + PAIR + ".comp Flip<A, B> : Pair<B, A> { }\n.init p = Flip<S1, S2>\n" + OUT + "o1(x) :- p.fst(x).\no2(x) :- p.snd(x).\n",
       E2 + flat_pair("p.", 2, 1) + OUT + "o1(x) :- p.fst(x).\no2(x) :- p.snd(x).\n")
    PC("comp_param_permuted_nested", E2 + SRC + PAIR + ".comp Outer<A, B> {\n.init q = Pair<B, A>\n}\n.init o = Outer<S1, S2>\n" + OUT + "o1(x) :- o.q.fst(x).\no2(x) :- o.q.snd(x).\n",
       E2 + flat_pair("o.q.", 2, 1) + OUT + "o1(x) :- o.q.fst(x).\no2(x) :- o.q.snd(x).\n")
    PC("comp_param_same_order", E2 + SRC + PAIR + ".comp Keep<A, B> : Pair<A, B> { }\n.init k = Keep<S1, S2>\n" + OUT + "o1(x) :- k.fst(x).\no2(x) :- k.snd(x).\n",
       E2 + flat_pair("k.", 1, 2) + OUT + "o1(x) :- k.fst(x).\no2(x) :- k.snd(x).\n")
    PC("comp_override_qualified_head", E2 + ".comp Clo {\n.decl path(a:number,b:number)\npath(a,c) :- path(a,b), path(b,c).\n}\n.comp Base {\n.init sub = Clo\nsub.path(a,b) :- e(a,b).\n.decl path(a:number,b:number) overridable\npath(a,b) :- sub.path(a,b).\n}\n.comp Derived : Base {\n.override path\npath(b,a) :- sub.path(a,b), a != b.\n}\n.init d = Derived\n.decl o1(a:number,b:number)\n.decl o2(a:number,b:number)\n.output o1\n.output o2\no1(a,b) :- d.path(a,b).\no2(a,b) :- d.sub.path(a,b).\n",
       E2 + ".decl d.sub.path(a:number,b:number)\nd.sub.path(a,c) :- d.sub.path(a,b), d.sub.path(b,c).\nd.sub.path(a,b) :- e(a,b).\n.decl d.path(a:number,b:number)\nd.path(b,a) :- d.sub.path(a,b), a != b.\n.decl o1(a:number,b:number)\n.decl o2(a:number,b:number)\n.output o1\n.output o2\no1(a,b) :- d.path(a,b).\no2(a,b) :- d.sub.path(a,b).\n")
    PC("comp_output_inside", E2 + ".comp C {\n.decl p(x:number,y:number)\n.output p\np(x,y) :- e(x,y), x < y.\n}\n.init c1 = C\n",
       E2 + ".decl c1.p(x:number,y:number)\n.output c1.p\nc1.p(x,y) :- e(x,y), x < y.\n")
    PC("comp_inherit_param_chain", E2 + ".comp Base<T> {\n.decl b(x:T)\n.decl d(x:T)\nd(x) :- b(x).\n}\n.comp Mid<T> : Base<T> {\n.decl m(x:T,y:T)\nm(x,y) :- d(x), d(y), x < y.\n}\n.comp Top : Mid<number> {\nb(x) :- e(x,_).\n}\n.init t = Top\n.decl o(x:number,y:number)\n.output o\no(x,y) :- t.m(x,y).\n",
       E2 + ".decl t.b(x:number)\n.decl t.d(x:number)\n.decl t.m(x:number,y:number)\nt.d(x) :- t.b(x).\nt.m(x,y) :- t.d(x), t.d(y), x < y.\nt.b(x) :- e(x,_).\n.decl o(x:number,y:number)\n.output o\no(x,y) :- t.m(x,y).\n")
    return C


def _deepen(c, levels=1):
    """thorough tier: one more symbolic value (U-mode) / tuple (L-mode) where the database stays small"""
    import copy
    import re
    c = copy.copy(c)
    if c.judge in ("lattice",):
        return c
    decls = re.findall(r"\.decl\s+([\w.]+)\s*\(([^)]*)\)", c.ref_text)
    inputs = set(re.findall(r"\.input\s+([\w.]+)", c.ref_text))
    ar = [len([x for x in a.split(",") if x.strip()]) for n, a in decls if n in inputs]
    consts = len(set(re.findall(r"(?<![\w.])-?\d+(?![\w.])", c.ref_text.split(".output")[0] if False else "\n".join(l for l in c.ref_text.split("\n") if ":-" in l or (l.strip().endswith(".") and "(" in l and not l.startswith("."))))))
    if c.mode == "U":
        u = consts + c.m + 1
        if sum(u ** a for a in ar) <= 60:
            c.m += 1
            if levels >= 2 and c.judge == "lm" and sum((u + 1) ** a for a in ar) <= 36:
                c.m += 1
    else:
        if c.n < 3 and sum(ar) * (c.n + 1) <= 12:
            c.n += 1
    return c


def corpus(tier, extra=(), deepen=1):
    """deepen: how many extra symbolic values the thorough tier may add per program (2 is affordable for checks with
    few configurations per program; +3 was measured at > 55 min for C01 and is not used)"""
    cs = _corpus(tier, extra)
    if tier == "thorough":
        cs = [_deepen(c, deepen) for c in cs]
    return cs


def _corpus(tier, extra=()):
    cs = [c for c in base_corpus() if tier in c.tiers]
    fams = {"opt": opt_corpus, "magic": opt_corpus, "index": index_corpus, "choice": contract_corpus, "subsume": contract_corpus,
            "limit": contract_corpus, "syntax": syntax_corpus, "component": component_corpus, "lattice": lattice_corpus, "systematic": systematic_corpus}
    done = set()
    for e in extra:
        f = fams.get(e)
        if f is None or f in done:
            continue
        done.add(f)
        allowed = set(extra)
        cs += [c for c in f() if tier in c.tiers and (c.family in allowed)]
    return cs


def systematic_corpus():
    """every recursive rule `p(h1,h2) :- A1, A2 [, C]` up to variable renaming with A_i in {p,e} x ordered pairs of
    distinct variables from x,y,z, connected body, at least one p atom, head variables distinct and bound; C is
    nothing, `h1 != h2`-style constraint or a negated EDB atom.  Base rule p(x,y) :- e(x,y).  (enumeration)"""
    import itertools
    V = ["x", "y", "z"]
    atoms = [(r, a, b) for r in ("p", "e") for a, b in itertools.permutations(V, 2)]
    seen = set()
    out = []
    for a1, a2 in itertools.combinations_with_replacement(atoms, 2):
        if a1 == a2:
            continue
        if "p" not in (a1[0], a2[0]):
            continue
        bv = [a1[1], a1[2], a2[1], a2[2]]
        if not (set(a1[1:]) & set(a2[1:])):
            continue
        for h in itertools.permutations(sorted(set(bv)), 2):
            # canonical renaming by first occurrence in (head, body)
            order = []
            for v in list(h) + bv:
                if v not in order:
                    order.append(v)
            ren = {v: V[i] for i, v in enumerate(order)}
            key = (tuple(ren[v] for v in h), tuple(sorted([(a1[0], ren[a1[1]], ren[a1[2]]), (a2[0], ren[a2[1]], ren[a2[2]])])))
            if key in seen:
                continue
            seen.add(key)
            hh = "p(%s,%s)" % (ren[h[0]], ren[h[1]])
            body = "%s(%s,%s), %s(%s,%s)" % (a1[0], ren[a1[1]], ren[a1[2]], a2[0], ren[a2[1]], ren[a2[2]])
            out.append((hh, body, (ren[h[0]], ren[h[1]])))
    C = []
    for i, (hh, body, hv) in enumerate(out):
        for j, extra in enumerate(("", ", %s != %s" % hv, ", !e(%s,%s)" % (hv[1], hv[0]))):
            if j and i % 3 != j:     # one constrained variant per rule, rotating
                continue
            text = E2 + ".decl p(x:number,y:number)\n.output p\np(x,y) :- e(x,y).\n%s :- %s%s.\n" % (hh, body, extra)
            c = P("sys_%03d_%d" % (i, j), text, "systematic", m=2, tiers=("thorough",) if (i + j) % 5 else ("quick", "thorough"))
            C.append(c)
    return C

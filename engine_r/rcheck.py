"""Shared driver for engine-R checks: run (case, cfgs) jobs, replay disagreements, build the Result."""
import collections
import os
import time

from vlib import common
from vlib.common import EngineError, log
from . import req


def run_jobs(pid, tier, jobs, level="translation_validation", timeout_ms=None, what="", assumptions=(), only=None,
             unsupported_ok=True, rejected_ok=False, extra_cov=None):
    """jobs: list of (Case, [Cfg]).  Each (case,cfg) pair is one solver obligation
    'for every database in the bound: outputs of the real RAM == reference least model'."""
    common.ensure_souffle()
    if only:
        jobs = [(c, cf) for c, cf in jobs if only in c.name]
    if not jobs:
        raise EngineError("no cases selected")
    timeout_ms = timeout_ms or (300000 if tier == "quick" else 900000)
    if tier == "thorough":
        os.environ.setdefault("VERIF_CROSSCHECK", "2")     # cvc5 re-decides two unsat verdicts per program
    t0 = time.time()
    results = req.run_cases(jobs, timeout_ms=timeout_ms)
    res = common.Result(pid, level)
    by_name = {c.name: (c, {cf.name: cf for cf in cfs}) for c, cfs in jobs}
    n_obl = n_equal = n_differ = n_unsup = n_rej = 0
    programs = 0
    samples = []
    fam = collections.Counter()
    solver_s = 0.0
    queries = 0
    witnessed = 0
    cross = collections.Counter()
    for r in results:
        case, cfgmap = by_name[r["case"]]
        if r["error"]:
            if r["error"].startswith("reference-unsupported"):
                res.inconc("%s: %s" % (r["case"], r["error"]))
            else:
                res.inconc("%s: %s" % (r["case"], r["error"][:600]))
            continue
        programs += 1
        fam[r["family"]] += 1
        solver_s += r.get("solver_s", 0)
        queries += r.get("queries", 0)
        for kx in ("checked", "agree", "cvc5_unknown"):
            cross[kx] += r.get("cross", {}).get(kx, 0)
        if r.get("witness") == "sat":
            witnessed += 1
        elif r.get("witness") is not None:
            res.inconc("%s: vacuity witness (some output non-empty) is %s" % (r["case"], r.get("witness")))
        for x in r["results"]:
            n_obl += 1
            v = x["verdict"]
            if v == "equal":
                n_equal += 1
            elif v == "differ":
                n_differ += 1
                cfg = cfgmap[x["cfg"]]
                tag = "%s/%s__%s" % (pid, r["case"], x["cfg"].replace("/", "_").replace(" ", "_"))
                try:
                    repro, info, d = req.replay_differ(case, cfg, x["facts"], tag)
                except EngineError as e:
                    repro, info, d = False, "replay failed: %s" % e, ""
                if repro:
                    res.violation(("%s|%s" % (r["case"], x["cfg"])).replace(" ", "_"),
                                  "real souffle output differs from the least model on a solver-found database: %s [%s, cfg %s]" % (info[:300], r["case"], x["cfg"]), d)
                else:
                    res.inconc("%s cfg %s: solver model did not reproduce on the real binary (%s) -- RAM semantics or reference wrong" % (r["case"], x["cfg"], info[:200]))
            elif v == "unsupported":
                n_unsup += 1
                if not unsupported_ok:
                    res.inconc("%s cfg %s: %s" % (r["case"], x["cfg"], x.get("why")))
            elif v == "rejected":
                n_rej += 1
                if not rejected_ok:
                    res.inconc("%s cfg %s: souffle rejected the program: %s" % (r["case"], x["cfg"], x.get("why", "")[:200]))
            else:
                res.inconc("%s cfg %s: %s" % (r["case"], x["cfg"], x.get("why")))
        if len(samples) < 8:
            samples.append({"program": r["case"], "family": r["family"], "mode": r["mode"], "bound": r["bound"],
                            "db_vars": r.get("db_vars"), "reference_rounds": r.get("ref_iters"),
                            "configs": [{k: x.get(k) for k in ("cfg", "verdict", "query_s", "loop_iters", "why") if x.get(k) is not None} for x in r["results"][:6]],
                            "witness_db": r.get("witness_facts"), "text": case.text[:600]})
    skipped = [(r["case"], x["cfg"], x.get("why")) for r in results if not r["error"] for x in r["results"] if x["verdict"] in ("unsupported", "rejected")]
    res.coverage = {
        "programs": programs,
        "disagreements_checked": n_obl,
        "obligations": n_obl,
        "equal": n_equal,
        "differ": n_differ,
        "skipped_unsupported": n_unsup,
        "skipped_rejected_by_souffle": n_rej,
        "skipped": [list(s) for s in skipped[:40]],
        "families": dict(fam),
        "queries": queries,
        "solver_time_s": round(solver_s, 1),
        "witness_nonvacuous_programs": witnessed,
        "cvc5_cross_check": dict(cross),
        "samples": samples,
        "explanation": what,
        "bounds": "U-mode: every database over the program's constants + m pairwise-distinct symbolic 32-bit values; "
                  "L-mode: every database with <= n tuples per input relation, values arbitrary 32-bit; loops unrolled until the "
                  "solver proves the continuation condition unsatisfiable",
        "functions_encoded": "whatever souffle's front/middle end emits as RAM for each program+configuration (src/ast2ram, src/ast/transform, src/ram/transform)",
        "souffle_binary_sha": common.file_sha(common.SOUFFLE),
    }
    if extra_cov:
        res.coverage.update(extra_cov)
    res.assumptions = [
        "RAM printed by --show is the RAM that is executed; RAM executor semantics validated concretely against the interpreter's expected outputs of the repo tests (see C01 evidence) and by replay of every model",
        "reference least-model semantics written from the language manual (engine_r/dl.py)",
        "value domain: no signed overflow / division by zero in corpus programs",
    ] + list(assumptions)
    return res

"""Concrete use of the RAM executor: load .facts, run, render CSV — used to validate the RAM semantics
against the repo's own tests (Serval-style) and to replay solver models."""
import os

from vlib.common import EngineError
from . import sym
from .ramexec import Exec, Ctx, Unsupported


def _parse_val(txt, ty, ctx):
    try:
        return _parse_val2(txt, ty, ctx)
    except ValueError:
        raise Unsupported("malformed fact value %r (a loader-error test)" % txt[:20])


def _parse_val2(txt, ty, ctx):
    if ty == "i":
        v = int(txt, 0) if txt.lower().startswith(("0x", "0b", "-0x")) else int(txt)
        return sym.u32(v)
    if ty == "u":
        v = int(txt, 0) if txt.lower().startswith(("0x", "0b")) else int(txt)
        return sym.u32(v)
    if ty == "f":
        return sym.f32bits(float(txt))
    if ty == "s":
        return ctx.intern(txt)
    raise Unsupported("fact column of type " + ty)


def load_facts(prog, facts_dir, ctx, uni):
    """inputs for every relation with an input IO statement"""
    inputs = {}

    def walk(ss):
        for s in ss:
            if s.kind == "io" and s.dirs.get("operation") == "input":
                d = prog.rels[s.rel]
                if s.dirs.get("IO", "file") != "file":
                    raise Unsupported("input IO " + s.dirs.get("IO"))
                fn = s.dirs.get("filename") or (s.dirs.get("name", s.rel) + ".facts")
                path = fn if os.path.isabs(fn) else os.path.join(facts_dir, fn)
                delim = s.dirs.get("delimiter", "\t").replace("\\t", "\t")
                r = sym.Rel(s.rel, d.arity, d.types, uni)
                if os.path.exists(path):
                    for line in open(path, encoding="utf-8", errors="replace"):
                        line = line.rstrip("\n").rstrip("\r")
                        if d.arity == 0:
                            if line == "()":
                                r.insert((), True)
                            continue
                        if line == "" and d.arity > 1:
                            continue
                        cols = line.split(delim)
                        if len(cols) != d.arity:
                            raise Unsupported("fact line with %d columns for arity %d" % (len(cols), d.arity))
                        r.insert(tuple(_parse_val(c, t, ctx) for c, t in zip(cols, d.types)), True)
                inputs[s.rel] = r
            for attr in ("body",):
                if hasattr(s, attr) and isinstance(getattr(s, attr), list):
                    walk(getattr(s, attr))
    for ss in prog.subs.values():
        walk(ss)
    walk(prog.main)
    return inputs


def render(rel, ctx):
    """set of output lines (tab separated) for a concrete relation"""
    rev = {v: k for k, v in ctx.interner.items()}
    lines = set()
    for terms, g in rel.items():
        if g is not True:
            raise EngineError("render of a non-concrete relation")
        cols = []
        for v, ty in zip(terms, rel.types):
            if not isinstance(v, int):
                raise Unsupported("render of record value")
            if ty == "i":
                cols.append(str(sym.s32(v)))
            elif ty == "u":
                cols.append(str(v))
            elif ty == "f":
                cols.append(repr_float(sym.f32(v)))
            elif ty == "s":
                cols.append(rev.get(v, "<sym%d>" % v))
            else:
                raise Unsupported("render type " + ty)
        lines.add("\t".join(cols) if cols else "()")
    return lines


def repr_float(x):
    # souffle prints floats with operator<< default formatting (%g, 6 significant digits)
    return "%g" % x


def run_concrete(prog, facts_dir, functors=None):
    uni = sym.Universe()
    ctx = Ctx(uni)
    if functors:
        ctx.functors.update(functors)
    inputs = load_facts(prog, facts_dir, ctx, uni)
    ex = Exec(prog, ctx, inputs, max_loop=100000, loop_check=False)
    ex.run_main()
    return ex, ctx

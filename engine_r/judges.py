"""Judges: what must hold of the outputs of the executed RAM (as violation guards), and the same contract
evaluated concretely on the real binary's outputs for replay."""
import z3

from vlib.common import EngineError
from . import sym, dl, ramexec
from .sym import g_and, g_or, g_not


def _fwd(rel, items):
    return items


def _rev(rel, items):
    return list(reversed(items))


def _rot(rel, items):
    k = len(items) // 2
    return items[k:] + items[:k]


ORDERS = {"fwd": None, "rev": _rev, "rot": _rot}


def rel_differ(a, b):
    gs = []
    for t, g in a.items():
        gs.append(g_and(g, g_not(b.member(t))))
    for t, g in b.items():
        gs.append(g_and(g, g_not(a.member(t))))
    return g_or(*gs)


def judge_lm(case, refprog, ctx, db, ex, outs, ref_out):
    diffs = []
    for oname, rel in outs.items():
        rname = case.out_map.get(oname, oname)
        if rname not in ref_out:
            raise EngineError("output %s has no counterpart in the reference" % oname)
        diffs.append((oname, rel_differ(rel, ref_out[rname])))
    missing = [n for n in ref_out if n not in [case.out_map.get(o, o) for o in outs]]
    if missing:
        raise EngineError("reference outputs %s not produced by the RAM program" % missing)
    return diffs


def _final_db(refprog, ex_rels, uni):
    """relations of the source program as they are at the end of the run"""
    out = {}
    for n in refprog.rels:
        r = ex_rels.get(n)
        if r is None:
            raise EngineError("relation %s not present in the RAM program (renamed by a transformation?)" % n)
        out[n] = r
    return out


def _derivable(refprog, ctx, rels, target, functors=None):
    """tuples of `target` that its rules derive from the database `rels` (one application of the rules)"""
    ref = dl.Reference(refprog, ctx, {}, functors=functors)
    ref.rels = dict(rels)
    out = {target: sym.Rel(target, refprog.rels[target].arity, refprog.rels[target].types, ctx.uni)}
    for c in refprog.clauses:
        if any(h.name == target for h in c.heads):
            ref.apply_clause(c, {target}, out)
    return out[target]


def choice_contract(refprog, ctx, rels, functors=None):
    """violation guards of the choice-domain contract on a final database"""
    diffs = []
    uni = ctx.uni
    for name, info in refprog.rels.items():
        if not info.choice:
            continue
        r = rels[name]
        items = r.items()
        keys = [[info.attrs.index(a) for a in key] for key in info.choice]
        # functional: no two distinct tuples agree on a declared key
        for i in range(len(items)):
            for j in range(i + 1, len(items)):
                (t1, g1), (t2, g2) = items[i], items[j]
                same = r.tuple_eq(t1, t2)
                for key in keys:
                    agree = g_and(*[uni.eq(t1[c], t2[c]) for c in key])
                    diffs.append(("%s:functional" % name, g_and(g1, g2, agree, g_not(same))))
        d = _derivable(refprog, ctx, rels, name, functors)
        # sound: every tuple is derivable from the final database
        for t, g in items:
            diffs.append(("%s:sound" % name, g_and(g, g_not(d.member(t)))))
        # maximal: every derivable absent tuple clashes on some key with a present tuple
        for t, g in d.items():
            clash = []
            for t2, g2 in items:
                for key in keys:
                    clash.append(g_and(g2, *[uni.eq(t[c], t2[c]) for c in key]))
            diffs.append(("%s:maximal" % name, g_and(g, g_not(r.member(t)), g_not(g_or(*clash)))))
    return diffs


def judge_choice(case, refprog, ctx, db, ex, outs, ref_out):
    rels = _final_db(refprog, ex.rels, ctx.uni)
    return choice_contract(refprog, ctx, rels, case.functors)


def _card(rel):
    its = rel.items()
    tot = z3.IntVal(0)
    for _, g in its:
        tot = tot + z3.If(sym.g_z3(g), 1, 0)
    return tot


def limit_contract(refprog, ctx, outs, lm):
    diffs = []
    for name, k in refprog.limits.items():
        if name not in outs:
            continue
        o, full = outs[name], lm[name]
        for t, g in o.items():
            diffs.append(("%s:subset" % name, g_and(g, g_not(full.member(t)))))
        small = _card(full) < k
        diffs.append(("%s:complete-when-small" % name, z3.And(small, sym.g_z3(judges_differ(o, full)))))
        diffs.append(("%s:at-least-limit" % name, z3.And(z3.Not(small), _card(o) < k)))
    return diffs


def judges_differ(a, b):
    return rel_differ(a, b)


def judge_limit(case, refprog, ctx, db, ex, outs, ref_out):
    diffs = limit_contract(refprog, ctx, outs, ref_out)
    # relations without a limit must still equal the least model
    for oname, rel in outs.items():
        if oname not in refprog.limits:
            diffs.append((oname, rel_differ(rel, ref_out[oname])))
    return diffs


def subsume_contract(refprog, ctx, outs, lm, monotone):
    """no dominated tuple remains; only tuples derivable without subsumption; for monotone-cost programs
    exactly the minimal tuples of the unsubsumed result"""
    diffs = []
    ref = dl.Reference(refprog, ctx, {})
    for sc in refprog.subsumptions:
        name = sc.dominated.name
        if name not in outs:
            continue
        o, full = outs[name], lm[name]
        items = o.items()

        def dominated_by(t1, t2):
            env = {}
            gs = []
            for a, v in zip(sc.dominated.args, t1):
                q = ref.match(a, v, env) if a.k in ("var", "wild", "rec") and not (a.k == "var" and a.name in env) else ctx.uni.eq(ref.eval(a, env, None), v)
                gs.append(q)
            for a, v in zip(sc.dominating.args, t2):
                if a.k == "var" and a.name in env:
                    gs.append(ctx.uni.eq(env[a.name], v))
                else:
                    gs.append(ref.match(a, v, env))
            acc = []
            ref.vt = ref.var_type([sc.dominated, sc.dominating])
            ref._body(list(sc.body), env, g_and(*gs), lambda e2, g2: acc.append(g2))
            return g_or(*acc)
        for t1, g1 in items:
            diffs.append(("%s:derivable" % name, g_and(g1, g_not(full.member(t1)))))
            for t2, g2 in items:
                if t1 is t2:
                    continue
                diffs.append(("%s:no-dominated" % name, g_and(g1, g2, g_not(o.tuple_eq(t1, t2)), dominated_by(t1, t2))))
        if monotone:
            fitems = full.items()
            for t1, g1 in fitems:
                dom = g_or(*[g_and(g2, g_not(full.tuple_eq(t1, t2)), dominated_by(t1, t2)) for t2, g2 in fitems if t2 is not t1])
                minimal = g_and(g1, g_not(dom))
                diffs.append(("%s:minimal-present" % name, g_and(minimal, g_not(o.member(t1)))))
                diffs.append(("%s:only-minimal" % name, g_and(g1, dom, o.member(t1))))
    return diffs


def judge_subsume(case, refprog, ctx, db, ex, outs, ref_out):
    diffs = subsume_contract(refprog, ctx, outs, ref_out, bool(case.judge_arg))
    subs = set(sc.dominated.name for sc in refprog.subsumptions)
    for oname, rel in outs.items():
        if oname not in subs and not _depends_on(refprog, oname, subs):
            diffs.append((oname, rel_differ(rel, ref_out[oname])))
    return diffs


def _depends_on(refprog, name, targets):
    seen, todo = set(), [name]
    while todo:
        n = todo.pop()
        if n in seen:
            continue
        seen.add(n)
        for c in refprog.clauses:
            if any(h.name == n for h in c.heads):
                for l in c.body:
                    if l.k == "atom":
                        if l.name in targets:
                            return True
                        todo.append(l.name)
    return False


def lattice_contract(refprog, ctx, rels, functors):
    """one tuple per key; its lattice value is the join of all values derivable for the key from the final database;
    every key with a derivable value is present"""
    diffs = []
    uni = ctx.uni
    for name, info in refprog.rels.items():
        lc = getattr(info, "lattice_cols", [])
        if not lc:
            continue
        keycols = [i for i in range(info.arity) if i not in lc]
        r = rels[name]
        items = r.items()
        for i in range(len(items)):
            for j in range(i + 1, len(items)):
                (t1, g1), (t2, g2) = items[i], items[j]
                agree = g_and(*[uni.eq(t1[c], t2[c]) for c in keycols])
                diffs.append(("%s:one-tuple-per-key" % name, g_and(g1, g2, agree)))
        d = _derivable(refprog, ctx, rels, name, functors)
        ditems = d.items()
        for col in lc:
            spec = refprog.lattices[info.type_names[col]]
            lub = functors[spec["Lub"].name]
            for t, g in items:
                join, defined = None, False
                for dt, dg in ditems:
                    m = g_and(dg, *[uni.eq(t[c], dt[c]) for c in keycols])
                    if m is False:
                        continue
                    if join is None:
                        join, defined = dt[col], m
                    else:
                        join = sym.v_ite(m, sym.v_ite(defined, lub(join, dt[col]), dt[col]), join)
                        defined = g_or(defined, m)
                if join is None:
                    diffs.append(("%s:value-is-join-of-derivable" % name, g))
                else:
                    diffs.append(("%s:value-is-join-of-derivable" % name, g_and(g, g_or(g_not(defined), g_not(uni.eq(t[col], join))))))
        for dt, dg in ditems:
            present = g_or(*[g_and(g, *[uni.eq(t[c], dt[c]) for c in keycols]) for t, g in items])
            diffs.append(("%s:derivable-key-present" % name, g_and(dg, g_not(present))))
    return diffs


def judge_lattice(case, refprog, ctx, db, ex, outs, ref_out):
    rels = _final_db(refprog, ex.rels, ctx.uni)
    # relations with auxiliary (lattice) columns are plain relations for the contract
    return lattice_contract(refprog, ctx, rels, dict(ctx.functors, **case.functors))


JUDGES = {"lattice": judge_lattice, "lm": judge_lm, "choice": judge_choice, "limit": judge_limit, "subsume": judge_subsume}


# ------------------------------------------------------------------------------------------------ replay
def _concrete_rels(refprog, facts, real, uni):
    rels = {}
    for n, info in refprog.rels.items():
        r = sym.Rel(n, info.arity, info.types, uni)
        if n in refprog.inputs and n not in real:
            for row in facts.get(n, []):
                r.insert(tuple(row), True)
        elif n in real:
            for line in real[n]:
                cols = line.split("\t") if info.arity else []
                vals = []
                for c, ty in zip(cols, info.types):
                    if ty == "f":
                        vals.append(sym.f32bits(float(c)))
                    else:
                        vals.append(sym.u32(int(c)))
                r.insert(tuple(vals), True)
        else:
            raise EngineError("replay of a contract needs relation %s to be an input or an output" % n)
        rels[n] = r
    return rels


def replay_contract(case, refprog, facts, real):
    """evaluate the contract concretely on the real binary's outputs; -> list of violated clauses"""
    from . import req
    uni = sym.Universe()
    ctx = ramexec.Ctx(uni)
    ctx.functors.update(case.functors)
    why = []
    if case.judge == "choice":
        rels = _concrete_rels(refprog, facts, real, uni)
        diffs = choice_contract(refprog, ctx, rels, case.functors)
    elif case.judge == "lattice":
        rels = _concrete_rels(refprog, facts, real, uni)
        diffs = lattice_contract(refprog, ctx, rels, case.functors)
    else:
        inputs = req.concrete_inputs(refprog, facts, uni)
        ref = dl.Reference(refprog, ctx, inputs, max_iter=10000, functors=case.functors)
        ref.run()
        lm = ref.rels
        outs = {}
        for n in refprog.outputs:
            info = refprog.rels[n]
            r = sym.Rel(n, info.arity, info.types, uni)
            for line in real.get(n, set()):
                cols = line.split("\t") if info.arity else []
                r.insert(tuple(sym.f32bits(float(c)) if ty == "f" else sym.u32(int(c)) for c, ty in zip(cols, info.types)), True)
            outs[n] = r
        if case.judge == "limit":
            diffs = judge_limit(case, refprog, ctx, None, None, outs, lm)
        elif case.judge == "subsume":
            diffs = judge_subsume(case, refprog, ctx, None, None, outs, lm)
        else:
            raise EngineError("no replay for judge " + case.judge)
    for label, g in diffs:
        if g is True or (g is not False and z3.is_true(z3.simplify(sym.g_z3(g)))):
            why.append("contract clause violated on the real output: " + label)
    return sorted(set(why))

#!/bin/bash
# usage: tools_seed_test.sh <seed dir with patch.diff and demo/> <check ids...>
# Applies the seeded change to the scratch worktree /var/tmp/m-wt (reset to /repo HEAD), rebuilds /var/tmp/m-build,
# runs the demonstration with the changed and the unchanged binary, then the given checks against the changed tree.
set -u
SD=$1; shift
WT=/var/tmp/m-wt; MB=/var/tmp/m-build
[ -d $WT ] || git -C /repo worktree add --detach $WT HEAD >/dev/null 2>&1   # scratch worktree (remove with: git -C /repo worktree remove --force /var/tmp/m-wt; rm -rf /var/tmp/m-build)
git -C $WT checkout -q -- . && git -C $WT reset -q --hard "$(git -C /repo rev-parse HEAD)"
git -C $WT apply "$SD/patch.diff" || { echo "PATCH DOES NOT APPLY"; exit 3; }
git -C $WT diff --stat | tail -1
( cd /verif && VERIF_REPO=$WT VERIF_BUILD=$MB ./setup.sh | tail -1 )
if [ -x "$SD/demo/run.sh" ]; then
  ( cd "$SD/demo" && ./run.sh $MB/src/souffle >/dev/null 2>&1; echo "demo with change: exit $?"; ./run.sh /verif/.build/src/souffle >/dev/null 2>&1; echo "demo without change: exit $?" )
fi
for c in "$@"; do
  ( cd /verif && VERIF_REPO=$WT VERIF_BUILD=$MB timeout 3000 ./check $c --tier quick > /tmp/w/seedrun_$c.log 2>&1; echo "check $c: exit $?"; grep -c "^VIOLATION" /tmp/w/seedrun_$c.log; grep "^VIOLATION\|^INCONCLUSIVE\|^ENGINE" /tmp/w/seedrun_$c.log | head -5 )
done
git -C $WT checkout -q -- .
# evidence files were overwritten by runs against the changed tree: restore the committed ones
( cd /verif && git checkout -q -- evidence 2>/dev/null )
